#!/venv/bin/python
"""Regenerate MANIFEST.json from the per-property table below (kept valid at all times)."""
import json, os, importlib, sys
here = os.path.dirname(os.path.dirname(os.path.abspath(__file__)))
sys.path.insert(0, here)
from mc import manifest_table as T

checks = []
for pid in sorted(T.CHECKS):
    c = T.CHECKS[pid]
    checks.append({
        'property_id': pid,
        'quick_cmd': './check %s --tier quick' % pid,
        'thorough_cmd': './check %s --tier thorough' % pid,
        'evidence_file': 'evidence/%s.json' % pid,
        'replay_cmd_template': './check %s --replay {path}' % pid,
        'engine': 'mc-explorer',
        'level_claimed': {'category': 'model_checking', 'text': c['text'],
                          'design_ref': 'DESIGN.md section 4, ' + pid},
        'level_note': c['note'],
        'technique': c['technique'],
    })
man = {
    'version': 1,
    'setup_cmd': '/venv/bin/python -m compileall -q mc tools >/dev/null && /venv/bin/python tests/selftest.py',
    'hooks': {'guard': 'ODL_VERIF', 'enable': 'no source hooks are needed: the checks run /repo\'s working tree directly (PYTHONPATH=$VERIF_REPO) and take path coverage from sys.monitoring; ./check exports ODL_VERIF=1 for completeness',
              'baseline_off_cmd': 'cd /repo && /venv/bin/python -m pytest -ra -q -p no:cacheprovider --timeout=900 --continue-on-collection-errors',
              'source_commits': [], 'add_only': True},
    'engines': [{'name': 'mc-explorer', 'path': 'mc/engine.py',
                 'serves_properties': sorted(T.CHECKS),
                 'kind_free_text': 'hand-written explicit-state / bounded-exhaustive explorer for Python: enumerates the full bounded configuration, program (expression-tree BFS) or history space, executes the real odl code in every state and compares with an executable reference model; fork pool, deterministic order permuted by VERIF_SEED, replay files, known-findings matching, sys.monitoring path signatures'}],
    'checks': checks,
    'notes': T.NOTES,
    'not_applicable': [{'property_id': p, 'reason': r} for p, r in sorted(T.NOT_APPLICABLE.items())],
}
json.dump(man, open(os.path.join(here, 'MANIFEST.json'), 'w'), indent=1)
print('wrote MANIFEST.json with %d checks, %d not_applicable' % (len(checks), len(man['not_applicable'])))
