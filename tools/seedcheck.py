#!/venv/bin/python
"""tools/seedcheck.py <seeded-dir> [--checks C01,C03] [--no-suite] [--thorough] [--thorough-on-miss]

Confirms a seeded change and runs the checks against it:
 1. demo.py exits 0 on the unchanged /repo and 1 with the patch applied (scratch copy under /var/tmp)
 2. the repository's own test suite still passes with the patch
 3. ./check <property> (quick; thorough if quick is silent or --thorough) against the scratch copy
Results are written into <seeded-dir>/meta.json under "verified"; the scratch copy is removed.
"""
import json
import os
import shutil
import subprocess
import sys
import tempfile
import time


def sh(cmd, env=None, cwd=None, timeout=7200):
    p = subprocess.run(cmd, shell=True, env=env, cwd=cwd, capture_output=True, text=True,
                       timeout=timeout)
    return p.returncode, (p.stdout + p.stderr)


def main():
    d = os.path.abspath(sys.argv[1])
    args = sys.argv[2:]
    meta_path = os.path.join(d, 'meta.json')
    meta = json.load(open(meta_path))
    prop = meta['property']
    checks = [prop]
    for i, a in enumerate(args):
        if a == '--checks':
            checks = args[i + 1].split(',')
    scratch = tempfile.mkdtemp(prefix='seed_eval_', dir='/var/tmp')
    res = {'when': time.strftime('%Y-%m-%d %H:%M:%S'), 'repo_head': sh('git -C /repo rev-parse --short HEAD')[1].strip()}
    try:
        sh('cp -r /repo/odl /repo/setup.py /repo/setup.cfg /repo/README.md %s/ 2>/dev/null; '
           'cp /repo/conftest.py %s/ 2>/dev/null' % (scratch, scratch))
        rc, out = sh('patch -p1 --no-backup-if-mismatch < %s' % os.path.join(d, 'patch.diff'), cwd=scratch)
        res['patch_applies'] = rc == 0
        if rc != 0:
            res['patch_output'] = out[-400:]
            return res
        base_env = dict(os.environ)
        base_env.pop('PYTHONPATH', None)
        rc0, out0 = sh('/venv/bin/python %s' % os.path.join(d, 'demo.py'),
                       env=dict(base_env, PYTHONPATH='/repo'), cwd='/var/tmp', timeout=900)
        rc1, out1 = sh('/venv/bin/python %s' % os.path.join(d, 'demo.py'),
                       env=dict(base_env, PYTHONPATH=scratch), cwd='/var/tmp', timeout=900)
        res['demo_unchanged_exit'] = rc0
        res['demo_with_change_exit'] = rc1
        res['demo_with_change_output'] = out1[-300:]
        if '--no-suite' not in args:
            rc, out = sh('/venv/bin/python -m pytest -q -p no:cacheprovider -n 8 --timeout=900 odl 2>&1 | tail -3',
                         env=dict(base_env, PYTHONPATH=scratch), cwd=scratch, timeout=3600)
            res['suite_with_change'] = out.strip().splitlines()[-1] if out.strip() else ''
            if 'failed' in res['suite_with_change']:
                # the suite has one randomised geometry test that fails now and then on the unchanged
                # tree too: a failure is only believed if it repeats
                rc, out = sh('/venv/bin/python -m pytest -q -p no:cacheprovider -n 8 --timeout=900 odl 2>&1 '
                             '| grep -E "^(FAILED|ERROR)|passed|failed" | tail -8',
                             env=dict(base_env, PYTHONPATH=scratch), cwd=scratch, timeout=3600)
                res['suite_first_run'] = res['suite_with_change']
                res['suite_with_change'] = out.strip().splitlines()[-1] if out.strip() else ''
                res['suite_rerun_failures'] = [l for l in out.splitlines() if l.startswith(('FAILED', 'ERROR'))]
        det = {}
        for c in checks:
            for tier in (['quick', 'thorough'] if '--thorough' in args else ['quick']):
                rc, out = sh('/verif/check %s --tier %s' % (c, tier),
                             env=dict(base_env, VERIF_REPO=scratch, VERIF_MAX_CONFIRM='3'), timeout=7200)
                sites = [l.strip() for l in out.splitlines() if l.startswith('  site=')]
                det['%s/%s' % (c, tier)] = {'exit': rc, 'new_sites': len(sites),
                                            'first_sites': [s[:200] for s in sites[:4]],
                                            'summary': out.strip().splitlines()[-1][:300] if out.strip() else ''}
                if rc == 1:
                    break
            if det.get('%s/quick' % c, {}).get('exit') == 0 and '--thorough-on-miss' in args:
                rc, out = sh('/verif/check %s --tier thorough' % c,
                             env=dict(base_env, VERIF_REPO=scratch, VERIF_MAX_CONFIRM='3'), timeout=14400)
                sites = [l.strip() for l in out.splitlines() if l.startswith('  site=')]
                det['%s/thorough' % c] = {'exit': rc, 'new_sites': len(sites),
                                          'first_sites': [s[:200] for s in sites[:4]],
                                          'summary': out.strip().splitlines()[-1][:300] if out.strip() else ''}
        res['detection'] = det
        res['detected_by'] = sorted(k for k, v in det.items() if v['exit'] == 1)
        return res
    finally:
        shutil.rmtree(scratch, ignore_errors=True)
        old = meta.get('verified') or {}
        if 'suite_with_change' not in res and old.get('suite_with_change'):
            res['suite_with_change'] = old['suite_with_change']
        hist = meta.get('evaluation_history') or []
        if old.get('detection') is not None:
            hist.append({'when': old.get('when'), 'detected_by': old.get('detected_by'),
                         'checks_run': sorted(old.get('detection', {}))})
        if hist:
            meta['evaluation_history'] = hist
        meta['verified'] = res
        json.dump(meta, open(meta_path, 'w'), indent=1)
        print(json.dumps({k: res.get(k) for k in ('patch_applies', 'demo_unchanged_exit',
                                                  'demo_with_change_exit', 'suite_with_change',
                                                  'detected_by')}, indent=1))


if __name__ == '__main__':
    main()
