#!/venv/bin/python
"""Print a python source file with docstrings of >= 3 lines removed (reading aid)."""
import ast, sys
src = open(sys.argv[1]).read()
tree = ast.parse(src)
kill = set()
for node in ast.walk(tree):
    if isinstance(node, (ast.FunctionDef, ast.ClassDef, ast.Module, ast.AsyncFunctionDef)):
        b = node.body
        if b and isinstance(b[0], ast.Expr) and isinstance(getattr(b[0], 'value', None), ast.Constant) and isinstance(b[0].value.value, str):
            if b[0].end_lineno - b[0].lineno >= 2:
                kill.update(range(b[0].lineno + 1, b[0].end_lineno + 1))
lines = src.splitlines()
lo = int(sys.argv[2]) if len(sys.argv) > 2 else 1
hi = int(sys.argv[3]) if len(sys.argv) > 3 else len(lines)
for i, l in enumerate(lines, 1):
    if i in kill or i < lo or i > hi:
        continue
    if not l.strip():
        continue
    print('%d\t%s' % (i, l))
