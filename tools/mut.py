#!/venv/bin/python
"""tools/mut.py <relfile> <old> <new> <check> [<check> ...]
Apply a one-string mutation to a scratch copy of /repo (under /var/tmp), run the given checks
against it (quick tier), report exit codes, remove the copy."""
import os, shutil, subprocess, sys, tempfile
rel, old, new = sys.argv[1:4]
checks = sys.argv[4:]
d = tempfile.mkdtemp(prefix='odl_mut_', dir='/var/tmp')
try:
    subprocess.check_call(['cp', '-r', '/repo/odl', d + '/odl'])
    p = os.path.join(d, rel)
    s = open(p).read()
    if s.count(old) != 1:
        print('pattern occurs %d times' % s.count(old)); sys.exit(3)
    open(p, 'w').write(s.replace(old, new))
    env = dict(os.environ, VERIF_REPO=d, VERIF_MAX_CONFIRM=os.environ.get('VERIF_MAX_CONFIRM', '2'))
    for c in checks:
        r = subprocess.run(['/verif/check', c], env=env, capture_output=True, text=True)
        lines = [l for l in r.stdout.splitlines() if l.startswith(('  site=', 'VIOLATION', 'NONDET', 'HARNESS'))]
        print('%s exit=%d  %s' % (c, r.returncode, r.stdout.splitlines()[-1] if r.stdout else ''))
        for l in lines[:6]:
            print('   ', l[:200])
finally:
    shutil.rmtree(d, ignore_errors=True)
