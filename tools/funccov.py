#!/venv/bin/python
"""tools/funccov.py Cxx [--tier quick]   (diagnostic, not a check)

Runs ./check Cxx with VERIF_FUNCCOV set and lists the functions / methods defined in the files the
property is anchored in that NO explored state executed.  A function nobody executes is a driver
hole: a change there cannot be detected.  Output: /var/tmp/funccov/<Cxx>.txt
"""
import ast
import glob
import json
import os
import shutil
import subprocess
import sys

prop = sys.argv[1]
tier = sys.argv[sys.argv.index('--tier') + 1] if '--tier' in sys.argv else 'quick'
repo = os.environ.get('VERIF_REPO', '/repo')
props = {json.loads(l)['id']: json.loads(l) for l in open('/verif/properties.jsonl')}
files = props[prop]['anchors']['files']
out = '/var/tmp/funccov/%s.d' % prop
shutil.rmtree(out, ignore_errors=True)
env = dict(os.environ, VERIF_FUNCCOV=out, VERIF_REPO=repo)
# scratch evidence: run as a "mutant" run so /verif/evidence is not touched
scratch = '/var/tmp/funccov/repo_%s' % prop
shutil.rmtree(scratch, ignore_errors=True)
os.makedirs(scratch)
subprocess.run('cp -r %s/odl %s/' % (repo, scratch), shell=True, check=True)
env['VERIF_REPO'] = scratch
p = subprocess.run(['/verif/check', prop, '--tier', tier], env=env, capture_output=True, text=True)
print('check exit', p.returncode, file=sys.stderr)
seen = set()
for f in glob.glob(out + '/*.txt'):
    seen.update(l.strip() for l in open(f) if l.strip())
seen_keys = set()
for s in seen:
    fn, qual, line = s.rsplit(':', 2)
    seen_keys.add((fn, int(line)))
lines = []
for rel in files:
    path = os.path.join(scratch, rel)
    if not os.path.exists(path):
        continue
    tree = ast.parse(open(path).read())
    relodl = rel[len('odl/'):]
    total = hit = 0
    missing = []

    def visit(node, prefix):
        global total, hit
        for ch in ast.iter_child_nodes(node):
            if isinstance(ch, (ast.FunctionDef, ast.AsyncFunctionDef)):
                total += 1
                first = ch.lineno
                # decorators shift co_firstlineno to the first decorator line
                cand = {first} | {d.lineno for d in ch.decorator_list}
                if any((relodl, c) in seen_keys for c in cand):
                    hit += 1
                else:
                    nbody = (ch.end_lineno or first) - first
                    missing.append('%s%s:%d (%d lines)' % (prefix, ch.name, first, nbody))
                visit(ch, prefix + ch.name + '.')
            elif isinstance(ch, ast.ClassDef):
                visit(ch, prefix + ch.name + '.')
            else:
                visit(ch, prefix)
    visit(tree, '')
    lines.append('== %s: %d of %d functions executed' % (rel, hit, total))
    lines.extend('   ' + m for m in missing)
shutil.rmtree(scratch, ignore_errors=True)
shutil.rmtree(out, ignore_errors=True)
open('/var/tmp/funccov/%s.txt' % prop, 'w').write('\n'.join(lines) + '\n')
print('\n'.join(lines))
