#!/bin/bash
# tools/seed_collect.sh Cxx  : copy the seeded changes of a finished seeding agent into /verif/seeded
# and confirm + evaluate each (tools/seedcheck.py). Removes the agent's worktree afterwards.
p=$1
wt=${SEED_WT_PREFIX:-/tmp/wt_}$p
for d in $wt/seeded_out/[mnpqrs]*; do
  [ -f $d/patch.diff ] || continue
  n=$(basename $d)
  t=/verif/seeded/$p-$n
  mkdir -p $t
  cp $d/patch.diff $d/demo.py $d/meta.json $t/ 2>/dev/null
  /verif/tools/seedcheck.py $t ${@:2} > $t/seedcheck.log 2>&1
  tail -12 $t/seedcheck.log
done
git -C /repo worktree remove --force $wt 2>/dev/null || rm -rf $wt
git -C /repo worktree prune
