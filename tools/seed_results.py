#!/venv/bin/python
"""Generate seeded/RESULTS.md from the meta.json files."""
import glob, json, os, collections
rows = []
first_missed = []          # missed by the checks as they were when the change arrived, caught now
superseded = []
per_prop = collections.OrderedDict()
for m in sorted(glob.glob('/verif/seeded/*/meta.json')):
    d = json.load(open(m))
    v = d.get('verified') or {}
    name = os.path.basename(os.path.dirname(m))
    ok = (v.get('patch_applies') and v.get('demo_unchanged_exit') == 0 and v.get('demo_with_change_exit') not in (0, None)
          and 'passed' in str(v.get('suite_with_change', '')) and 'failed' not in str(v.get('suite_with_change', '')))
    det = v.get('detected_by') or []
    sites = ''
    for k in det[:1]:
        fs = v['detection'][k].get('first_sites') or []
        sites = '; '.join(s.replace('site=', '').split(' count=')[0] for s in fs[:2])
    hist = d.get('evaluation_history') or []
    own = d.get('property')
    # first evaluation that ran the property's own check in both tiers (or found it)
    first = None
    for h in hist + [{'detected_by': det, 'checks_run': sorted((v.get('detection') or {}).keys())}]:
        if any(c.startswith(own + '/') for c in (h.get('checks_run') or [])):
            first = h
            break
    missed_first = bool(first is not None and not (first.get('detected_by') or []) and det)
    if missed_first:
        first_missed.append((name, ', '.join(det), sites[:140]))
    if d.get('superseded'):
        superseded.append((name, d['superseded']))
        continue
    rows.append((name, own, str(d.get('what_changed', ''))[:110].replace('|', '/'),
                 str(d.get('needs_to_manifest', ''))[:110].replace('|', '/'), 'yes' if ok else 'NO',
                 ', '.join(det) if det else 'MISSED', sites[:160].replace('|', '/'),
                 'missed at first' if missed_first else ''))
    pp = per_prop.setdefault(own, [0, 0, 0, 0])
    pp[0] += 1
    pp[1] += bool(ok)
    pp[2] += bool(ok and det)
    pp[3] += bool(ok and det and any(k.endswith('/quick') for k in det))
with open('/verif/seeded/RESULTS.md', 'w') as f:
    f.write('# Independently seeded changes and what the checks report\n\n'
            'confirmed = patch applies, demo exits 0 on /repo and non-zero with the patch, repository suite passes '
            'with the patch. "missed at first" = the check as it was when the change arrived stayed silent in both '
            'tiers; it was strengthened afterwards (DESIGN.md 6.2).\n\n')
    f.write('| property | changes | confirmed | detected | of these by the quick tier |\n|---|---|---|---|---|\n')
    for p, (a, b, c, q) in per_prop.items():
        f.write('| %s | %d | %d | %d | %d |\n' % (p, a, b, c, q))
    n = len(rows); c = sum(1 for r in rows if r[4] == 'yes'); dct = sum(1 for r in rows if r[4] == 'yes' and r[5] != 'MISSED')
    f.write('\n%d changes, %d confirmed, %d of the confirmed ones detected (%d of them only after the check was '
            'strengthened).\n\n' % (n, c, dct, len(first_missed)))
    f.write('| id | property | change | needs to manifest | confirmed | detected by | first sites | note |\n'
            '|---|---|---|---|---|---|---|---|\n')
    for r in rows:
        f.write('| ' + ' | '.join(r) + ' |\n')
    waves = collections.OrderedDict()
    fm = set(n_ for n_, _, _ in first_missed)
    for r in rows:
        if r[4] != 'yes':
            continue
        w = waves.setdefault(r[0].split('-')[1][0], [0, 0, 0])
        w[0] += 1
        w[1] += (r[5] != 'MISSED' and r[0] not in fm)
        w[2] += (r[5] != 'MISSED')
    f.write('\n## Per wave\n\n| wave | confirmed changes | reported by the checks as they stood | reported now |\n'
            '|---|---|---|---|\n')
    for w, (a, b, c_) in waves.items():
        f.write('| -%s* | %d | %d | %d |\n' % (w, a, b, c_))
    missed = [r for r in rows if r[4] == 'yes' and r[5] == 'MISSED']
    f.write('\n## Confirmed changes that no check reports\n\n')
    if not missed:
        f.write('none\n')
    for r in missed:
        why = ''
        try:
            why = json.load(open('/verif/seeded/%s/meta.json' % r[0])).get('not_judged', '')
        except Exception:
            pass
        f.write('* %s: %s (needs: %s)%s\n' % (r[0], r[2], r[3], (' - ' + why) if why else ''))
    if superseded:
        f.write('\n## Changes superseded by a later repair of /repo (not counted above)\n\n')
        for n_, t_ in superseded:
            f.write('* %s: %s\n' % (n_, t_))
print(open('/verif/seeded/RESULTS.md').read()[:1800])
