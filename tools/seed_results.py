#!/venv/bin/python
"""Generate seeded/RESULTS.md from the meta.json files."""
import glob, json, os
rows = []
for m in sorted(glob.glob('/verif/seeded/*/meta.json')):
    d = json.load(open(m))
    v = d.get('verified', {})
    name = os.path.basename(os.path.dirname(m))
    ok = (v.get('patch_applies') and v.get('demo_unchanged_exit') == 0 and v.get('demo_with_change_exit') not in (0, None)
          and 'passed' in str(v.get('suite_with_change', '')) and 'failed' not in str(v.get('suite_with_change', '')))
    det = v.get('detected_by') or []
    sites = ''
    for k in det[:1]:
        fs = v['detection'][k].get('first_sites') or []
        sites = '; '.join(s.replace('site=', '').split(' count=')[0] for s in fs[:2])
    rows.append((name, d.get('property'), str(d.get('what_changed', ''))[:110].replace('|', '/'),
                 str(d.get('needs_to_manifest', ''))[:110].replace('|', '/'), 'yes' if ok else 'NO',
                 ', '.join(det) if det else 'MISSED', sites[:160].replace('|', '/')))
with open('/verif/seeded/RESULTS.md', 'w') as f:
    f.write('# Independently seeded changes and what the checks report\n\n'
            'confirmed = patch applies, demo exits 0 on /repo and non-zero with the patch, repository suite passes with the patch.\n\n'
            '| id | property | change | needs to manifest | confirmed | detected by | first sites |\n|---|---|---|---|---|---|---|\n')
    for r in rows:
        f.write('| ' + ' | '.join(r) + ' |\n')
    n = len(rows); c = sum(1 for r in rows if r[4] == 'yes'); dct = sum(1 for r in rows if r[4] == 'yes' and r[5] != 'MISSED')
    f.write('\n%d changes, %d confirmed, %d of the confirmed ones detected.\n' % (n, c, dct))
print(open('/verif/seeded/RESULTS.md').read()[-400:])
