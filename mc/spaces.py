"""Named small spaces, flat-array views and point alphabets shared by the checks.

Nothing here encodes an expected numeric value; weights are *measured* from the space's own
inner product (C02 validates that inner product against the documented formulas).
"""
import itertools

import numpy as np
import odl


_CACHE = {}


def build(name):
    """Space by registry name (cached: array-weighted spaces compare by identity of the array)."""
    if name not in _CACHE:
        _CACHE[name] = _build(name)
    return _CACHE[name]


def _build(name):
    if name == 'rn1':
        return odl.rn(1)
    if name == 'rn2':
        return odl.rn(2)
    if name == 'rn3':
        return odl.rn(3)
    if name == 'rn4':
        return odl.rn(4)
    if name == 'rn3f32':
        return odl.rn(3, dtype='float32')
    if name == 'rn60k':
        return odl.rn(60000)                         # above the BLAS threshold of lincomb (50000)
    if name == 'ud60k':
        return odl.uniform_discr(0, 3, 60000)        # cell volume 1/20000
    if name == 'cn60k':
        return odl.cn(60000)
    if name == 'rn3w2':
        return odl.rn(3, weighting=2.0)
    if name == 'rn2w2':
        return odl.rn(2, weighting=2.0)
    if name == 'rn3wa':
        return odl.rn(3, weighting=[1.0, 2.0, 0.5])
    if name == 'rn2wa':
        return odl.rn(2, weighting=[2.0, 0.5])
    if name == 'rn2x2':
        return odl.rn((2, 2))
    if name == 'cn2':
        return odl.cn(2)
    if name == 'cn2w2':
        return odl.cn(2, weighting=2.0)
    if name == 'ud3':
        return odl.uniform_discr(0, 1.5, 3)          # cell volume 1/2
    if name == 'ud2':
        return odl.uniform_discr(0, 1, 2)            # cell volume 1/2
    if name == 'ud4':
        return odl.uniform_discr(0, 1, 4)            # cell volume 1/4
    if name == 'ud3b':
        return odl.uniform_discr(0, 1, 3, nodes_on_bdry=True)
    if name == 'ud2x2':
        return odl.uniform_discr([0, 0], [1, 4], (2, 2))   # cell volume 1
    if name == 'ud2x2v':
        return odl.uniform_discr([0, 0], [1, 1], (2, 2))   # cell volume 1/4
    if name == 'udc2':
        return odl.uniform_discr(0, 1, 2, dtype=complex)
    if name == 'pw_rn2_2':
        return odl.rn(2) ** 2
    if name == 'pw_rn1_2':
        return odl.rn(1) ** 2
    if name == 'pw_rn2_3':
        return odl.rn(2) ** 3
    if name == 'pw_ud2_2':
        return odl.uniform_discr(0, 1, 2) ** 2
    if name == 'pw_rn2w2_2':
        return odl.rn(2, weighting=2.0) ** 2
    if name == 'pr_rn2_rn1':
        return odl.ProductSpace(odl.rn(2), odl.rn(1))
    if name == 'pr_rn2_rn2_w':
        return odl.ProductSpace(odl.rn(2), odl.rn(2), weighting=[2.0, 0.5])
    if name == 'pw_rn2_2_c':
        return odl.ProductSpace(odl.rn(2), 2, weighting=2.0)
    if name == 'pw_rn2_1_c':
        return odl.ProductSpace(odl.rn(2), 1, weighting=2.0)      # ONE component, weighted
    if name == 'pw_rn2_2_wl':
        return odl.ProductSpace(odl.rn(2), 2, weighting=[1.0, 4.0])
    if name == 'nest_rn1_2x2':
        return (odl.rn(1) ** 2) ** 2
    if name == 'nest_rn2_2x2':
        return (odl.rn(2) ** 2) ** 2
    if name == 'pw_cn2_2':
        return odl.cn(2) ** 2
    raise KeyError(name)


def is_pspace(space):
    return isinstance(space, odl.ProductSpace)


def is_field(space):
    return isinstance(space, odl.set.sets.Field)


def flat_size(space):
    if is_field(space):
        return 1
    if is_pspace(space):
        return sum(flat_size(s) for s in space)
    return int(space.size)


def dtype_of(space):
    if is_field(space):
        return np.dtype(complex) if isinstance(space, odl.ComplexNumbers) else np.dtype(float)
    if is_pspace(space):
        if len(space) == 0:
            return np.dtype(float)
        dts = [dtype_of(s) for s in space]
        return np.result_type(*dts)
    return np.dtype(space.dtype)


def to_flat(x):
    """Flat copy of the entries of an element (C order, components concatenated)."""
    if not hasattr(x, 'space'):
        return np.array([x]).ravel()          # field element (Python / NumPy scalar)
    if is_pspace(x.space):
        parts = [to_flat(xi) for xi in x]
        return np.concatenate(parts) if parts else np.zeros(0)
    return np.array(x.asarray(), copy=True).ravel()


def from_flat(space, a):
    a = np.asarray(a)
    if is_field(space):
        v = a.ravel()[0]
        return space.element(complex(v) if isinstance(space, odl.ComplexNumbers)
                             else float(np.real(v)))
    if is_pspace(space):
        parts, pos = [], 0
        for s in space:
            n = flat_size(s)
            parts.append(from_flat(s, a[pos:pos + n]))
            pos += n
        return space.element(parts)
    return space.element(np.array(a, dtype=space.dtype).reshape(space.shape))


def has_layout(space):
    """True if some tensor part of the space has more than one axis (so that C and F order differ)."""
    if is_field(space):
        return False
    if is_pspace(space):
        return any(has_layout(s) for s in space)
    return len(space.shape) >= 2 and min(space.shape) >= 2


def from_flat_F(space, a):
    """Like from_flat, but every tensor part wraps a Fortran-ordered array (same values)."""
    a = np.asarray(a)
    if is_field(space):
        return from_flat(space, a)
    if is_pspace(space):
        parts, pos = [], 0
        for s in space:
            n = flat_size(s)
            parts.append(from_flat_F(s, a[pos:pos + n]))
            pos += n
        return space.element(parts)
    arr = np.asfortranarray(np.array(a, dtype=space.dtype).reshape(space.shape))
    return space.element(arr)


def is_complex(space):
    return np.issubdtype(dtype_of(space), np.complexfloating)


def basis(space):
    """Real basis of the space as flat arrays: e_k, and i*e_k on complex spaces."""
    n = flat_size(space)
    dt = dtype_of(space)
    out = []
    for k in range(n):
        e = np.zeros(n, dtype=dt)
        e[k] = 1
        out.append(e)
    if is_complex(space):
        for k in range(n):
            e = np.zeros(n, dtype=dt)
            e[k] = 1j
            out.append(e)
    return out


def gram(space):
    """Gram matrix G[i, j] = <e_j, e_i> of the flat (complex) basis, measured from the space."""
    n = flat_size(space)
    dt = dtype_of(space)
    es = []
    for k in range(n):
        e = np.zeros(n, dtype=dt)
        e[k] = 1
        es.append(from_flat(space, e))
    G = np.zeros((n, n), dtype=complex if is_complex(space) else float)
    for i in range(n):
        for j in range(n):
            if is_field(space):
                G[i, j] = es[j] * np.conj(es[i])
            else:
                G[i, j] = space.inner(es[j], es[i])
    return G


def weights(space):
    """Diagonal of the Gram matrix (requires a diagonal Gram matrix)."""
    G = gram(space)
    off = G - np.diag(np.diag(G))
    if np.abs(off).max() > 0:
        raise ValueError('space has a non-diagonal Gram matrix')
    return np.real(np.diag(G)).copy()


def points(n, V):
    """All vectors of V^n as arrays, simplest first (in the order of V)."""
    for t in itertools.product(V, repeat=n):
        yield np.array(t, dtype=float)


def real_coords(space, a):
    """Coordinates of a flat array in the real basis of `basis`."""
    a = np.asarray(a)
    if is_complex(space):
        return np.concatenate([a.real, a.imag])
    return a.real.astype(float)
