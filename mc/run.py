"""Command line of the explorer: python -m mc.run <Cxx> [--tier T] [--replay FILE]."""
import argparse
import os
import sys


def main(argv=None):
    ap = argparse.ArgumentParser()
    ap.add_argument('prop')
    ap.add_argument('--tier', default=os.environ.get('VERIF_TIER') or 'quick',
                    choices=['quick', 'thorough'])
    ap.add_argument('--replay')
    ap.add_argument('--json', action='store_true')
    ap.add_argument('--jobs', type=int, default=None)
    ap.add_argument('--list', action='store_true', help='print the configurations only')
    args = ap.parse_args(argv)
    repo = os.environ.get('VERIF_REPO', '/repo')
    import odl
    if not os.path.abspath(odl.__file__).startswith(os.path.abspath(repo) + os.sep):
        print('HARNESS-ERROR odl imported from %s, not from %s' % (odl.__file__, repo))
        return 2
    from mc import engine, poison
    poison.install()
    prop = args.prop.upper()
    if args.replay:
        return engine.replay_file(args.replay, as_json=args.json)
    if args.list:
        mod = engine._load(prop)
        for c in mod.configs(args.tier):
            print(engine.canon(c))
        return 0
    seed = int(os.environ.get('VERIF_SEED', '0') or 0)
    return engine.explore(prop, tier=args.tier, seed=seed, jobs=args.jobs)


if __name__ == '__main__':
    sys.exit(main())
