"""Own the one source of nondeterminism a sequential NumPy library has: uninitialised memory.

``space.element()`` and many temporaries are ``numpy.empty`` arrays; whatever the heap held
before leaks into results whenever code reads before it writes (e.g. ``set_zero`` computing
``0 * garbage``).  The harness replaces ``numpy.empty`` / ``numpy.empty_like`` (Python-level
entry points only) by versions that fill inexact arrays with NaN and integer arrays with a
sentinel, so a read-before-write is deterministic and visible instead of depending on the
allocation history of the process.  Correct code never observes the difference.
"""
import numpy as np

_orig_empty = np.empty
_orig_empty_like = np.empty_like
_installed = False
_FLOAT_FILL = [np.nan]


def set_float_fill(value):
    """Choose the poison for inexact arrays (default NaN).  Executing the same call under two
    different poisons separates 'the result legitimately contains NaN' from 'the result contains
    uninitialised memory': only the latter changes with the poison."""
    _FLOAT_FILL[0] = value


def _fill(a):
    try:
        k = a.dtype.kind
        if k in 'fc':
            a.fill(_FLOAT_FILL[0])
        elif k in 'iu':
            a.fill(np.iinfo(a.dtype).max // 3)
        elif k == 'b':
            a.fill(True)
    except Exception:
        pass
    return a


def empty(*args, **kwargs):
    return _fill(_orig_empty(*args, **kwargs))


def empty_like(*args, **kwargs):
    return _fill(_orig_empty_like(*args, **kwargs))


def install():
    global _installed
    if _installed:
        return
    np.empty = empty
    np.empty_like = empty_like
    _installed = True


def uninstall():
    global _installed
    np.empty = _orig_empty
    np.empty_like = _orig_empty_like
    _installed = False
