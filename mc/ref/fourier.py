"""Reference models for C18 (Fourier part).  NumPy only, deliberately naive, no odl, no FFT.

Everything is a *direct summation*:

* ``dft_apply``   -- the trigonometric sum  f_hat[k] = sum_j f[j] exp(-+ 2 pi i j k / N)  along the
  chosen axes (documented in ``DiscreteFourierTransform``), optionally cut to the first
  ``N // 2 + 1`` entries in the last transformed axis (half-complex storage);
* ``idft_apply``  -- the documented inverse  f[k] = 1/prod(N) sum_j f_hat[j] exp(+- 2 pi i j k / N)
  for full (not halved) spectra;
* ``ft_apply``    -- the exact continuous Fourier transform
  (2 pi)^(-d/2) int f(x) exp(-+ i x xi) dx  of the *piecewise constant* interpolant of the samples,
  evaluated at the nodes of the reciprocal grid.  Per axis with cell size s, nodes x_k and
  frequencies xi_j this is  sum_k f_k exp(-+ i x_k xi_j) * s * sinc(xi_j s / 2) / sqrt(2 pi),
  which is what the docstrings of ``dft_preprocess_data`` / ``dft_postprocess_data`` describe
  (phase factors for x[0] and xi[0], stride, FT of the nearest-neighbour kernel);
* ``recip_nodes`` -- the reciprocal grid as documented in ``reciprocal_grid``:
  stride 2 pi / (s N); xi[0] = -pi/s (shifted) or -pi/s + pi/(s N) (not shifted, symmetric).

``tests/test_c18_ref.py`` checks these against hand-computed literals and against ``numpy.fft``.
"""
import numpy as np


def dft_matrix(n, sign='-', half=False):
    """(m x n) matrix of the 1-d trigonometric sum; m = n//2+1 if `half` else n."""
    sg = -1.0 if sign == '-' else 1.0
    m = n // 2 + 1 if half else n
    k = np.arange(m).reshape(m, 1)
    j = np.arange(n).reshape(1, n)
    # reduce j*k modulo n exactly (integers) so that the angle stays in [0, 2 pi)
    ang = 2.0 * np.pi * ((k * j) % n) / n
    return np.cos(ang) + sg * 1j * np.sin(ang)


def _apply_along(mats, arr, axes):
    out = np.asarray(arr).astype(complex)
    for M, ax in zip(mats, axes):
        out = np.moveaxis(np.tensordot(M, out, axes=(1, ax)), 0, ax)
    return out


def dft_apply(arr, axes, sign='-', halfcomplex=False, offset=0):
    """Direct-sum DFT of `arr` along `axes` (`offset` leading batch axes are skipped)."""
    arr = np.asarray(arr)
    axes = [a + offset for a in axes]
    mats = [dft_matrix(arr.shape[a], sign, halfcomplex and i == len(axes) - 1)
            for i, a in enumerate(axes)]
    return _apply_along(mats, arr, axes)


def idft_apply(arr, axes, sign='+', offset=0):
    """Documented inverse for full spectra: 1/prod(N) * sum with exponent sign `sign`."""
    arr = np.asarray(arr)
    axes = [a + offset for a in axes]
    mats = [dft_matrix(arr.shape[a], sign) / arr.shape[a] for a in axes]
    return _apply_along(mats, arr, axes)


def basis_stack(shape, dtype, imag=False):
    """Array of shape (N,) + shape holding all unit vectors e_k (or i*e_k)."""
    n = int(np.prod(shape))
    E = np.zeros((n, n), dtype=dtype)
    E[np.arange(n), np.arange(n)] = 1j if imag else 1
    return E.reshape((n,) + tuple(shape))


def cell_nodes(n, lo, hi):
    s = (hi - lo) / float(n)
    return lo + s * (np.arange(n) + 0.5), s


def recip_nodes(n, s, shift, half=False):
    xi0 = -np.pi / s if shift else -np.pi / s + np.pi / (s * n)
    m = n // 2 + 1 if half else n
    return xi0 + (2.0 * np.pi / (s * n)) * np.arange(m)


def ft_axis_matrix(n, lo, hi, shift, sign='-', half=False):
    x, s = cell_nodes(n, lo, hi)
    xi = recip_nodes(n, s, shift, half)
    sg = -1.0 if sign == '-' else 1.0
    ker = s * np.sinc(xi * s / (2.0 * np.pi)) / np.sqrt(2.0 * np.pi)   # np.sinc(t)=sin(pi t)/(pi t)
    return np.exp(sg * 1j * np.outer(xi, x)) * ker[:, None]


def ft_apply(arr, lo, hi, axes, shifts, sign='-', halfcomplex=False, offset=0):
    """Exact FT of the piecewise-constant interpolant at the reciprocal grid nodes."""
    arr = np.asarray(arr)
    mats = []
    for i, (a, sh) in enumerate(zip(axes, shifts)):
        mats.append(ft_axis_matrix(arr.shape[a + offset], lo[a], hi[a], sh, sign,
                                   halfcomplex and i == len(axes) - 1))
    return _apply_along(mats, arr, [a + offset for a in axes])


def gaussian(x, c):
    return np.exp(-(x - c) ** 2 / 2.0)


def gaussian_ft(xi, c, sign='-'):
    """(2 pi)^(-1/2) int exp(-(x-c)^2/2) exp(-+ i x xi) dx = exp(-xi^2/2) exp(-+ i c xi)."""
    sg = -1.0 if sign == '-' else 1.0
    return np.exp(-xi ** 2 / 2.0) * np.exp(sg * 1j * c * xi)
