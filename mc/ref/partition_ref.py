"""Reference model of rectangular partitions for C14 (shares no code with odl).

One axis of a partition is ``Ax(lo, hi, nodes)`` in exact rational arithmetic
(``fractions.Fraction``; ``Fraction(float)`` is exact, so values taken over from an
implementation result are represented without error).  Everything else follows from the
documented midpoint rule  I[i] = [(x[i-1]+x[i])/2, (x[i]+x[i+1])/2]  with the outermost
boundaries replaced by the limits of the partitioned interval.

An n-dimensional partition is a list of ``Ax``.
"""
from fractions import Fraction as Fr


def fr(x):
    return x if isinstance(x, Fr) else Fr(x)


class Ax(object):
    def __init__(self, lo, hi, nodes):
        self.lo = fr(lo)
        self.hi = fr(hi)
        self.nodes = [fr(x) for x in nodes]

    @property
    def n(self):
        return len(self.nodes)

    @property
    def bdry(self):
        x = self.nodes
        return [self.lo] + [(x[i] + x[i + 1]) / 2 for i in range(len(x) - 1)] + [self.hi]

    @property
    def sizes(self):
        b = self.bdry
        return [b[i + 1] - b[i] for i in range(len(b) - 1)]

    @property
    def on_bdry(self):
        return (self.nodes[0] == self.lo, self.nodes[-1] == self.hi)

    @property
    def uniform(self):
        d = [self.nodes[i + 1] - self.nodes[i] for i in range(self.n - 1)]
        return all(v == d[0] for v in d)

    def key(self):
        return (self.lo, self.hi, tuple(self.nodes))

    def dyadic(self, bits=40):
        """All numbers of the axis (limits, nodes, boundaries) are k / 2**bits, |k| small."""
        for v in [self.lo, self.hi] + self.nodes + self.bdry:
            d = v.denominator
            if d & (d - 1) or d > (1 << bits) or abs(v) > 1 << 20:
                return False
        return True

    def __repr__(self):
        return 'Ax(%s, %s, %s)' % (float(self.lo), float(self.hi),
                                   [float(x) for x in self.nodes])


# --------------------------------------------------------------------------------------
# factories

def uniform_axis(lo, hi, n, bl, br):
    """Uniform axis: ``n`` nodes, equal cell side dx, the outermost node on the boundary where
    the flag is set, otherwise dx/2 inside.  Returns (Ax, dx) ; dx is None if no full cell lies
    between lo and hi (one node sitting on both boundaries: needs lo == hi)."""
    lo, hi = fr(lo), fr(hi)
    cells = Fr(n) - Fr(int(bool(bl)) + int(bool(br)), 2)
    if cells == 0:
        if lo != hi:
            raise ValueError('one node cannot sit on both ends of a non-degenerate interval')
        return Ax(lo, hi, [lo]), None
    dx = (hi - lo) / cells
    first = lo if bl else lo + dx / 2
    return Ax(lo, hi, [first + k * dx for k in range(n)]), dx


def nonuniform_axis(nodes, lo=None, hi=None, bl=False, br=False):
    """Axis from a coordinate vector.  Limits not given: the node itself where the flag is set or
    where there is a single node, else half the neighbouring node distance outside."""
    x = [fr(v) for v in nodes]
    if lo is None:
        lo = x[0] if (bl or len(x) == 1) else x[0] - (x[1] - x[0]) / 2
    if hi is None:
        hi = x[-1] if (br or len(x) == 1) else x[-1] + (x[-1] - x[-2]) / 2
    return Ax(lo, hi, x)


# --------------------------------------------------------------------------------------
# point location

def cells_containing(bdry, p):
    """Indices i with bdry[i] <= p <= bdry[i+1] (closed cells)."""
    return [i for i in range(len(bdry) - 1) if bdry[i] <= p <= bdry[i + 1]]


def float_index(bdry, p):
    """(lo, hi): admissible interval of the fractional index  i + (p - b[i]) / (b[i+1] - b[i]).
    The map is continuous across inner boundaries, so it is single-valued unless p lies in a
    cell of zero width."""
    vals = []
    for i in cells_containing(bdry, p):
        w = bdry[i + 1] - bdry[i]
        if w == 0:
            vals += [Fr(i), Fr(i + 1)]
        else:
            vals.append(i + (p - bdry[i]) / w)
    return min(vals), max(vals)


# --------------------------------------------------------------------------------------
# index expressions

class Inadmissible(Exception):
    pass


def _axis_sel(idx, n):
    """-> (selected indices, hull start, hull stop): hull = the unstrided range start:stop."""
    if isinstance(idx, slice):
        if idx.step is not None and idx.step <= 0:
            raise Inadmissible('non-positive step')
        sel = list(range(n)[idx])
        if not sel:
            raise Inadmissible('empty axis')
        full = range(n)[slice(idx.start, idx.stop, None)]
        return sel, full[0], full[-1] + 1
    i = int(idx)
    if not -n <= i < n:
        raise Inadmissible('index out of range')
    i %= n
    return [i], i, i + 1


def normalize_index(idx, shape):
    """Reference normalisation of an index expression made of ints, slices and one Ellipsis:
    fewer indices than axes are filled up from the right (documented).  Returns one
    (sel, hull_start, hull_stop) per axis."""
    ndim = len(shape)
    items = list(idx) if isinstance(idx, tuple) else [idx]
    if sum(1 for it in items if it is Ellipsis) > 1:
        raise Inadmissible('two ellipses')
    if not any(it is Ellipsis for it in items) and len(items) < ndim:
        items.append(Ellipsis)
    if any(it is Ellipsis for it in items):
        e = [k for k, it in enumerate(items) if it is Ellipsis][0]
        fill = ndim - (len(items) - 1)
        if fill < 0:
            raise Inadmissible('too many indices')
        items = items[:e] + [slice(None)] * fill + items[e + 1:]
    if len(items) != ndim:
        raise Inadmissible('too many indices')
    return [_axis_sel(it, n) for it, n in zip(items, shape)]


def contiguous(sel):
    return all(sel[k + 1] == sel[k] + 1 for k in range(len(sel) - 1))


def select_axis(ax, sel, hs, he):
    """Sub-axis: the selected nodes inside the hull [bdry[hs], bdry[he]]."""
    b = ax.bdry
    return Ax(b[hs], b[he], [ax.nodes[i] for i in sel])


def getitem(part, idx):
    """part: list of Ax.  -> (child, per-axis contiguous flags)."""
    norm = normalize_index(idx, [a.n for a in part])
    child = [select_axis(a, sel, hs, he) for a, (sel, hs, he) in zip(part, norm)]
    return child, [contiguous(sel) and hs == sel[0] and he == sel[-1] + 1 for sel, hs, he in norm]


def getitem_list(part, lst):
    """Index list: selection along the first axis (strictly increasing, in range).
    Hull: from the first selected cell to the last selected cell."""
    n = part[0].n
    if not lst:
        raise Inadmissible('empty list')
    sel = []
    for i in lst:
        if not -n <= i < n:
            raise Inadmissible('out of range')
        sel.append(i % n)
    if any(sel[k + 1] <= sel[k] for k in range(len(sel) - 1)):
        raise Inadmissible('not strictly increasing')
    child = [select_axis(part[0], sel, sel[0], sel[-1] + 1)] + list(part[1:])
    return child, [contiguous(sel)] + [True] * (len(part) - 1)


def insert(part, index, *others):
    nd = len(part)
    if not -nd <= index <= nd:
        raise Inadmissible('insert position')
    if index < 0:
        index += nd
    block = [a for o in others for a in o]
    return list(part[:index]) + block + list(part[index:])


def squeeze(part, axes=None):
    """Remove 1-node axes (among ``axes`` if given: list of non-negative ints)."""
    rng = range(len(part)) if axes is None else axes
    return [a for i, a in enumerate(part) if not (i in rng and a.n == 1)]


def byaxis(part, axes):
    return [part[i] for i in axes]
