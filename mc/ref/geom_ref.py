"""Reference model of rigid-motion acquisition geometries (property C19).

Deliberately naive: every function works on ONE parameter value (Python floats), rotations are
built from elementary plane rotations and a change of basis (no Rodrigues formula, no closed
Euler matrix), detector surfaces from the centre/normal/tangent description of the docstrings.
Nothing here imports odl.

Conventions taken from the odl docstrings (quoted in mc/props/c19.py where they are used):

* 2d rotation: [[cos, -sin], [sin, cos]] (counter-clockwise).
* axis rotation: counter-clockwise around the (normalised) axis, right-hand rule.
* Euler angles: "ZXZ" order, R = Rz(phi) Rx(theta) Rz(psi).
* default initial vectors are "a rotation of the original ones by a matrix that transforms
  <default principal vector> to the new (normalized) <principal vector>", the rotation being
  the one of ``rotation_matrix_from_to``: around n = u x v by the angle between u and v
  (2d: the unique rotation); for antiparallel vectors a half turn around the documented
  perpendicular vector.
* surface normals: 2d (normal, tangent) right-handed, 3d (tangent0, tangent1, normal)
  right-handed.
* curved detectors pass through the origin at parameter 0, are aligned with the axis (axes)
  there, and the angle parameter increases clockwise "by analogy to flat detectors".
"""
import math

import numpy as np


# ------------------------------------------------------------------------------------------
# small linear algebra on single vectors

def unit(v):
    v = np.asarray(v, dtype=float)
    n = math.sqrt(float(np.dot(v, v)))
    if n == 0.0:
        raise ValueError('zero vector')
    return v / n


def cross(a, b):
    a = np.asarray(a, dtype=float)
    b = np.asarray(b, dtype=float)
    return np.array([a[1] * b[2] - a[2] * b[1],
                     a[2] * b[0] - a[0] * b[2],
                     a[0] * b[1] - a[1] * b[0]])


def rot2(phi):
    c, s = math.cos(phi), math.sin(phi)
    return np.array([[c, -s], [s, c]])


def rot_z(t):
    c, s = math.cos(t), math.sin(t)
    return np.array([[c, -s, 0.0], [s, c, 0.0], [0.0, 0.0, 1.0]])


def rot_x(t):
    c, s = math.cos(t), math.sin(t)
    return np.array([[1.0, 0.0, 0.0], [0.0, c, -s], [0.0, s, c]])


def euler_zxz(phi, theta=0.0, psi=0.0):
    """R = Rz(phi) Rx(theta) Rz(psi)."""
    return rot_z(phi).dot(rot_x(theta)).dot(rot_z(psi))


def frame(axis):
    """Right-handed orthonormal frame (e1, e2, a) with a = axis / |axis|, as columns."""
    a = unit(axis)
    k = int(np.argmin(np.abs(a)))
    h = np.zeros(3)
    h[k] = 1.0
    e1 = unit(h - np.dot(h, a) * a)
    e2 = cross(a, e1)
    return np.column_stack([e1, e2, a])


def rot_axis(axis, phi):
    """Counter-clockwise rotation by phi around axis: change of basis around Rz."""
    B = frame(axis)
    return B.dot(rot_z(phi)).dot(B.T)


def is_rotation(R, tol=1e-12):
    R = np.asarray(R, dtype=float)
    n = R.shape[0]
    return (R.shape == (n, n) and np.abs(R.T.dot(R) - np.eye(n)).max() <= tol
            and abs(np.linalg.det(R) - 1.0) <= tol)


def init_rotation(default, principal):
    """Rotation that the constructors apply to the default vectors that were not given.

    Same direction -> identity.  2d -> the unique rotation.  3d -> around u x v by the angle
    between them; antiparallel -> half turn around (1, 0, 0) if v1 = v2 = 0 else around
    (-v2, v1, 0) (rotation_matrix_from_to Notes; for the default vectors used by the
    geometries the documented and the implemented choice coincide).
    """
    u = unit(default)
    v = unit(principal)
    n = len(u)
    c = float(np.dot(u, v))
    if n == 2:
        s = u[0] * v[1] - u[1] * v[0]
        return rot2(math.atan2(s, c))
    w = cross(u, v)
    s = math.sqrt(float(np.dot(w, w)))
    if s < 1e-10:
        if c > 0:
            return np.eye(3)
        if v[0] == 0 and v[1] == 0:
            perp = np.array([1.0, 0.0, 0.0])
        else:
            perp = unit([-v[1], v[0], 0.0])
        return rot_axis(perp, math.pi)
    return rot_axis(w / s, math.atan2(s, c))


# ------------------------------------------------------------------------------------------
# detectors: single parameter -> point / derivative / normal / measure

class Flat1d(object):
    ndim, space_ndim = 1, 2

    def __init__(self, axis):
        self.a = unit(axis)

    def surface(self, p):
        return p[0] * self.a

    def deriv(self, p):
        return self.a.copy()

    def normal(self, p):
        t = unit(self.deriv(p))
        return np.array([t[1], -t[0]])          # (normal, tangent) right-handed

    def measure(self, p):
        return 1.0


class Flat2d(object):
    ndim, space_ndim = 2, 3

    def __init__(self, axes):
        self.a0 = unit(axes[0])
        self.a1 = unit(axes[1])

    def surface(self, p):
        return p[0] * self.a0 + p[1] * self.a1

    def deriv(self, p):
        return np.array([self.a0, self.a1])

    def normal(self, p):
        return unit(cross(self.a0, self.a1))    # (t0, t1, normal) right-handed

    def measure(self, p):
        w = cross(self.a0, self.a1)
        return math.sqrt(float(np.dot(w, w)))


class Circular(object):
    """Circle of radius r through the origin, tangent r * axis there, bending towards n."""
    ndim, space_ndim = 1, 2

    def __init__(self, axis, radius):
        self.a = unit(axis)
        self.r = float(radius)
        self.n = np.array([self.a[1], -self.a[0]])
        self.c = self.r * self.n

    def surface(self, p):
        return self.c + self.r * (-math.cos(p[0]) * self.n + math.sin(p[0]) * self.a)

    def deriv(self, p):
        return self.r * (math.sin(p[0]) * self.n + math.cos(p[0]) * self.a)

    def normal(self, p):
        t = unit(self.deriv(p))
        return np.array([t[1], -t[0]])

    def measure(self, p):
        return self.r


class Cylindrical(object):
    ndim, space_ndim = 2, 3

    def __init__(self, axes, radius):
        self.a0 = unit(axes[0])
        self.a1 = unit(axes[1])
        self.r = float(radius)
        self.n = unit(cross(self.a0, self.a1))
        self.c = self.r * self.n

    def surface(self, p):
        return (self.c + self.r * (-math.cos(p[0]) * self.n + math.sin(p[0]) * self.a0)
                + p[1] * self.a1)

    def deriv(self, p):
        return np.array([self.r * (math.sin(p[0]) * self.n + math.cos(p[0]) * self.a0),
                         self.a1])

    def normal(self, p):
        d = self.deriv(p)
        return unit(cross(d[0], d[1]))

    def measure(self, p):
        d = self.deriv(p)
        w = cross(d[0], d[1])
        return math.sqrt(float(np.dot(w, w)))


class Spherical(object):
    ndim, space_ndim = 2, 3

    def __init__(self, axes, radius):
        self.a0 = unit(axes[0])
        self.a1 = unit(axes[1])
        self.r = float(radius)
        self.n = unit(cross(self.a0, self.a1))
        self.c = self.r * self.n

    def surface(self, p):
        ph, th = p
        return self.c + self.r * (-math.cos(ph) * math.cos(th) * self.n
                                  + math.sin(ph) * math.cos(th) * self.a0
                                  + math.sin(th) * self.a1)

    def deriv(self, p):
        ph, th = p
        d0 = self.r * (math.sin(ph) * math.cos(th) * self.n
                       + math.cos(ph) * math.cos(th) * self.a0)
        d1 = self.r * (math.cos(ph) * math.sin(th) * self.n
                       - math.sin(ph) * math.sin(th) * self.a0
                       + math.cos(th) * self.a1)
        return np.array([d0, d1])

    def normal(self, p):
        d = self.deriv(p)
        return unit(cross(d[0], d[1]))

    def measure(self, p):
        d = self.deriv(p)
        w = cross(d[0], d[1])
        return math.sqrt(float(np.dot(w, w)))


# ------------------------------------------------------------------------------------------
# geometries

class GeomModel(object):
    """Rigid-motion model of one geometry; all methods take single parameters.

    rot_kind: '2d' | 'axis' | 'euler';  beam: 'parallel' | 'divergent'.
    Parallel: ``p`` is the initial detector position *relative to the translation*.
    Divergent: ``s`` unit source-to-detector vector, radii, pitch, offset, shift functions
    returning tuples (d, t[, r]) for ONE angle.
    """

    def __init__(self, ndim, beam, rot_kind, det, translation=None, axis=None, p=None,
                 s=None, src_radius=None, det_radius=None, pitch=0.0, offset=0.0,
                 src_shift=None, det_shift=None):
        self.ndim = ndim
        self.beam = beam
        self.rot_kind = rot_kind
        self.det = det
        self.t = np.zeros(ndim) if translation is None else np.asarray(translation, float)
        self.axis = None if axis is None else unit(axis)
        self.p = None if p is None else np.asarray(p, dtype=float)
        self.s = None if s is None else unit(s)
        self.rs = src_radius
        self.rd = det_radius
        self.pitch = float(pitch)
        self.offset = float(offset)
        self.src_shift = src_shift
        self.det_shift = det_shift

    # motion parameters are always tuples of floats
    def rot(self, m):
        if self.rot_kind == '2d':
            return rot2(m[0])
        if self.rot_kind == 'axis':
            return rot_axis(self.axis, m[0])
        return euler_zxz(*m)

    def _tangent(self, v):
        """Direction in which a point at position v (relative to the centre) moves for
        increasing angle, normalised ("tangent to the trajectory")."""
        if self.ndim == 2:
            return unit([-v[1], v[0]])
        return unit(cross(self.axis, v))

    def _along(self, m, shift):
        z = self.offset + self.pitch * m[0] / (2 * math.pi)
        if shift is not None and len(shift) > 2:
            z += shift[2]
        return z * self.axis

    def refpoint(self, m):
        R = self.rot(m)
        if self.beam == 'parallel':
            return self.t + R.dot(self.p)
        v = self.rd * self.s
        sh = None
        if self.det_shift is not None:
            sh = self.det_shift(m[0])
            v = v + sh[0] * self.s + sh[1] * self._tangent(self.s)
        out = self.t + R.dot(v)
        if self.ndim == 3:
            out = out + self._along(m, sh)
        return out

    def src(self, m):
        R = self.rot(m)
        v = -self.rs * self.s
        sh = None
        if self.src_shift is not None:
            sh = self.src_shift(m[0])
            v = v + sh[0] * (-self.s) + sh[1] * self._tangent(-self.s)
        out = self.t + R.dot(v)
        if self.ndim == 3:
            out = out + self._along(m, sh)
        return out

    def det_point(self, m, d):
        return self.refpoint(m) + self.rot(m).dot(self.det.surface(d))

    def det_to_src(self, m, d, normalized=True):
        if self.beam == 'parallel':
            return self.rot(m).dot(self.det.normal(d))
        v = self.src(m) - self.det_point(m, d)
        return unit(v) if normalized else v

    def det_axes(self, m):
        R = self.rot(m)
        if self.det.ndim == 1:
            return R.dot(self.det.a)
        return np.array([R.dot(self.det.a0), R.dot(self.det.a1)])


def project_on_flat_detector(model, m, x):
    """Detector parameters at which the ray through the point x hits the flat detector."""
    ref = model.refpoint(m)
    ax = np.atleast_2d(model.det_axes(m))
    if model.beam == 'parallel':
        d = -model.rot(m).dot(model.det.normal((0.0,) * model.det.ndim))
        org = np.asarray(x, dtype=float)
    else:
        org = model.src(m)
        d = np.asarray(x, dtype=float) - org
    # org + lam * d = ref + sum_i u_i ax_i
    A = np.column_stack([d] + [-a for a in ax])
    sol = np.linalg.solve(A, ref - org)
    return sol[1:]
