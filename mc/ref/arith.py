"""Reference model of entry-wise vector arithmetic (C01).  NumPy only, no odl import.

Everything is computed on *flat copies* in a wide dtype (float64 / complex128 / int64) and then
cast to the dtype of the space.  On the dyadic alphabets below every intermediate is exactly
representable (also in float16/float32), so wide-then-cast equals what a correct narrow
computation gives, bit for bit.
"""
import numpy as np

# value alphabets (index 0..4); every register entry is tab[index]
V_FLOAT = [-2.0, -0.5, 0.0, 1.0, 3.0]      # mode 'V': signs, zero, a non power of two
V_INT = [-2, -1, 0, 1, 3]
V_UINT = [2, 5, 0, 1, 3]
D_FLOAT = [-2.0, -0.5, 1.0, 2.0, 4.0]      # mode 'D': non-zero, |v| a power of two (divisors)


def kind(dtype):
    """'f', 'c', 'i' or 'u'."""
    k = np.dtype(dtype).kind
    if k not in 'fciu':
        raise ValueError('unsupported dtype %r' % (dtype,))
    return k


def wide(dtype):
    return {'f': np.float64, 'c': np.complex128, 'i': np.int64, 'u': np.int64}[kind(dtype)]


def triple_index(size, phase=0, nreg=3):
    """Index arrays (values 0..4) for ``nreg`` registers of ``size`` entries.

    With t = position + phase*size:  i0 = t % 5, i1 = (t // 5) % 5,
    i2 = (i0 + i1 + t // 25) % 5  (a Latin square of (i0, i1) shifted every 25 entries), so that
    * every window t in [25 m, 25 m + 25) contains all 25 index pairs of every pair of
      registers, and
    * every window t in [25 m, 25 m + 125) contains all 125 index triples
    (the check always starts at t = 0 and covers at least [0, 25), thorough [0, 125)).
    A fourth register (read-only operand) uses i3 = (2*i0 + i1 + 3*(t // 25)) % 5, also a Latin
    square against i0 and against i1.
    """
    t = np.arange(size, dtype=np.int64) + int(phase) * int(size)
    i0 = t % 5
    i1 = (t // 5) % 5
    i2 = (i0 + i1 + t // 25) % 5
    i3 = (2 * i0 + i1 + 3 * (t // 25)) % 5
    return [i0, i1, i2, i3][:nreg]


def contents(dtype, size, phase=0, mode='V', nreg=3):
    """Register contents (flat arrays of the space dtype) for one phase."""
    dtype = np.dtype(dtype)
    k = kind(dtype)
    if k == 'i':
        tab = V_INT
    elif k == 'u':
        tab = V_UINT
    else:
        tab = V_FLOAT if mode == 'V' else D_FLOAT
    if k in 'iu' and mode != 'V':
        raise ValueError('integer spaces have no divisor mode')
    tab = np.asarray(tab)
    out = []
    for ix in triple_index(size, phase, nreg):
        re = tab[ix]
        if k == 'c':
            if mode == 'V':
                val = re + 1j * tab[(2 * ix + 3) % 5]
            else:
                # purely real or purely imaginary, |v|^2 a power of two: division stays exact
                val = re * np.where(ix % 2 == 1, 1j, 1.0)
        else:
            val = re
        out.append(np.asarray(val).astype(dtype))
    return out


def poison_fill(dtype, size):
    """Contents of an ``out`` register that must not influence anything."""
    dtype = np.dtype(dtype)
    k = kind(dtype)
    a = np.zeros(size, dtype=dtype)
    if k in 'fc':
        big = float(np.finfo(dtype).max) / 4
        a[0::2] = np.nan
        a[1::2] = big
    elif k == 'i':
        a[0::2] = np.iinfo(dtype).max // 2
        a[1::2] = np.iinfo(dtype).min // 2
    else:
        a[0::2] = np.iinfo(dtype).max // 2
        a[1::2] = np.iinfo(dtype).max // 3
    return a


def _w(X, dtype):
    return np.asarray(X).astype(wide(dtype))


def lincomb(a, X1, b, X2, dtype):
    return (a * _w(X1, dtype) + b * _w(X2, dtype)).astype(dtype)


def lincomb_scale(a, X1, b, X2):
    """|a||x1| + |b||x2| entry-wise (the magnitude a tolerance is proportional to)."""
    return abs(a) * np.abs(np.asarray(X1)).astype(float) + \
        abs(b) * np.abs(np.asarray(X2)).astype(float)


def add(X, Y, dtype):
    return (_w(X, dtype) + _w(Y, dtype)).astype(dtype)


def sub(X, Y, dtype):
    return (_w(X, dtype) - _w(Y, dtype)).astype(dtype)


def mul(X, Y, dtype):
    return (_w(X, dtype) * _w(Y, dtype)).astype(dtype)


def div(X, Y, dtype):
    if kind(dtype) in 'iu':
        raise ValueError('division is not closed over the integers')
    with np.errstate(all='raise'):
        return (_w(X, dtype) / _w(Y, dtype)).astype(dtype)


def ipow(X, n, dtype):
    """X**n for an integer n by repeated multiplication (n < 0: reciprocal of X**(-n))."""
    n = int(n)
    Xw = _w(X, dtype)
    r = np.ones_like(Xw)
    for _ in range(abs(n)):
        r = r * Xw
    if n < 0:
        if kind(dtype) in 'iu':
            raise ValueError('negative powers are not closed over the integers')
        with np.errstate(all='raise'):
            r = 1 / r
    return r.astype(dtype)


def eps(dtype):
    dtype = np.dtype(dtype)
    return float(np.finfo(dtype).eps) if dtype.kind in 'fc' else 0.0


def first_diff(got, exp, tol=None):
    """Index of the first entry where got differs from exp (exactly, or by more than tol)."""
    got = np.asarray(got)
    exp = np.asarray(exp)
    if got.shape != exp.shape:
        return 0
    if tol is None:
        bad = ~(got == exp)
    else:
        with np.errstate(invalid='ignore'):
            bad = ~(np.abs(got - exp) <= tol)
    nz = np.flatnonzero(bad)
    return int(nz[0]) if nz.size else None
