"""Reference model of entry-wise vector arithmetic (C01).  NumPy only, no odl import.

Everything is computed on *flat copies* in a wide dtype (float64 / complex128 / int64) and then
cast to the dtype of the space.  On the dyadic alphabets below every intermediate is exactly
representable (also in float16/float32), so wide-then-cast equals what a correct narrow
computation gives, bit for bit.
"""
import numpy as np

# value alphabets (index 0..4); every register entry is tab[index]
V_FLOAT = [-2.0, -0.5, 0.0, 1.0, 3.0]      # mode 'V': signs, zero, a non power of two
V_INT = [-2, -1, 0, 1, 3]
V_UINT = [2, 5, 0, 1, 3]
D_FLOAT = [-2.0, -0.5, 1.0, 2.0, 4.0]      # mode 'D': non-zero, |v| a power of two (divisors)
Z_FLOAT = [-2.0, -0.0, 0.0, 1.0, 4.0]      # mode 'Z': divisors WITH exact zeros of both signs


def kind(dtype):
    """'f', 'c', 'i' or 'u'."""
    k = np.dtype(dtype).kind
    if k not in 'fciu':
        raise ValueError('unsupported dtype %r' % (dtype,))
    return k


def wide(dtype):
    """Wide dtype of the reference computation: float64 / complex128 / int64, or the (native
    byte order) dtype itself when it is wider than those (longdouble, clongdouble), so that the
    reference is never LESS precise than the space."""
    dtype = np.dtype(dtype)
    k = kind(dtype)
    w = np.dtype({'f': np.float64, 'c': np.complex128, 'i': np.int64, 'u': np.int64}[k])
    if k in 'fc' and dtype.itemsize > w.itemsize:
        return dtype.newbyteorder('=').type
    return w.type


def triple_index(size, phase=0, nreg=3):
    """Index arrays (values 0..4) for ``nreg`` registers of ``size`` entries.

    With t = position + phase*size:  i0 = t % 5, i1 = (t // 5) % 5,
    i2 = (i0 + i1 + t // 25) % 5  (a Latin square of (i0, i1) shifted every 25 entries), so that
    * every window t in [25 m, 25 m + 25) contains all 25 index pairs of every pair of
      registers, and
    * every window t in [25 m, 25 m + 125) contains all 125 index triples
    (the check always starts at t = 0 and covers at least [0, 25), thorough [0, 125)).
    A fourth register (read-only operand) uses i3 = (2*i0 + i1 + 3*(t // 25)) % 5, also a Latin
    square against i0 and against i1.
    """
    t = np.arange(size, dtype=np.int64) + int(phase) * int(size)
    i0 = t % 5
    i1 = (t // 5) % 5
    i2 = (i0 + i1 + t // 25) % 5
    i3 = (2 * i0 + i1 + 3 * (t // 25)) % 5
    return [i0, i1, i2, i3][:nreg]


def values_from_index(ix, dtype, mode='V'):
    """Entries of the space dtype for an array of alphabet indices 0..4."""
    dtype = np.dtype(dtype)
    k = kind(dtype)
    if k in 'iu' and mode != 'V':
        raise ValueError('integer spaces have no divisor mode')
    if k == 'i':
        tab = V_INT
    elif k == 'u':
        tab = V_UINT
    else:
        tab = {'V': V_FLOAT, 'D': D_FLOAT, 'Z': Z_FLOAT}[mode]
    tab = np.asarray(tab)
    ix = np.asarray(ix)
    re = tab[ix]
    if k == 'c':
        if mode == 'V':
            val = re + 1j * tab[(2 * ix + 3) % 5]
        else:
            # purely real or purely imaginary, |v|^2 a power of two (or zero): a finite
            # quotient stays exact
            val = np.where(ix % 2 == 1, 1j * re, re + 0j)
    else:
        val = re
    return np.asarray(val).astype(dtype)


def contents(dtype, size, phase=0, mode='V', nreg=3):
    """Register contents (flat arrays of the space dtype) for one phase."""
    return [values_from_index(ix, dtype, mode) for ix in triple_index(size, phase, nreg)]


def debruijn_pairs():
    """Cyclic sequence of 25 indices 0..4 in which every ordered pair (s[m], s[m+1]) of
    indices occurs exactly once (de Bruijn sequence B(5, 2), standard Lyndon-word recursion)."""
    k, n = 5, 2
    a = [0] * (k * n)
    seq = []

    def db(t, p):
        if t > n:
            if n % p == 0:
                seq.extend(a[1:p + 1])
        else:
            a[t] = a[t - p]
            db(t + 1, p)
            for j in range(a[t - p] + 1, k):
                a[t] = j
                db(t + 1, t)
    db(1, 1)
    return seq


def overlap_buffer(shape, axis, dtype, phase=0, mode='V', leaf=0):
    """Contents of ONE buffer whose views shifted by one entry along ``axis`` (0 or -1) serve
    as two distinct read-only operands: entry (r along axis, q = C-order index over the other
    axes) holds symbol s[(r + 6 q + 7 leaf + phase * n_r) % 25] of the de Bruijn sequence, so the
    pairs (buf[r + 1], buf[r]) met by the two views run through all 25 ordered value pairs as
    soon as r + 6 q takes 25 consecutive residues."""
    shape = tuple(int(x) for x in shape)
    seq = np.asarray(debruijn_pairs())
    ax = axis % len(shape)
    nr = shape[ax]
    rest = [s for d, s in enumerate(shape) if d != ax]
    nq = int(np.prod(rest)) if rest else 1
    r = np.arange(nr).reshape(-1, 1)
    q = np.arange(nq).reshape(1, -1)
    m = (r + 6 * q + 7 * int(leaf) + int(phase) * (nr - 1)) % 25
    vals = values_from_index(seq[m], dtype, mode)           # shape (nr, nq)
    vals = vals.reshape([nr] + rest)
    return np.moveaxis(vals, 0, ax)


def poison_fill(dtype, size):
    """Contents of an ``out`` register that must not influence anything."""
    dtype = np.dtype(dtype)
    k = kind(dtype)
    a = np.zeros(size, dtype=dtype)
    if k in 'fc':
        big = np.finfo(dtype).max / 4       # in the precision of the dtype: finite for longdouble
        a[0::2] = np.nan
        a[1::2] = big
    elif k == 'i':
        a[0::2] = np.iinfo(dtype).max // 2
        a[1::2] = np.iinfo(dtype).min // 2
    else:
        a[0::2] = np.iinfo(dtype).max // 2
        a[1::2] = np.iinfo(dtype).max // 3
    return a


def _w(X, dtype):
    return np.asarray(X).astype(wide(dtype))


def lincomb(a, X1, b, X2, dtype):
    return (a * _w(X1, dtype) + b * _w(X2, dtype)).astype(dtype)


def lincomb_scale(a, X1, b, X2):
    """|a||x1| + |b||x2| entry-wise (the magnitude a tolerance is proportional to)."""
    return abs(a) * np.abs(np.asarray(X1)).astype(float) + \
        abs(b) * np.abs(np.asarray(X2)).astype(float)


def add(X, Y, dtype):
    return (_w(X, dtype) + _w(Y, dtype)).astype(dtype)


def sub(X, Y, dtype):
    return (_w(X, dtype) - _w(Y, dtype)).astype(dtype)


def mul(X, Y, dtype):
    return (_w(X, dtype) * _w(Y, dtype)).astype(dtype)


def div_ieee(X, Y, dtype):
    """IEEE entry-wise quotient in the space dtype, zero divisors included (+-inf, nan)."""
    if kind(dtype) in 'iu':
        raise ValueError('division is not closed over the integers')
    with np.errstate(all='ignore'):
        return np.true_divide(np.asarray(X).astype(dtype), np.asarray(Y).astype(dtype))


def same_ieee(got, exp):
    """Equality that treats nan == nan and distinguishes +inf / -inf (per complex component)."""
    got = np.asarray(got)
    exp = np.asarray(exp)
    if got.shape != exp.shape:
        return False
    if got.dtype.kind == 'c' or exp.dtype.kind == 'c':
        return bool(np.array_equal(got.real, exp.real, equal_nan=True) and
                    np.array_equal(got.imag, exp.imag, equal_nan=True))
    return bool(np.array_equal(got, exp, equal_nan=True))


def first_diff_ieee(got, exp):
    got = np.asarray(got)
    exp = np.asarray(exp)
    if got.shape != exp.shape:
        return 0

    def ne(a, b):
        return ~((a == b) | (np.isnan(a) & np.isnan(b)))
    if got.dtype.kind == 'c' or exp.dtype.kind == 'c':
        bad = ne(got.real, exp.real) | ne(got.imag, exp.imag)
    else:
        bad = ne(got, exp)
    nz = np.flatnonzero(bad)
    return int(nz[0]) if nz.size else None


def div(X, Y, dtype):
    if kind(dtype) in 'iu':
        raise ValueError('division is not closed over the integers')
    with np.errstate(all='raise'):
        return (_w(X, dtype) / _w(Y, dtype)).astype(dtype)


def ipow(X, n, dtype):
    """X**n for an integer n by repeated multiplication (n < 0: reciprocal of X**(-n))."""
    n = int(n)
    Xw = _w(X, dtype)
    r = np.ones_like(Xw)
    for _ in range(abs(n)):
        r = r * Xw
    if n < 0:
        if kind(dtype) in 'iu':
            raise ValueError('negative powers are not closed over the integers')
        with np.errstate(all='raise'):
            r = 1 / r
    return r.astype(dtype)


def eps(dtype):
    dtype = np.dtype(dtype)
    return float(np.finfo(dtype).eps) if dtype.kind in 'fc' else 0.0


def first_diff(got, exp, tol=None):
    """Index of the first entry where got differs from exp (exactly, or by more than tol)."""
    got = np.asarray(got)
    exp = np.asarray(exp)
    if got.shape != exp.shape:
        return 0
    if tol is None:
        bad = ~(got == exp)
    else:
        with np.errstate(invalid='ignore'):
            bad = ~(np.abs(got - exp) <= tol)
    nz = np.flatnonzero(bad)
    return int(nz[0]) if nz.size else None
