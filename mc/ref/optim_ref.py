"""Reference convex analysis for C12 (independent of odl: NumPy on flat arrays only).

A *term* is a proper convex lsc function t on R^n, n-dimensional Hilbert space with the
diagonal inner product <u, v>_w = sum_i w_i u_i v_i (w measured from the odl space by the
harness).  All sub-gradients are Riesz representatives in that inner product, i.e.
s in dt(z)  <=>  t(u) >= t(z) + <s, u - z>_w for all u.  Every term offers

    value(z)            float, +inf outside the domain
    sub_dist(z, s)      weighted distance of s to the set dt(z)  (+inf if z is outside dom t)
    pick(z, theta)      a member of dt(z); ``theta`` (array in [-1, 1]) selects the member
                        where dt(z) is set-valued
    prox(v, sigma)      argmin_z t(z) + ||z - v||_w^2 / (2 sigma)
    strong              modulus of strong convexity (0.0 if none)
    lip                 Lipschitz constant of the gradient (inf if not differentiable)

The formulas are the textbook ones (soft threshold, projection, block soft threshold, the
positive root for Kullback-Leibler); ``tests/test_c12_ref.py`` checks them against literals
and against brute-force minimisation on a lattice.
"""
import numpy as np

INF = float('inf')


class Term(object):
    strong = 0.0
    lip = INF

    def __init__(self, w):
        self.w = np.asarray(w, float)
        self.n = self.w.size

    def nrm(self, v):
        return float(np.sqrt(np.sum(self.w * np.asarray(v, float) ** 2)))


class Zero(Term):
    lip = 0.0

    def value(self, z):
        return 0.0

    def sub_dist(self, z, s):
        return self.nrm(s)

    def pick(self, z, theta):
        return np.zeros(self.n)

    def prox(self, v, sigma):
        return np.array(v, float)


class L1(Term):
    """lam * sum_i w_i |z_i|"""

    def __init__(self, w, lam=1.0):
        Term.__init__(self, w)
        self.lam = float(lam)

    def value(self, z):
        return self.lam * float(np.sum(self.w * np.abs(z)))

    def sub_dist(self, z, s):
        z = np.asarray(z, float)
        s = np.asarray(s, float)
        d = np.where(z > 0, s - self.lam, np.where(z < 0, s + self.lam,
                                                   np.maximum(np.abs(s) - self.lam, 0.0)))
        return self.nrm(d)

    def pick(self, z, theta):
        z = np.asarray(z, float)
        return self.lam * np.where(z > 0, 1.0, np.where(z < 0, -1.0, theta))

    def prox(self, v, sigma):
        v = np.asarray(v, float)
        return np.sign(v) * np.maximum(np.abs(v) - sigma * self.lam, 0.0)


class L2Sq(Term):
    """c * sum_i w_i z_i^2"""

    def __init__(self, w, c=1.0):
        Term.__init__(self, w)
        self.c = float(c)
        self.strong = 2 * self.c
        self.lip = 2 * self.c

    def value(self, z):
        return self.c * float(np.sum(self.w * np.asarray(z, float) ** 2))

    def sub_dist(self, z, s):
        return self.nrm(np.asarray(s, float) - 2 * self.c * np.asarray(z, float))

    def pick(self, z, theta):
        return 2 * self.c * np.asarray(z, float)

    def prox(self, v, sigma):
        return np.asarray(v, float) / (1.0 + 2 * self.c * sigma)


class L2(Term):
    """lam * sqrt(sum_i w_i z_i^2)"""

    def __init__(self, w, lam=1.0):
        Term.__init__(self, w)
        self.lam = float(lam)

    def value(self, z):
        return self.lam * self.nrm(z)

    def sub_dist(self, z, s):
        nz = self.nrm(z)
        s = np.asarray(s, float)
        if nz > 0:
            return self.nrm(s - self.lam * np.asarray(z, float) / nz)
        return max(self.nrm(s) - self.lam, 0.0)

    def pick(self, z, theta):
        nz = self.nrm(z)
        if nz > 0:
            return self.lam * np.asarray(z, float) / nz
        t = np.asarray(theta, float) * np.ones(self.n)
        nt = self.nrm(t)
        # a point of the ball of radius lam: direction theta, length lam/2 (or 0)
        return np.zeros(self.n) if nt == 0 else 0.5 * self.lam * t / nt

    def prox(self, v, sigma):
        v = np.asarray(v, float)
        nv = self.nrm(v)
        if nv <= sigma * self.lam:
            return np.zeros(self.n)
        return (1.0 - sigma * self.lam / nv) * v


class GroupL1(Term):
    """lam * sum_j wb_j |(z_1j .. z_kj)|_2 on a power space with k components (flat layout:
    component-major), w = tile(wb, k)."""

    def __init__(self, w, k, lam=1.0):
        Term.__init__(self, w)
        self.k = int(k)
        self.m = self.n // self.k
        self.wb = self.w[:self.m]
        assert np.array_equal(self.w, np.tile(self.wb, self.k))
        self.lam = float(lam)

    def _g(self, z):
        return np.asarray(z, float).reshape(self.k, self.m)

    def value(self, z):
        return self.lam * float(np.sum(self.wb * np.sqrt(np.sum(self._g(z) ** 2, axis=0))))

    def sub_dist(self, z, s):
        g, t = self._g(z), self._g(s)
        nz = np.sqrt(np.sum(g ** 2, axis=0))
        d2 = 0.0
        for j in range(self.m):
            if nz[j] > 0:
                dj = np.sum((t[:, j] - self.lam * g[:, j] / nz[j]) ** 2)
            else:
                dj = max(np.sqrt(np.sum(t[:, j] ** 2)) - self.lam, 0.0) ** 2
            d2 += self.wb[j] * dj
        return float(np.sqrt(d2))

    def pick(self, z, theta):
        g = self._g(z)
        th = (np.asarray(theta, float) * np.ones(self.n)).reshape(self.k, self.m)
        out = np.zeros((self.k, self.m))
        for j in range(self.m):
            nz = np.sqrt(np.sum(g[:, j] ** 2))
            if nz > 0:
                out[:, j] = self.lam * g[:, j] / nz
            else:
                nt = np.sqrt(np.sum(th[:, j] ** 2))
                out[:, j] = 0.0 if nt == 0 else 0.5 * self.lam * th[:, j] / nt
        return out.ravel()

    def prox(self, v, sigma):
        g = self._g(v)
        nv = np.sqrt(np.sum(g ** 2, axis=0))
        with np.errstate(divide='ignore', invalid='ignore'):
            fac = np.where(nv > sigma * self.lam, 1.0 - sigma * self.lam / nv, 0.0)
        return (g * fac[None, :]).ravel()


class Box(Term):
    """indicator of {lo <= z <= hi} (entries of lo / hi may be -inf / +inf)"""

    def __init__(self, w, lo, hi):
        Term.__init__(self, w)
        self.lo = np.broadcast_to(np.asarray(lo, float), (self.n,)).copy()
        self.hi = np.broadcast_to(np.asarray(hi, float), (self.n,)).copy()

    def value(self, z):
        z = np.asarray(z, float)
        return 0.0 if (np.all(z >= self.lo) and np.all(z <= self.hi)) else INF

    def infeas(self, z):
        z = np.asarray(z, float)
        return self.nrm(np.maximum(self.lo - z, 0.0) + np.maximum(z - self.hi, 0.0))

    def sub_dist(self, z, s):
        z = np.asarray(z, float)
        s = np.asarray(s, float)
        if self.value(z) == INF:
            return INF
        atlo = z <= self.lo
        athi = z >= self.hi
        d = np.where(atlo & athi, 0.0,
                     np.where(atlo, np.maximum(s, 0.0), np.where(athi, np.minimum(s, 0.0), s)))
        return self.nrm(d)

    def pick(self, z, theta):
        z = np.asarray(z, float)
        th = np.abs(np.asarray(theta, float) * np.ones(self.n))
        return np.where(z <= self.lo, -th, np.where(z >= self.hi, th, 0.0))

    def prox(self, v, sigma):
        return np.minimum(np.maximum(np.asarray(v, float), self.lo), self.hi)


class IndPoint(Term):
    """indicator of the single point {0}"""

    def value(self, z):
        return 0.0 if not np.any(z) else INF

    def sub_dist(self, z, s):
        return 0.0 if not np.any(z) else INF

    def pick(self, z, theta):
        return np.asarray(theta, float) * np.ones(self.n)

    def prox(self, v, sigma):
        return np.zeros(self.n)


class KL(Term):
    """sum_i w_i (z_i - g_i + g_i log(g_i / z_i)),  g > 0, domain z > 0"""

    def __init__(self, w, prior):
        Term.__init__(self, w)
        self.g = np.broadcast_to(np.asarray(prior, float), (self.n,)).copy()

    def value(self, z):
        z = np.asarray(z, float)
        if np.any(z <= 0):
            return INF
        return float(np.sum(self.w * (z - self.g + self.g * np.log(self.g / z))))

    def sub_dist(self, z, s):
        z = np.asarray(z, float)
        if np.any(z <= 0):
            return INF
        return self.nrm(np.asarray(s, float) - (1.0 - self.g / z))

    def pick(self, z, theta):
        return 1.0 - self.g / np.asarray(z, float)

    def prox(self, v, sigma):
        v = np.asarray(v, float)
        return 0.5 * ((v - sigma) + np.sqrt((v - sigma) ** 2 + 4 * sigma * self.g))


class Shift(Term):
    """z -> t(z - a) + <c, z>_w   (translation and linear perturbation of a base term)"""

    def __init__(self, base, a=None, c=None):
        Term.__init__(self, base.w)
        self.base = base
        self.a = np.zeros(self.n) if a is None else np.asarray(a, float)
        self.c = np.zeros(self.n) if c is None else np.asarray(c, float)
        self.strong = base.strong
        self.lip = base.lip

    def value(self, z):
        z = np.asarray(z, float)
        v = self.base.value(z - self.a)
        return v if v == INF else v + float(np.sum(self.w * self.c * z))

    def sub_dist(self, z, s):
        return self.base.sub_dist(np.asarray(z, float) - self.a, np.asarray(s, float) - self.c)

    def pick(self, z, theta):
        return self.base.pick(np.asarray(z, float) - self.a, theta) + self.c

    def prox(self, v, sigma):
        v = np.asarray(v, float)
        return self.a + self.base.prox(v - sigma * self.c - self.a, sigma)


class Envelope(Term):
    """infimal convolution (g box l)(z) = min_u g(u) + c ||z - u||_w^2 of a base term g with
    l = c ||.||_w^2, i.e. the Moreau envelope of g with parameter mu = 1/(2c): differentiable,
    grad = 2c (z - prox_{mu g}(z)), gradient 2c-Lipschitz;
    prox_{s env}(v) = v + s/(mu+s) (prox_{(mu+s) g}(v) - v)."""

    def __init__(self, base, c):
        Term.__init__(self, base.w)
        self.base = base
        self.c = float(c)
        self.mu = 1.0 / (2 * self.c)
        self.lip = 2 * self.c

    def value(self, z):
        z = np.asarray(z, float)
        p = self.base.prox(z, self.mu)
        return self.base.value(p) + self.c * float(np.sum(self.w * (z - p) ** 2))

    def grad(self, z):
        z = np.asarray(z, float)
        return 2 * self.c * (z - self.base.prox(z, self.mu))

    def sub_dist(self, z, s):
        return self.nrm(np.asarray(s, float) - self.grad(z))

    def pick(self, z, theta):
        return self.grad(z)

    def prox(self, v, sigma):
        v = np.asarray(v, float)
        return v + sigma / (self.mu + sigma) * (self.base.prox(v, self.mu + sigma) - v)


class Blocks(Term):
    """separable sum over consecutive blocks of the flat vector"""

    def __init__(self, terms):
        Term.__init__(self, np.concatenate([t.w for t in terms]))
        self.terms = terms
        self.idx = np.cumsum([0] + [t.n for t in terms])
        self.strong = min(t.strong for t in terms)
        self.lip = max(t.lip for t in terms)

    def _sp(self, z):
        z = np.asarray(z, float)
        return [z[self.idx[i]:self.idx[i + 1]] for i in range(len(self.terms))]

    def value(self, z):
        return sum(t.value(zi) for t, zi in zip(self.terms, self._sp(z)))

    def sub_dist(self, z, s):
        d = [t.sub_dist(zi, si) for t, zi, si in zip(self.terms, self._sp(z), self._sp(s))]
        return INF if INF in d else float(np.sqrt(sum(x * x for x in d)))

    def pick(self, z, theta):
        th = np.asarray(theta, float) * np.ones(self.n)
        return np.concatenate([t.pick(zi, ti) for t, zi, ti in
                               zip(self.terms, self._sp(z), self._sp(th))])

    def prox(self, v, sigma):
        return np.concatenate([t.prox(vi, sigma) for t, vi in zip(self.terms, self._sp(v))])


class QuadData(Term):
    """smooth term c * ||A z - b||_wy^2 on the space with weights w"""

    def __init__(self, w, A, b, wy, c=1.0):
        Term.__init__(self, w)
        self.A = np.asarray(A, float)
        self.b = np.asarray(b, float)
        self.wy = np.asarray(wy, float)
        self.c = float(c)
        # Hessian in the w inner product: 2c W^-1 A^T Wy A, similar to 2c B^T B, B = Wy^1/2 A W^-1/2
        B = np.sqrt(self.wy)[:, None] * self.A / np.sqrt(self.w)[None, :]
        sv = np.linalg.svd(B, compute_uv=False)
        self.lip = 2 * self.c * float(sv[0]) ** 2
        self.strong = 2 * self.c * float(sv[-1]) ** 2 if B.shape[0] >= B.shape[1] else 0.0

    def value(self, z):
        r = self.A.dot(np.asarray(z, float)) - self.b
        return self.c * float(np.sum(self.wy * r * r))

    def grad(self, z):
        r = self.A.dot(np.asarray(z, float)) - self.b
        return 2 * self.c * self.A.T.dot(self.wy * r) / self.w

    def sub_dist(self, z, s):
        return self.nrm(np.asarray(s, float) - self.grad(z))

    def pick(self, z, theta):
        return self.grad(z)


# ----------------------------------------------------------------------------------------------
# linear algebra in weighted spaces

def adjoint_matrix(A, wx, wy):
    """Matrix of the adjoint of A : (R^n, wx) -> (R^m, wy)."""
    return (np.asarray(A, float).T * np.asarray(wy, float)[None, :]) / np.asarray(wx, float)[:, None]


def opnorm(A, wx, wy):
    """Operator norm of A between the weighted spaces (largest singular value of
    Wy^1/2 A Wx^-1/2)."""
    B = np.sqrt(np.asarray(wy, float))[:, None] * np.asarray(A, float) / \
        np.sqrt(np.asarray(wx, float))[None, :]
    return float(np.linalg.svd(B, compute_uv=False)[0])


def wnorm(v, w):
    return float(np.sqrt(np.sum(np.asarray(w, float) * np.asarray(v, float) ** 2)))


def weak_start(A, wx, wy, leak=2.0 ** -10):
    """A start vector for the power method that is (almost) orthogonal, in the inner product of
    (R^n, wx), to the dominant right singular vector of A : (R^n, wx) -> (R^m, wy):
    v_min + leak * v_max with v_min / v_max the right singular vectors of the smallest (possibly
    zero) / largest singular value, both of unit wx-norm, signs fixed by 'entry of largest
    modulus is positive'.  One step of the power method from it sees (almost) nothing of ||A||."""
    wx = np.asarray(wx, float)
    B = np.sqrt(np.asarray(wy, float))[:, None] * np.asarray(A, float) / np.sqrt(wx)[None, :]
    lam, V = np.linalg.eigh(B.T.dot(B))           # ascending eigenvalues of B^T B

    def fix(u):
        u = u / np.sqrt(wx)                         # back to the coordinates of (R^n, wx)
        return u if u[np.argmax(np.abs(u))] > 0 else -u
    return fix(V[:, 0]) + leak * fix(V[:, -1])


class Problem(object):
    """min_x f(x) + g(L x) + h(x) on (R^n, wx), L : (R^n, wx) -> (R^m, wy) (all blocks stacked),
    with a dual certificate ystar.  h is smooth (has .grad) or None."""

    def __init__(self, f, g, L, wx, wy, h=None):
        self.f, self.g, self.h = f, g, h
        self.L = np.asarray(L, float)
        self.wx = np.asarray(wx, float)
        self.wy = np.asarray(wy, float)
        self.Ladj = adjoint_matrix(self.L, self.wx, self.wy)
        self.Lnorm = opnorm(self.L, self.wx, self.wy)

    def hgrad(self, x):
        return np.zeros(self.wx.size) if self.h is None else self.h.grad(x)

    def kkt_exact(self, x, y):
        """Sub-gradient inclusion at a candidate saddle point: (dist(y, dg(Lx)),
        dist(-L*y - grad h(x), df(x)))."""
        x = np.asarray(x, float)
        y = np.asarray(y, float)
        d1 = self.g.sub_dist(self.L.dot(x), y)
        d2 = self.f.sub_dist(x, -self.Ladj.dot(y) - self.hgrad(x))
        return d1, d2

    def residual(self, x, ystar):
        """Natural (prox) residual of the inclusions  ystar in dg(Lx),  -L*ystar - grad h(x) in
        df(x).  For a dual solution ystar it vanishes exactly at the primal solutions, and it is
        continuous in x (no stored primal answer enters)."""
        x = np.asarray(x, float)
        Lx = self.L.dot(x)
        r1 = wnorm(Lx - self.g.prox(Lx + ystar, 1.0), self.wy)
        q = self.Ladj.dot(ystar) + self.hgrad(x)
        r2 = wnorm(x - self.f.prox(x - q, 1.0), self.wx)
        return max(r1, r2)

    def objective(self, x):
        x = np.asarray(x, float)
        v = self.f.value(x) + self.g.value(self.L.dot(x))
        if self.h is not None:
            v += self.h.value(x)
        return v
