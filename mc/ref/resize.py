"""Reference model for array resizing / padding (property C16).

Deliberately naive and index based; shares no code with ``odl.util.numerics``.  The rules are
the ones written down in ``resize_array``'s docstring and ``doc/source/math/resizing_ops.rst``:

* one axis, ``n`` -> ``m`` entries, ``p`` = offset = number of entries added to / removed from
  the left.
* ``m < n`` (restriction):  ``R(x)_j = x_{p+j}``.
* ``m > n`` (extension):    ``E(x)_j = x_{j-p}`` for ``p <= j < p+n`` and outside

      constant   c
      periodic   x_{(j-p) mod n}                      needs  p <= n  and  m-p-n <= n
      symmetric  x_{p-j} (left), x_{2n-2+p-j} (right)  needs  p <  n  and  m-p-n <  n
      order0     x_0 (left), x_{n-1} (right)           needs  n >= 1
      order1     x_0 + (j-p)(x_1-x_0)  (left),
                 x_{n-1} + (j-p-n+1)(x_{n-1}-x_{n-2})  (right)      needs  n >= 2

* several axes: the operation is separable, i.e. the matrix is the Kronecker product of the
  per-axis matrices ("corner filling", see the section *Generalization to arbitrary dimension*).
* the adjoint direction is the transpose of the (linear part of the) forward matrix.

A second, independent forward oracle is ``numpy.pad`` (``constant / wrap / reflect / edge``)
applied to the array cropped in the shrinking axes; the property text names it.
"""
import functools
import itertools

import numpy as np

MODES = ('constant', 'periodic', 'symmetric', 'order0', 'order1')
NP_MODE = {'constant': 'constant', 'periodic': 'wrap', 'symmetric': 'reflect', 'order0': 'edge'}


class Inadmissible(Exception):
    """The documentation excludes this (size, offset, mode) combination."""


def offsets_1d(n, m):
    """All offsets that keep the smaller block inside the larger one."""
    return list(range(abs(m - n) + 1)) if m != n else [0]


def admissible_1d(n, m, p, mode):
    """Reason (str) why padding ``n -> m`` with offset ``p`` is excluded by the docs, or None."""
    if m <= n:
        return None             # restriction or no change: no padding applied in this axis
    left, right = p, m - p - n
    assert left >= 0 and right >= 0
    if mode == 'periodic' and (left > n or right > n):
        return 'periodic padding longer than the array'
    if mode == 'symmetric' and (left >= n or right >= n):
        return 'symmetric padding not strictly shorter than the array'
    if mode == 'order0' and n < 1:
        return 'order0 needs at least 1 value'
    if mode == 'order1' and n < 2:
        return 'order1 needs at least 2 values'
    return None


@functools.lru_cache(maxsize=None)
def matrix_1d(n, m, p, mode):
    """(M, cmask): ``out = M @ x + c * cmask`` along one axis; integer matrix ``m x n``."""
    why = admissible_1d(n, m, p, mode)
    if why:
        raise Inadmissible(why)
    M = np.zeros((m, n), dtype=np.int64)
    cmask = np.zeros(m, dtype=np.int64)
    if m == n:
        for j in range(m):
            M[j, j] = 1
        return M, cmask
    if m < n:
        for j in range(m):
            M[j, p + j] = 1
        return M, cmask
    for j in range(m):
        k = j - p
        if 0 <= k < n:
            M[j, k] = 1
        elif mode == 'constant':
            cmask[j] = 1
        elif mode == 'periodic':
            M[j, k + n if k < 0 else k - n] = 1
        elif mode == 'symmetric':
            M[j, -k if k < 0 else 2 * n - 2 - k] = 1
        elif mode == 'order0':
            M[j, 0 if k < 0 else n - 1] = 1
        elif mode == 'order1':
            if k < 0:           # x_0 + k (x_1 - x_0)
                M[j, 0] += 1 - k
                M[j, 1] += k
            else:               # x_{n-1} + (k-n+1) (x_{n-1} - x_{n-2})
                d = k - n + 1
                M[j, n - 1] += 1 + d
                M[j, n - 2] += -d
        else:
            raise KeyError(mode)
    return M, cmask


def why_inadmissible(shape, newshp, offset, mode):
    for n, m, p in zip(shape, newshp, offset):
        why = admissible_1d(n, m, p, mode)
        if why:
            return why
    return None


@functools.lru_cache(maxsize=2048)
def matrix(shape, newshp, offset, mode):
    """(M, cmask) for C-order flattened arrays: ``out.ravel() = M @ x.ravel() + c * cmask``.

    ``cmask`` marks the entries that receive the padding constant (mode 'constant' only): every
    entry outside the copied block.
    """
    M = np.ones((1, 1), dtype=np.int64)
    inner = np.ones(1, dtype=np.int64)
    for n, m, p in zip(shape, newshp, offset):
        M1, c1 = matrix_1d(n, m, p, mode)
        M = np.kron(M, M1)
        inner = np.kron(inner, 1 - c1)
    return M, 1 - inner


def forward(arr, newshp, offset, mode, c=0):
    """Reference result by the matrix model (exact integer / dyadic arithmetic)."""
    arr = np.asarray(arr)
    M, cmask = matrix(tuple(arr.shape), tuple(newshp), tuple(offset), mode)
    out = M.astype(arr.dtype) @ arr.ravel()
    if mode == 'constant' and c != 0:
        out = out + np.asarray(c).astype(arr.dtype) * cmask.astype(arr.dtype)
    return out.reshape(newshp).astype(arr.dtype)


def forward_nppad(arr, newshp, offset, mode, c=0):
    """Second forward oracle: crop the shrinking axes, ``numpy.pad`` the growing ones."""
    if mode not in NP_MODE:
        return None
    arr = np.asarray(arr)
    why = why_inadmissible(arr.shape, newshp, offset, mode)
    if why:
        raise Inadmissible(why)
    crop, pads = [], []
    for n, m, p in zip(arr.shape, newshp, offset):
        if m < n:
            crop.append(slice(p, p + m))
            pads.append((0, 0))
        elif m > n:
            crop.append(slice(None))
            pads.append((p, m - n - p))
        else:
            crop.append(slice(None))
            pads.append((0, 0))
    small = arr[tuple(crop)]
    if arr.ndim == 0:
        return small.copy()
    if mode == 'constant':
        return np.pad(small, pads, mode='constant',
                      constant_values=np.asarray(c).astype(arr.dtype))
    if any(s == 0 for s in small.shape):
        return small.copy() if small.shape == tuple(newshp) else None
    return np.pad(small, pads, mode=NP_MODE[mode])


def all_offsets(shape, newshp):
    return list(itertools.product(*[offsets_1d(n, m) for n, m in zip(shape, newshp)]))


def default_offset_1d(n, m):
    """ResizingOperator docs: "the difference is distributed evenly, with preference for left in
    case of ambiguity" -- number of cells added on the left when growing."""
    d = m - n
    return d - d // 2
