"""Reference model for C04: a tiny typed expression language for operator arithmetic.

Pure Python/NumPy, no odl import.  It contains

* the *type system* (domain, range, field, structural linearity) that decides which
  applications of a combinator are well-typed according to the docstrings of
  ``Operator.__add__/__mul__/__rmul__/__truediv__/__pow__`` and ``Functional.__mul__/...``,
* the *reference interpreter*: the algebra table of the property statement applied
  recursively to NumPy closures,
* the *enumerator* of all root applications over a given child (used both to list the
  bounded program space and to execute it),
* a pretty printer producing stand-alone Python source for a repro.

An expression is a JSON-serialisable nested list ``[op, arg, ...]``:

    ['L', leaf]                                  a leaf of the pool
    ['lsmul', a, E]   a * E      (a*E)(x) = a * E(x)
    ['rsmul', E, a]   E * a      (E*a)(x) = E(a * x)
    ['div',   E, a]   E / a      (E/a)(x) = E(x / a)
    ['adds',  E, a]   E + a      E(x) + a           ['sadd', a, E]   a + E
    ['subs',  E, a]   E - a      E(x) - a           ['ssub', a, E]   a - E   = a - E(x)
    ['lvmul', v, E]   v * E      v * E(x)           ['rvmul', E, v]  E * v   = E(v * x)
    ['addv',  E, v]   E + v      E(x) + v           ['vadd', v, E]   v + E
    ['subv',  E, v]   E - v      E(x) - v           ['vsub', v, E]   v - E   = v - E(x)
    ['neg', E]  -E               ['pos', E]  +E     ['pow', E, n]  E ** n (iterated composition)
    ['add', E, F]  E + F         ['sub', E, F]  E - F
    ['comp', E, F] E * F   and   ['matmul', E, F]  E @ F      E(F(x))
    ['lsmatmul', a, E] a @ E, ['rsmatmul', E, a] E @ a, ['lvmatmul', v, E] v @ E,
    ['rvmatmul', E, v] E @ v     ("See Operator.__mul__ / __rmul__": same meaning as with *)
    ['pwprod', E, F]  OperatorPointwiseProduct(E, F)          E(x) * F(x)

Scalars are named by string tokens (JSON has no complex numbers); vectors by pool names.
"""
import numpy as np

# ------------------------------------------------------------------------------------------
# spaces

FIELD_OF = {'R3': 'R', 'R2': 'R', 'C2': 'C', 'R': 'R', 'C': 'C'}
FIELDS = ('R', 'C')
SPACE_SRC = {'R3': 'odl.rn(3)', 'R2': 'odl.rn(2)', 'C2': 'odl.cn(2)',
             'R': 'odl.RealNumbers()', 'C': 'odl.ComplexNumbers()'}
# A harness-defined leaf that is a correct operator whenever ``x`` and ``out`` are distinct but
# is NOT safe for ``out is x`` (like the library's finite-difference stencils): the cyclic
# forward difference written entry by entry.  On correct code no combinator ever calls an
# operand with aliased input/output when the caller passed distinct ``x`` and ``out``.
SEQDIFF_SRC = '''
class SeqDiff(odl.Operator):
    """Cyclic forward difference, written sequentially into ``out`` (not alias-safe)."""
    def __init__(self, space):
        super(SeqDiff, self).__init__(space, space, linear=True)
    def _call(self, x, out):
        n = self.domain.size
        for i in range(n):
            out.data[i] = x.data[(i + 1) % n] - x.data[i]

class SharedView(odl.Operator):
    """x -> x, returned out-of-place as a NEW element wrapping the memory of ``x`` (a view of
    the input, like ``RealPart`` on a complex space); not flagged linear."""
    def __init__(self, space):
        super(SharedView, self).__init__(space, space, linear=False)
    def _call(self, x):
        return self.range.element(x.data)
'''
PREAMBLE = ('import numpy as np, odl\n'
            'R3, R2, C2, R = odl.rn(3), odl.rn(2), odl.cn(2), odl.RealNumbers()\n'
            + SEQDIFF_SRC)

# scalars: dyadic, |a|^2 a power of two; python types as a user would write them
SCALARS = {'2': 2, '-1': -1, '0.5': 0.5, '0': 0, '1j': 1j}
SCALAR_SRC = {'2': '2', '-1': '(-1)', '0.5': '0.5', '0': '0', '1j': '1j'}
# Extended scalars (classes of operands, not single inputs):
#  * magnitude regimes - nonzero scalars far below / above the unit scale (2**-30 ~ 9.3e-10 is
#    below every customary absolute tolerance, 1e-8 of np.isclose / allclose included) and a
#    scalar close to, but different from, the neutral element 1 (1 + 2**-20: inside the default
#    rtol = 1e-5 of np.isclose).  "(a*A)(x) = a*A(x)" holds for EVERY scalar of the field; the
#    zero arms of the overloads are documented for a == 0 only.  All are powers of two (or 1 +
#    one), so that products among them and with the dyadic pool values are exact.
#  * scalar TYPES - NumPy scalars (members of the field: ``np.float64(2.0) in RealNumbers()``)
#    next to the Python int / float / complex of the base pool.  np.float32 is left out: NumPy
#    computes float32 * float in single precision, which the documentation does not address.
SCALARS.update({'tiny': 2.0 ** -30, 'huge': 2.0 ** 30, 'near1': 1 + 2.0 ** -20,
                'tinyj': 2.0 ** -30 * 1j,
                'f64:2': np.float64(2.0), 'i64:-1': np.int64(-1), 'f64:0': np.float64(0.0),
                'c128:1j': np.complex128(1j)})
SCALAR_SRC.update({'tiny': '(2.0 ** -30)', 'huge': '(2.0 ** 30)', 'near1': '(1 + 2.0 ** -20)',
                   'tinyj': '(2.0 ** -30 * 1j)',
                   'f64:2': 'np.float64(2.0)', 'i64:-1': 'np.int64(-1)',
                   'f64:0': 'np.float64(0.0)', 'c128:1j': 'np.complex128(1j)'})
COMPLEX_TOKENS = frozenset(['1j', 'tinyj', 'c128:1j'])
ZERO_TOKENS = frozenset(['0', 'f64:0'])
# regime of an extended scalar (part of the site name)
SCALAR_REGIME = {'tiny': 'tiny', 'tinyj': 'tiny', 'huge': 'huge', 'near1': 'near1',
                 'f64:2': 'npscalar', 'i64:-1': 'npscalar', 'f64:0': 'npscalar',
                 'c128:1j': 'npscalar'}
# mathematical value of a token as a Python float / complex (the reference computes in double
# precision whatever type the user handed to the overload)
SCALAR_VALUE = dict((k, complex(v) if k in COMPLEX_TOKENS else float(v))
                    for k, v in SCALARS.items())


def in_field(tok, field):
    return field == 'C' or tok not in COMPLEX_TOKENS


VECS = {
    'v3': ('R3', [2.0, -1.0, 0.5]), 'w3': ('R3', [-1.0, 0.0, 3.0]),
    'v2': ('R2', [0.5, -2.0]), 'w2': ('R2', [3.0, 1.0]),
    'vc': ('C2', [1 + 1j, -2.0]), 'wc': ('C2', [-1j, 0.5]),
}


def vec_array(name):
    sp, lst = VECS[name]
    return np.array(lst, dtype=complex if FIELD_OF[sp] == 'C' else float)


def vec_src(name):
    sp, lst = VECS[name]
    return '%s.element(%r)' % (sp, lst)


# evaluation points per domain: x1, x2, x1 + x2, 0  (sign patterns of x1 and x2 differ)
_P = {
    'R3': ([1.0, -2.0, 0.5], [-3.0, 0.5, 2.0]),
    'R2': ([2.0, -0.5], [-3.0, 1.0]),
    'C2': ([1 - 1j, 2j], [-2 + 0.5j, 1.0]),
}


def points(dom):
    if dom == 'R':
        return [2.0, -0.5, 1.5, 0.0]
    if dom == 'C':
        return [1 + 1j, -0.5j, 1 + 0.5j, 0j]
    dt = complex if FIELD_OF[dom] == 'C' else float
    a, b = (np.array(p, dtype=dt) for p in _P[dom])
    return [a, b, a + b, np.zeros_like(a)]


# ------------------------------------------------------------------------------------------
# leaves: declared type + documented formula (reference) + constructor source

M33 = np.array([[1.0, 2.0, 0.0], [0.0, -1.0, 0.5], [2.0, 0.0, 1.0]])
M33B = np.array([[0.5, 0.0, -1.0], [1.0, 1.0, 0.0], [0.0, 2.0, -0.5]])
M23 = np.array([[1.0, -1.0, 2.0], [0.5, 0.0, 1.0]])
M32 = np.array([[1.0, 0.0], [2.0, -1.0], [0.0, 0.5]])
MCC = np.array([[1.0, 1j], [-1.0, 2.0]])
MUL3 = np.array([1.0, -2.0, 0.5])
C3 = np.array([1.0, -0.5, 2.0])
C2R = np.array([-1.0, 0.5])
MULC = np.array([1j, 2.0])
CC = np.array([1 - 1j, 0.5])
V3 = vec_array('v3')
VC = vec_array('vc')


def _matvec(M, x):
    """Textbook matrix-vector product (no BLAS)."""
    return np.array([sum(M[i, j] * x[j] for j in range(M.shape[1]))
                     for i in range(M.shape[0])])


def _leaf(dom, ran, lin, kind, src, ref, exact=True, alias=True):
    """``alias``: the leaf itself gives the right result when called with ``out is x``."""
    return {'dom': dom, 'ran': ran, 'lin': lin, 'kind': kind, 'src': src, 'ref': ref,
            'exact': exact, 'alias': alias}


def _arr(a):
    return 'np.array(%s)' % (repr(a.tolist()))


# kind: LinOp / NonOp (LinearSpace range), LinFOp / NonFOp (plain Operator with field range),
#       Fn / LinFn (instances of odl.solvers.Functional)
LEAVES = {
    # ---- rn(3) -> rn(3)
    'Id3': _leaf('R3', 'R3', True, 'LinOp', 'odl.IdentityOperator(R3)', lambda x: 1.0 * x),
    'Sc3': _leaf('R3', 'R3', True, 'LinOp', 'odl.ScalingOperator(R3, 2.0)', lambda x: 2.0 * x),
    'Mat33': _leaf('R3', 'R3', True, 'LinOp', 'odl.MatrixOperator(%s)' % _arr(M33),
                   lambda x: _matvec(M33, x)),
    'Mul3': _leaf('R3', 'R3', True, 'LinOp',
                  'odl.MultiplyOperator(R3.element(%r))' % MUL3.tolist(), lambda x: MUL3 * x),
    'SeqDiff3': _leaf('R3', 'R3', True, 'LinOp', 'SeqDiff(R3)',
                      lambda x: np.array([x[1] - x[0], x[2] - x[1], x[0] - x[2]]), alias=False),
    # operators whose out-of-place call hands back its argument: RealPart on a real space
    # returns ``x`` itself, SharedView (harness-defined) a new element on the memory of ``x``.
    # "Not in-place since the result can be a view into `x`" (OperatorVectorSum._call): a
    # combinator must neither modify nor keep relying on an operand's out-of-place result
    'Re3': _leaf('R3', 'R3', True, 'LinOp', 'odl.RealPart(R3)', lambda x: 1.0 * x),
    'View3': _leaf('R3', 'R3', False, 'NonOp', 'SharedView(R3)', lambda x: 1.0 * x),
    'Pow3': _leaf('R3', 'R3', False, 'NonOp', 'odl.PowerOperator(R3, 2)', lambda x: x * x),
    'Abs3': _leaf('R3', 'R3', False, 'NonOp', 'odl.ufunc_ops.absolute(R3)',
                  lambda x: np.abs(x)),
    'Const3': _leaf('R3', 'R3', False, 'NonOp',
                    'odl.ConstantOperator(R3.element(%r))' % C3.tolist(),
                    lambda x: C3.copy()),
    'Aff3': _leaf('R3', 'R3', False, 'NonOp',
                  'odl.OperatorVectorSum(odl.MatrixOperator(%s), R3.element(%r))'
                  % (_arr(M33B), C3.tolist()), lambda x: _matvec(M33B, x) + C3),
    # ---- between rn(3) and rn(2)
    'Mat23': _leaf('R3', 'R2', True, 'LinOp', 'odl.MatrixOperator(%s)' % _arr(M23),
                   lambda x: _matvec(M23, x)),
    'Const32': _leaf('R3', 'R2', False, 'NonOp',
                     'odl.ConstantOperator(R2.element(%r), domain=R3)' % C2R.tolist(),
                     lambda x: C2R.copy()),
    'Mat32': _leaf('R2', 'R3', True, 'LinOp', 'odl.MatrixOperator(%s)' % _arr(M32),
                   lambda x: _matvec(M32, x)),
    'Id2': _leaf('R2', 'R2', True, 'LinOp', 'odl.IdentityOperator(R2)', lambda x: 1.0 * x),
    'Pow2': _leaf('R2', 'R2', False, 'NonOp', 'odl.PowerOperator(R2, 2)', lambda x: x * x),
    # ---- rn(3) -> R
    'L2sq3': _leaf('R3', 'R', False, 'Fn', 'odl.solvers.L2NormSquared(R3)',
                   lambda x: float(np.sum(x * x))),
    'L2sqT3': _leaf('R3', 'R', False, 'Fn',
                    'odl.solvers.L2NormSquared(R3).translated(R3.element(%r))' % C3.tolist(),
                    lambda x: float(np.sum((x - C3) * (x - C3)))),
    'L1_3': _leaf('R3', 'R', False, 'Fn', 'odl.solvers.L1Norm(R3)',
                  lambda x: float(np.sum(np.abs(x)))),
    'QF3': _leaf('R3', 'R', True, 'LinFn',
                 'odl.solvers.QuadraticForm(vector=R3.element(%r))' % V3.tolist(),
                 lambda x: float(np.sum(V3 * x))),
    'IP3': _leaf('R3', 'R', True, 'LinFOp',
                 'odl.InnerProductOperator(R3.element(%r))' % V3.tolist(),
                 lambda x: float(np.sum(x * V3))),
    'Norm3': _leaf('R3', 'R', False, 'NonFOp', 'odl.NormOperator(R3)',
                   lambda x: float(np.sqrt(np.sum(x * x))), exact=False),
    # ---- field domain
    'PowR': _leaf('R', 'R', False, 'NonFOp', 'odl.PowerOperator(R, 2)', lambda x: x * x),
    'ScR': _leaf('R', 'R', True, 'LinFOp', 'odl.ScalingOperator(R, 2.0)', lambda x: 2.0 * x),
    'IdFn': _leaf('R', 'R', True, 'LinFn', 'odl.solvers.IdentityFunctional(R)',
                  lambda x: 1.0 * x),
    'MulR3': _leaf('R', 'R3', True, 'LinOp',
                   'odl.MultiplyOperator(R3.element(%r), domain=R, range=R3)' % V3.tolist(),
                   lambda x: x * V3),
    # ---- cn(2) -> cn(2)
    'IdC': _leaf('C2', 'C2', True, 'LinOp', 'odl.IdentityOperator(C2)', lambda x: 1.0 * x),
    'ScC': _leaf('C2', 'C2', True, 'LinOp', 'odl.ScalingOperator(C2, 1j)', lambda x: 1j * x),
    'MatCC': _leaf('C2', 'C2', True, 'LinOp', 'odl.MatrixOperator(%s)' % _arr(MCC),
                   lambda x: _matvec(MCC, x)),
    'MulC': _leaf('C2', 'C2', True, 'LinOp',
                  'odl.MultiplyOperator(C2.element(%r))' % MULC.tolist(), lambda x: MULC * x),
    'PowC': _leaf('C2', 'C2', False, 'NonOp', 'odl.PowerOperator(C2, 2)', lambda x: x * x),
    'ConstC': _leaf('C2', 'C2', False, 'NonOp',
                    'odl.ConstantOperator(C2.element(%r))' % CC.tolist(), lambda x: CC.copy()),
    # ---- between cn(2) and rn(2)
    'ModSqC': _leaf('C2', 'R2', False, 'NonOp', 'odl.ComplexModulusSquared(C2)',
                    lambda x: x.real * x.real + x.imag * x.imag),
    'ReC': _leaf('C2', 'R2', True, 'LinOp', 'odl.RealPart(C2)', lambda x: x.real.copy()),
    'EmbC': _leaf('R2', 'C2', True, 'LinOp', 'odl.ComplexEmbedding(R2)',
                  lambda x: x.astype(complex)),
    # ---- cn(2) -> C
    'L2sqC': _leaf('C2', 'C', False, 'Fn', 'odl.solvers.L2NormSquared(C2)',
                   lambda x: complex(np.sum(x.real * x.real + x.imag * x.imag))),
    'IPC': _leaf('C2', 'C', True, 'LinFOp',
                 'odl.InnerProductOperator(C2.element(%r))' % VC.tolist(),
                 lambda x: complex(np.sum(x * np.conj(VC)))),
}
LEAF_ORDER = list(LEAVES)

# ------------------------------------------------------------------------------------------
# combinators

# op -> argument roles (E expression, S scalar token, V vector name, N positive int)
OPS = {
    'L': ('leaf',),
    'lsmul': ('S', 'E'), 'rsmul': ('E', 'S'), 'div': ('E', 'S'),
    'adds': ('E', 'S'), 'sadd': ('S', 'E'), 'subs': ('E', 'S'), 'ssub': ('S', 'E'),
    'lvmul': ('V', 'E'), 'rvmul': ('E', 'V'),
    'addv': ('E', 'V'), 'vadd': ('V', 'E'), 'subv': ('E', 'V'), 'vsub': ('V', 'E'),
    'neg': ('E',), 'pos': ('E',), 'pow': ('E', 'N'),
    'add': ('E', 'E'), 'sub': ('E', 'E'), 'comp': ('E', 'E'), 'matmul': ('E', 'E'),
    'pwprod': ('E', 'E'),
    'lsmatmul': ('S', 'E'), 'rsmatmul': ('E', 'S'), 'lvmatmul': ('V', 'E'),
    'rvmatmul': ('E', 'V'),
}
# the expression classes built directly with the documented user-supplied temporaries
OPS.update({'comptmp': ('E', 'E'), 'sumtmp': ('E', 'E'), 'rsmultmp': ('E', 'S')})
# `@` is documented as a synonym of `*`; the tmp forms mean the same as the plain ones
ALIAS = {'matmul': 'comp', 'lsmatmul': 'lsmul', 'rsmatmul': 'rsmul', 'lvmatmul': 'lvmul',
         'rvmatmul': 'rvmul', 'comptmp': 'comp', 'sumtmp': 'add', 'rsmultmp': 'rsmul'}


def children(e):
    return [a for a, r in zip(e[1:], OPS[e[0]]) if r == 'E']


def size(e):
    """Number of combinator applications."""
    if e[0] == 'L':
        return 0
    return 1 + sum(size(c) for c in children(e))


def typeof(e):
    """(dom, ran, structurally linear, exact arithmetic) or None when ill-typed."""
    op = ALIAS.get(e[0], e[0])
    if op == 'L':
        s = LEAVES[e[1]]
        return (s['dom'], s['ran'], s['lin'], s['exact'])
    roles = OPS[e[0]]
    ts = {}
    for i, r in enumerate(roles):
        if r == 'E':
            t = typeof(e[1 + i])
            if t is None:
                return None
            ts[i] = t
    if roles in (('S', 'E'), ('E', 'S')):
        t = ts[0] if roles[0] == 'E' else ts[1]
        a = e[2] if roles[0] == 'E' else e[1]
        dom, ran, lin, ex = t
        Fd, Fr = FIELD_OF[dom], FIELD_OF[ran]
        if op == 'lsmul':
            return (dom, ran, lin, ex) if in_field(a, Fr) else None
        if op == 'rsmul':
            return (dom, ran, lin, ex) if in_field(a, Fd) else None
        if op == 'div':
            ok = a not in ZERO_TOKENS and in_field(a, Fd) and in_field(a, Fr)
            return (dom, ran, lin, ex) if ok else None
        # sums with a scalar: affine, not linear
        return (dom, ran, False, ex) if in_field(a, Fr) else None
    if roles in (('V', 'E'), ('E', 'V')):
        t = ts[0] if roles[0] == 'E' else ts[1]
        v = e[2] if roles[0] == 'E' else e[1]
        vs = VECS[v][0]
        dom, ran, lin, ex = t
        if op == 'lvmul':
            if ran in FIELDS:
                # functional left vector multiplication: v in any space over the range field
                return (dom, vs, lin, ex) if FIELD_OF[vs] == ran else None
            return (dom, ran, lin, ex) if vs == ran else None
        if op == 'rvmul':
            return (dom, ran, lin, ex) if vs == dom else None
        return (dom, ran, False, ex) if vs == ran else None
    if op in ('neg', 'pos'):
        return ts[0]
    if op == 'pow':
        dom, ran, lin, ex = ts[0]
        n = e[2]
        if n == 1 or dom == ran:
            return (dom, ran, lin, ex)
        return None
    (d1, r1, l1, x1), (d2, r2, l2, x2) = ts[0], ts[1]
    if op in ('add', 'sub'):
        return (d1, r1, l1 and l2, x1 and x2) if (d1 == d2 and r1 == r2) else None
    if op == 'pwprod':
        return (d1, r1, False, x1 and x2) if (d1 == d2 and r1 == r2) else None
    if op == 'comp':
        return (d2, r1, l1 and l2, x1 and x2) if r2 == d1 else None
    raise KeyError(op)


GRID = 4096.0        # 2**12


def new_track():
    """[largest magnitude met, every intermediate on the grid 2**-12 Z with |.| < 2**12]"""
    return [0.0, True]


def track(y, tr):
    a = np.asarray(y)
    if a.dtype.kind == 'c':
        a = np.concatenate([a.real.ravel(), a.imag.ravel()])
    if a.size == 0:
        return
    m = float(np.max(np.abs(a)))
    if m > tr[0]:
        tr[0] = m
    if tr[1]:
        z = a * GRID
        if not (m < GRID and np.array_equal(z, np.rint(z))):
            tr[1] = False


def ref_eval(e, x, tr=None):
    """Value of the expression at ``x`` by the documented table.  ``tr`` (see `new_track`)
    accumulates the largest magnitude met on the way and whether every intermediate value is
    a small dyadic rational (then no rounding can have occurred, in any association order:
    products of two such numbers need at most 48 bits)."""
    op = ALIAS.get(e[0], e[0])
    if op == 'L':
        y = LEAVES[e[1]]['ref'](x)
    elif op == 'lsmul':
        y = SCALAR_VALUE[e[1]] * ref_eval(e[2], x, tr)
    elif op == 'rsmul':
        y = ref_eval(e[1], SCALAR_VALUE[e[2]] * x, tr)
    elif op == 'div':
        y = ref_eval(e[1], x / SCALAR_VALUE[e[2]], tr)
    elif op == 'adds':
        y = ref_eval(e[1], x, tr) + SCALAR_VALUE[e[2]]
    elif op == 'sadd':
        y = SCALAR_VALUE[e[1]] + ref_eval(e[2], x, tr)
    elif op == 'subs':
        y = ref_eval(e[1], x, tr) - SCALAR_VALUE[e[2]]
    elif op == 'ssub':
        y = SCALAR_VALUE[e[1]] - ref_eval(e[2], x, tr)
    elif op == 'lvmul':
        y = vec_array(e[1]) * ref_eval(e[2], x, tr)
    elif op == 'rvmul':
        y = ref_eval(e[1], vec_array(e[2]) * x, tr)
    elif op == 'addv':
        y = ref_eval(e[1], x, tr) + vec_array(e[2])
    elif op == 'vadd':
        y = vec_array(e[1]) + ref_eval(e[2], x, tr)
    elif op == 'subv':
        y = ref_eval(e[1], x, tr) - vec_array(e[2])
    elif op == 'vsub':
        y = vec_array(e[1]) - ref_eval(e[2], x, tr)
    elif op == 'neg':
        y = -ref_eval(e[1], x, tr)
    elif op == 'pos':
        y = ref_eval(e[1], x, tr)
    elif op == 'pow':
        y = x
        for _ in range(e[2]):
            y = ref_eval(e[1], y, tr)
    elif op == 'add':
        y = ref_eval(e[1], x, tr) + ref_eval(e[2], x, tr)
    elif op == 'sub':
        y = ref_eval(e[1], x, tr) - ref_eval(e[2], x, tr)
    elif op == 'pwprod':
        y = ref_eval(e[1], x, tr) * ref_eval(e[2], x, tr)
    elif op == 'comp':
        y = ref_eval(e[1], ref_eval(e[2], x, tr), tr)
    else:
        raise KeyError(op)
    if tr is not None:
        track(y, tr)
        if op == 'L':
            track(x, tr)
    return y


def ref_is_linear(e, t):
    """Superposition of the *reference* function on the point set (additivity, homogeneity
    with 2 and -1/2, with 1j when both fields are complex, and f(0) = 0)."""
    dom, ran = t[0], t[1]
    x1, x2, x12, x0 = points(dom)
    tr = new_track()

    def close(a, b):
        # "not linear" is a claim about the documented function, so the test is relative to
        # the size of the VALUES compared (a function scaled by a tiny scalar is as nonlinear as
        # the unscaled one); rounding in the reference itself is bounded by a few ulp of the
        # largest intermediate magnitude and never counts as a deviation
        a, b = np.asarray(a), np.asarray(b)
        if tr[1]:
            return bool(np.array_equal(a, b))
        size = max(float(np.max(np.abs(a))) if a.size else 0.0,
                   float(np.max(np.abs(b))) if b.size else 0.0)
        return bool(np.all(np.abs(a - b) <= 1e-9 * size + 1e-13 * tr[0]))

    f1, f2, f12, f0 = (ref_eval(e, p, tr) for p in (x1, x2, x12, x0))
    if not close(f0, 0 * f0):
        return False
    if not close(f12, f1 + f2):
        return False
    for a in (2.0, -0.5):
        if not close(ref_eval(e, a * x1, tr), a * f1):
            return False
    if FIELD_OF[dom] == 'C' and FIELD_OF[ran] == 'C':
        if not close(ref_eval(e, 1j * x2, tr), 1j * f2):
            return False
    return True


# ------------------------------------------------------------------------------------------
# pools and enumeration

FULL = {
    'leaves': LEAF_ORDER,
    'scalars': ['2', '-1', '0.5', '0', '1j'],
    'vecs': ['v3', 'w3', 'v2', 'w2', 'vc', 'wc'],
    'plain': ['neg', 'pos'],
    'pows': [1, 2, 3],
    'binary': ['add', 'sub', 'comp', 'matmul', 'pwprod'],
    'at': True,
    'tmpforms': True,
    # extended scalars: roots over every child (all scalar forms except the `@` synonyms)
    'xscalars': ['tiny', 'huge', 'near1', 'tinyj', 'f64:2', 'i64:-1', 'f64:0', 'c128:1j'],
    # ... of which these also form children  a*E, E*a, E/a  (so that a factor can be undone /
    # merged by the enclosing application: huge * (tiny * f), (f * tiny) / tiny, ...)
    'xchild': ['tiny', 'huge'],
}
# reduced pool for the deepest level: one representative per (type, linear?, class family)
REDUCED = {
    'leaves': ['SeqDiff3', 'Pow3', 'Aff3', 'L1_3', 'L2sqT3', 'QF3', 'IP3', 'Norm3',
               'MatCC', 'PowC', 'L2sqC'],
    'scalars': ['2', '0.5', '0', '1j'],
    'vecs': ['v3', 'v2', 'vc'],
    'plain': ['neg'],
    'pows': [2],
    'binary': ['add', 'sub', 'comp', 'pwprod'],
    'at': False,
    'tmpforms': False,
}
# pool for the products (operator from the field into a space) * (functional on that space):
# both operands are size-1 expressions, so that B ranges over the Operator* expression classes
# and F over the Functional* classes derived from them (Python then tries F.__rmul__(B) first)
PRODUCT = {
    'leaves': ['MulR3', 'PowR', 'ScR', 'IdFn', 'L1_3', 'QF3', 'IP3'],
    'scalars': ['2'],
    'vecs': ['v3'],
    'plain': [],
    'pows': [],
    'ssums': ('adds',),
    'binary': ['add', 'comp'],
    'at': False,
    'tmpforms': False,
}
POOLS = {'full': FULL, 'red': REDUCED, 'prod': PRODUCT}


def roots_over(c, pool):
    """All well-typed applications of one combinator with ``c`` as an operand; the other
    operand (if any) is a scalar, a vector or a *leaf*.  For a leaf ``c`` binary forms are
    only generated with ``c`` on the left (the right-hand variants are generated from the
    other leaf), so the union over all children has no duplicates."""
    t = typeof(c)
    if t is None:
        return []
    dom, ran, lin, ex = t
    Fd, Fr = FIELD_OF[dom], FIELD_OF[ran]
    c_is_leaf = c[0] == 'L'
    out = []
    for op in pool['plain']:
        out.append([op, c])
    for n in pool['pows']:
        if n == 1 or dom == ran:
            out.append(['pow', c, n])
    xs = pool.get('xscalars', [])
    for a in pool['scalars'] + xs:
        at = pool['at'] and a not in xs      # `@` delegates to `*` before looking at the operand
        if in_field(a, Fr):
            out.append(['lsmul', a, c])
            if at:
                out.append(['lsmatmul', a, c])
        if in_field(a, Fd):
            out.append(['rsmul', c, a])
            if at:
                out.append(['rsmatmul', c, a])
        if a not in ZERO_TOKENS and in_field(a, Fd) and in_field(a, Fr):
            out.append(['div', c, a])
        if in_field(a, Fr):
            for op in pool.get('ssums', ('adds', 'sadd', 'subs', 'ssub')):
                out.append([op, c, a] if OPS[op][0] == 'E' else [op, a, c])
    for v in pool['vecs']:
        vs = VECS[v][0]
        if (ran in FIELDS and FIELD_OF[vs] == ran) or vs == ran:
            out.append(['lvmul', v, c])
            if pool['at']:
                out.append(['lvmatmul', v, c])
        if vs == dom:
            out.append(['rvmul', c, v])
            if pool['at']:
                out.append(['rvmatmul', c, v])
        if vs == ran:
            out.append(['addv', c, v])
            out.append(['vadd', v, c])
            out.append(['subv', c, v])
            out.append(['vsub', v, c])
    if pool.get('tmpforms') and c_is_leaf and dom not in FIELDS:
        for a in pool['scalars']:
            if in_field(a, Fd):
                out.append(['rsmultmp', c, a])
        for name in pool['leaves']:
            leaf = ['L', name]
            ld, lr = LEAVES[name]['dom'], LEAVES[name]['ran']
            if lr == dom:
                out.append(['comptmp', c, leaf])
            if ld == dom and lr == ran and ran not in FIELDS:
                out.append(['sumtmp', c, leaf])
    for name in pool['leaves']:
        leaf = ['L', name]
        ld, lr = LEAVES[name]['dom'], LEAVES[name]['ran']
        for op in pool['binary']:
            if op in ('add', 'sub', 'pwprod'):
                if ld == dom and lr == ran:
                    out.append([op, c, leaf])
                    if not c_is_leaf:
                        out.append([op, leaf, c])
            else:
                if lr == dom:
                    out.append([op, c, leaf])
                if not c_is_leaf and ld == ran:
                    out.append([op, leaf, c])
    return out


def unspecified(e):
    """Applications the documentation leaves open (counted, not judged, never used as operands):
    right scalar multiplication / division of an operator defined on a *field*.
    `Operator.__mul__`: "scalar: The `Operator.domain` of this operator must be a `LinearSpace`",
    class `OperatorRightScalarMult`: "well-defined only if ``op.domain`` is a `LinearSpace`",
    but its constructor: "Its `domain` must be a `LinearSpace` or `Field`"."""
    op = ALIAS.get(e[0], e[0])
    if op in ('rsmul', 'div'):
        t = typeof(e)
        return t is not None and t[0] in FIELDS
    return False


def pairs_with(c, partners, pool):
    """Binary forms ``c op p`` for every partner expression ``p`` (ordered, ``c`` left)."""
    t = typeof(c)
    out = []
    for p in partners:
        tp = typeof(p)
        for op in pool['binary']:
            if op in ('add', 'sub', 'pwprod'):
                if tp[0] == t[0] and tp[1] == t[1]:
                    out.append([op, c, p])
            elif tp[1] == t[0]:
                out.append([op, c, p])
    return out


def product_sides(pool=PRODUCT):
    """(B list, F list): size <= 1 expressions defined on the field / with values in it."""
    cand = level(pool, 0) + level(pool, 1)
    B = [c for c in cand if typeof(c)[0] in FIELDS]
    F = [c for c in cand if typeof(c)[1] in FIELDS]
    return B, F


def products_with(b, partners):
    """b * F, b @ F (F's values feed b) and F * b for every partner F where typed."""
    tb = typeof(b)
    out = []
    for f in partners:
        tf = typeof(f)
        if tf[1] == tb[0]:
            out.append(['comp', b, f])
            out.append(['matmul', b, f])
        if tb[1] == tf[0]:
            out.append(['comp', f, b])
    return out


def scalar_token(e):
    """The scalar token at the root of ``e`` (None when the root has no scalar operand)."""
    for a, r in zip(e[1:], OPS[e[0]]):
        if r == 'S':
            return a
    return None


def reused(e, pool):
    """Is the root application ``e`` used as a child of larger expressions?  Applications of an
    extended scalar are judged as roots over every child; as children only the multiplicative
    forms (whose factors are merged / undone by an enclosing multiplication) with the magnitude
    scalars of ``pool['xchild']`` are kept."""
    a = scalar_token(e)
    if a is None or a not in pool.get('xscalars', []):
        return True
    return e[0] in ('lsmul', 'rsmul', 'div') and a in pool.get('xchild', [])


def level(pool, n):
    """All expressions of size exactly n built by chains of `roots_over` (n = 0: leaves)."""
    cur = [['L', name] for name in pool['leaves']]
    for _ in range(n):
        nxt = []
        for c in cur:
            # `@` forms build the same objects as their `*` twins: judged as roots, not reused
            nxt.extend(r for r in roots_over(c, pool)
                       if not unspecified(r) and r[0] not in ALIAS and reused(r, pool))
        cur = nxt
    return cur


# ------------------------------------------------------------------------------------------
# printing

OVERLOAD = {
    'lsmul': 'a*A', 'rsmul': 'A*a', 'div': 'A/a', 'adds': 'A+a', 'sadd': 'a+A', 'subs': 'A-a',
    'ssub': 'a-A', 'lvmul': 'v*A', 'rvmul': 'A*v', 'addv': 'A+v', 'vadd': 'v+A', 'subv': 'A-v',
    'vsub': 'v-A', 'neg': '-A', 'pos': '+A', 'pow': 'A**n', 'add': 'A+B', 'sub': 'A-B',
    'comp': 'A*B', 'matmul': 'A@B', 'pwprod': 'PointwiseProduct(A,B)',
    'lsmatmul': 'a@A', 'rsmatmul': 'A@a', 'lvmatmul': 'v@A', 'rvmatmul': 'A@v',
    'comptmp': 'OperatorComp(A,B,tmp)', 'sumtmp': 'OperatorSum(A,B,tmp_ran,tmp_dom)',
    'rsmultmp': 'OperatorRightScalarMult(A,a,tmp)',
}


def overload(e):
    """Name of the overload at the root; a zero scalar factor is a separate arm."""
    s = OVERLOAD[e[0]]
    if e[0] in ('lsmul', 'lsmatmul') and e[1] in ZERO_TOKENS:
        s = s.replace('a', '0')
    if e[0] in ('rsmul', 'rsmatmul') and e[2] in ZERO_TOKENS:
        s = s.replace('a', '0')
    if e[0] == 'rsmultmp' and e[2] in ZERO_TOKENS:
        s = 'OperatorRightScalarMult(A,0,tmp)'
    return s


def scalar_regime(e):
    """';a=<regime>' when the scalar operand at the root is an extended one, else ''."""
    a = scalar_token(e)
    return ';a=' + SCALAR_REGIME[a] if a in SCALAR_REGIME else ''


def leaf_names(e):
    if e[0] == 'L':
        return [e[1]]
    out = []
    for c in children(e):
        out.extend(leaf_names(c))
    return out


def alias_safe(e):
    """Every leaf of the expression may itself be called with ``out is x``."""
    return all(LEAVES[n]['alias'] for n in leaf_names(e))


def marker(e):
    """Regime of the expression by the leaves it contains: complex spaces, leaves between a
    complex and a real space, leaves defined on a field, leaves that are not alias-safe."""
    flags = set()
    for n in leaf_names(e):
        s = LEAVES[n]
        fd, fr = FIELD_OF[s['dom']], FIELD_OF[s['ran']]
        if fd != fr:
            flags.add('mixedRC')
        elif fd == 'C':
            flags.add('C')
        if s['dom'] in FIELDS:
            flags.add('Fdom')
        if not s['alias']:
            flags.add('unsafeleaf')
    return ''.join('/' + f for f in sorted(flags))


def src(e, top=True):
    """Python source of the expression (with the names of PREAMBLE in scope)."""
    op = e[0]
    if op == 'L':
        return LEAVES[e[1]]['src']
    E = lambda a: src(a, False)      # noqa: E731
    S = lambda a: SCALAR_SRC[a]      # noqa: E731
    V = vec_src
    fmt = {
        'lsmul': lambda: '%s * %s' % (S(e[1]), E(e[2])),
        'rsmul': lambda: '%s * %s' % (E(e[1]), S(e[2])),
        'div': lambda: '%s / %s' % (E(e[1]), S(e[2])),
        'adds': lambda: '%s + %s' % (E(e[1]), S(e[2])),
        'sadd': lambda: '%s + %s' % (S(e[1]), E(e[2])),
        'subs': lambda: '%s - %s' % (E(e[1]), S(e[2])),
        'ssub': lambda: '%s - %s' % (S(e[1]), E(e[2])),
        'lvmul': lambda: '%s * %s' % (V(e[1]), E(e[2])),
        'rvmul': lambda: '%s * %s' % (E(e[1]), V(e[2])),
        'addv': lambda: '%s + %s' % (E(e[1]), V(e[2])),
        'vadd': lambda: '%s + %s' % (V(e[1]), E(e[2])),
        'subv': lambda: '%s - %s' % (E(e[1]), V(e[2])),
        'vsub': lambda: '%s - %s' % (V(e[1]), E(e[2])),
        'neg': lambda: '-%s' % E(e[1]),
        'pos': lambda: '+%s' % E(e[1]),
        'pow': lambda: '%s ** %d' % (E(e[1]), e[2]),
        'add': lambda: '%s + %s' % (E(e[1]), E(e[2])),
        'sub': lambda: '%s - %s' % (E(e[1]), E(e[2])),
        'comp': lambda: '%s * %s' % (E(e[1]), E(e[2])),
        'matmul': lambda: '%s @ %s' % (E(e[1]), E(e[2])),
        'lsmatmul': lambda: '%s @ %s' % (S(e[1]), E(e[2])),
        'rsmatmul': lambda: '%s @ %s' % (E(e[1]), S(e[2])),
        'lvmatmul': lambda: '%s @ %s' % (V(e[1]), E(e[2])),
        'rvmatmul': lambda: '%s @ %s' % (E(e[1]), V(e[2])),
        'comptmp': lambda: ('(lambda A_, B_: odl.OperatorComp(A_, B_, tmp=A_.domain.element()))'
                            '(%s, %s)' % (E(e[1]), E(e[2]))),
        'sumtmp': lambda: ('(lambda A_, B_: odl.OperatorSum(A_, B_, tmp_ran=A_.range.element(), '
                           'tmp_dom=A_.domain.element()))(%s, %s)' % (E(e[1]), E(e[2]))),
        'rsmultmp': lambda: ('(lambda A_: odl.OperatorRightScalarMult(A_, %s, '
                             'tmp=A_.domain.element()))(%s)' % (S(e[2]), E(e[1]))),
        'pwprod': lambda: 'odl.OperatorPointwiseProduct(%s, %s)' % (E(e[1]), E(e[2])),
    }[op]()
    return '(%s)' % fmt
