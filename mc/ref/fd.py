"""Reference model for C13: textbook difference stencils on explicitly extended arrays.

Deliberately naive, shares no code with odl.  Everything is built from one primitive,
``diff_1d(f, method, mode, c)``, which works on a Python list of numbers:

* primal modes with padding (``constant``, ``periodic``, ``symmetric``, ``order0``): the array
  is extended by one ghost value per side according to the rule and the stencil of ``method``
  (forward ``g[i+1]-g[i]``, backward ``g[i]-g[i-1]``, central ``(g[i+1]-g[i-1])/2``) is applied
  at every original index.  ``symmetric`` replicates the edge value (NumPy's meaning of
  "symmetric": ``np.pad([a,b,c], 1, 'symmetric') == [a,a,b,c,c]``), which makes it coincide
  with ``order0`` for the one ghost value a first-order stencil needs.
* ``order1`` / ``order2`` ("without padding", finite_diff docstring: "Without padding one-sided
  forward or backward differences are used at the boundaries.  The accuracy at the endpoints
  can then also be triggered by the edge order."): interior rows by ``method``, first and last
  row the one-sided difference of first resp. second order, whatever ``method`` is.
* adjoint modes ``X_adjoint``: minus the transpose of the matrix of mode ``X`` with the dual
  method (forward <-> backward, central <-> central: on the infinite grid
  ``D_forward^T = -D_backward`` and ``D_central^T = -D_central``).

N-d operators are assembled entry by entry with explicit index loops in extended precision
(``numpy.longdouble``), so the reference carries no rounding of its own that matters at the
4-ulp tolerance used for non-dyadic cell sides.
"""
import itertools
from functools import lru_cache

import numpy as np

METHODS = ('forward', 'backward', 'central')
PADDED = ('constant', 'periodic', 'symmetric', 'order0')
UNPADDED = ('order1', 'order2')
PRIMAL = PADDED + UNPADDED
ADJOINT_OF = {'symmetric_adjoint': 'symmetric', 'order0_adjoint': 'order0',
              'order1_adjoint': 'order1', 'order2_adjoint': 'order2'}
MODES = PRIMAL + tuple(ADJOINT_OF)
# the inverse pairing, used for the clause "divergence = - adjoint of gradient"
MODE_DUAL = dict(list(ADJOINT_OF.items()) + [(v, k) for k, v in ADJOINT_OF.items()]
                 + [('constant', 'constant'), ('periodic', 'periodic')])
METHOD_DUAL = {'forward': 'backward', 'backward': 'forward', 'central': 'central'}
# documented: order1 "requires at least 2 values", order2 "requires at least 3 values"
MIN_SIZE = dict((m, 2) for m in MODES)
MIN_SIZE['order2'] = 3
MIN_SIZE['order2_adjoint'] = 3
LAPLACIAN_MODES = ('constant', 'periodic', 'symmetric', 'order0', 'symmetric_adjoint',
                   'order0_adjoint')


def extend(f, mode, c=0):
    """``f`` (list) with one ghost value on each side, by the named boundary rule."""
    f = list(f)
    if mode == 'constant':
        lo, hi = c, c
    elif mode == 'periodic':
        lo, hi = f[-1], f[0]
    elif mode in ('symmetric', 'order0'):
        lo, hi = f[0], f[-1]
    else:
        raise ValueError('no padding rule for mode %r' % (mode,))
    return [lo] + f + [hi]


def _stencil(g, i, method):
    if method == 'forward':
        return g[i + 1] - g[i]
    if method == 'backward':
        return g[i] - g[i - 1]
    if method == 'central':
        return (g[i + 1] - g[i - 1]) / 2.0
    raise ValueError(method)


def diff_1d(f, method, mode, c=0):
    """First difference (cell side 1) of the list ``f`` for a primal mode."""
    f = list(f)
    n = len(f)
    if n < MIN_SIZE[mode]:
        raise ValueError('axis too short for mode %s' % mode)
    if mode in PADDED:
        g = extend(f, mode, c)
        return [_stencil(g, i + 1, method) for i in range(n)]
    if mode in UNPADDED:
        out = [None] * n
        for i in range(1, n - 1):
            out[i] = _stencil(f, i, method)
        if mode == 'order1':
            out[0] = f[1] - f[0]
            out[n - 1] = f[n - 1] - f[n - 2]
        else:
            out[0] = (-3.0 * f[0] + 4.0 * f[1] - f[2]) / 2.0
            out[n - 1] = (3.0 * f[n - 1] - 4.0 * f[n - 2] + f[n - 3]) / 2.0
        return out
    raise ValueError('not a primal mode: %r' % (mode,))


def second_diff_1d(f, mode, c=0):
    """Second difference ``g[i+1] - 2 g[i] + g[i-1]`` on the extended array (padded modes)."""
    g = extend(f, mode, c)
    return [g[i + 2] - 2.0 * g[i + 1] + g[i] for i in range(len(f))]


def _unit(n, k):
    e = [0.0] * n
    e[k] = 1.0
    return e


@lru_cache(maxsize=None)
def _matrix_1d_cached(n, method, mode):
    if mode in ADJOINT_OF:
        D = _matrix_1d_cached(n, METHOD_DUAL[method], ADJOINT_OF[mode])
        return tuple(tuple(-D[j][i] for j in range(n)) for i in range(n))
    cols = [diff_1d(_unit(n, k), method, mode, 0) for k in range(n)]
    return tuple(tuple(cols[k][i] for k in range(n)) for i in range(n))


def matrix_1d(n, method, mode, c=0):
    """(D, b): ``diff(f) = D f + b`` for cell side 1; ``b`` is nonzero only for constant c != 0."""
    D = np.array(_matrix_1d_cached(n, method, mode), dtype=float)
    if mode == 'constant' and c != 0:
        b = np.array(diff_1d([0.0] * n, method, mode, c))
    else:
        b = np.zeros(n)
    return D, b


@lru_cache(maxsize=None)
def _lap_1d_cached(n, mode):
    if mode in ADJOINT_OF:
        L = _lap_1d_cached(n, ADJOINT_OF[mode])
        return tuple(tuple(L[j][i] for j in range(n)) for i in range(n))
    cols = [second_diff_1d(_unit(n, k), mode, 0) for k in range(n)]
    return tuple(tuple(cols[k][i] for k in range(n)) for i in range(n))


def laplacian_1d(n, mode, c=0):
    if mode not in LAPLACIAN_MODES:
        raise ValueError(mode)
    L = np.array(_lap_1d_cached(n, mode), dtype=float)
    if mode == 'constant' and c != 0:
        b = np.array(second_diff_1d([0.0] * n, mode, c))
    else:
        b = np.zeros(n)
    return L, b


def _flat_index(idx, shape):
    r = 0
    for i, s in zip(idx, shape):
        r = r * s + i
    return r


def along_axis(shape, axis, D, b, scale, cplx=False):
    """N-d operator (C-order flattening) that applies ``(D f + b) / scale`` along ``axis``.

    Returns ``(M, off)`` as extended-precision arrays of shape (N, N) and (N,).
    """
    ld = np.clongdouble if cplx else np.longdouble
    N = 1
    for s in shape:
        N *= s
    M = np.zeros((N, N), dtype=ld)
    off = np.zeros(N, dtype=ld)
    sc = np.longdouble(scale)
    n = shape[axis]
    for idx in itertools.product(*[range(s) for s in shape]):
        r = _flat_index(idx, shape)
        i = idx[axis]
        if b[i] != 0:
            off[r] = ld(b[i]) / sc
        for j in range(n):
            if D[i, j] != 0:
                jdx = idx[:axis] + (j,) + idx[axis + 1:]
                M[r, _flat_index(jdx, shape)] = ld(D[i, j]) / sc
    return M, off


def partial(shape, axis, dx, method, mode, c=0):
    D, b = matrix_1d(shape[axis], method, mode, c)
    return along_axis(shape, axis, D, b, dx, cplx=isinstance(c, complex))


def gradient(shape, dxs, method, mode, c=0):
    parts = [partial(shape, a, dxs[a], method, mode, c) for a in range(len(shape))]
    return (np.concatenate([p[0] for p in parts], axis=0),
            np.concatenate([p[1] for p in parts]))


def divergence(shape, dxs, method, mode, c=0):
    parts = [partial(shape, a, dxs[a], method, mode, c) for a in range(len(shape))]
    off = parts[0][1]
    for p in parts[1:]:
        off = off + p[1]
    return np.concatenate([p[0] for p in parts], axis=1), off


def laplacian(shape, dxs, mode, c=0):
    M = off = None
    for a in range(len(shape)):
        L, b = laplacian_1d(shape[a], mode, c)
        dx2 = np.longdouble(dxs[a]) * np.longdouble(dxs[a])
        Ma, oa = along_axis(shape, a, L, b, dx2, cplx=isinstance(c, complex))
        M = Ma if M is None else M + Ma
        off = oa if off is None else off + oa
    return M, off
