"""Reference model for C02: documented inner products, norms and distances (no odl code).

Everything is a naive reduction over *flat* coordinate arrays with an EXPLICIT weight array.

* tensor spaces        W = c * ones   (constant c; no weighting is c = 1)  or  W = the array
* discretized spaces   W = outer product over the axes of the per-axis quadrature weights
                       (cell side, halved for an outermost cell whose node sits on the boundary),
                       computed in exact rational arithmetic from min_pt / max_pt / shape /
                       nodes_on_bdry alone
* product spaces       component results reduced with the formulas of the ``ProductSpace``
                       notes and of ``ProductSpace{Const,Array}Weighting``

Documented formulas (``NumpyTensorSpace{Const,Array}Weighting.__init__`` notes):
    <a, b>_W      = b^H (w . a)
    ||a||_{W,p}   = || w^(1/p) . a ||_p      (p < inf)    i.e. (sum_i w_i |a_i|^p)^(1/p)
    ||a||_{W,inf} = || w . a ||_inf                       i.e. max_i w_i |a_i|
    dist(a, b)    = ||a - b||
(the constant case is the same with w_i = c: c^(1/p) ||a||_p and c ||a||_inf).
"""
from fractions import Fraction as Fr
import math

import numpy as np

INF = float('inf')


# ------------------------------------------------------------------------------------------
# quadrature weights of a uniformly discretized interval product

def axis_cells(n, left, right):
    """Number of (full) cells an axis with ``n`` nodes is divided into (rational)."""
    if n == 1:
        return Fr(1)
    return Fr(n) - (Fr(1, 2) if left else 0) - (Fr(1, 2) if right else 0)


def axis_weights(a, b, n, left, right):
    """Exact quadrature weights of ``n`` equispaced nodes in [a, b].

    ``left``/``right``: the outermost node lies ON the boundary (its cell is cut in half);
    otherwise it lies half a cell inside.  A single node owns the whole interval
    (``boundary_cell_fractions``: "Degenerate axes have a value of 1.0", ``cell_sides`` uses the
    extent).  The weights always add up to ``b - a``.
    """
    a, b = Fr(a), Fr(b)
    if n == 1:
        return [b - a]
    s = (b - a) / axis_cells(n, left, right)
    w = [s] * n
    if left:
        w[0] = s / 2
    if right:
        w[-1] = s / 2
    return w


def axis_cell_side(a, b, n, left, right):
    return (Fr(b) - Fr(a)) / axis_cells(n, left, right)


def cell_volume(min_pt, max_pt, shape, bdry):
    v = Fr(1)
    for a, b, n, (l, r) in zip(min_pt, max_pt, shape, bdry):
        v *= axis_cell_side(a, b, n, l, r)
    return v


def domain_volume(min_pt, max_pt):
    v = Fr(1)
    for a, b in zip(min_pt, max_pt):
        v *= Fr(b) - Fr(a)
    return v


def discr_weights(min_pt, max_pt, shape, bdry):
    """Weight array (C-ordered, float64) = cell volume x boundary-cell fractions."""
    axes = [axis_weights(a, b, n, l, r)
            for a, b, n, (l, r) in zip(min_pt, max_pt, shape, bdry)]
    W = np.empty(tuple(shape), dtype=float)
    for idx in np.ndindex(*shape):
        w = Fr(1)
        for ax, i in enumerate(idx):
            w *= axes[ax][i]
        W[idx] = float(w)
    return W


def grid_axis_weights(x0, s, n, a, b):
    """Exact quadrature weights of the ``n`` nodes x0, x0+s, ... in the interval [a, b].

    Midpoint rule: node i owns [x_i - s/2, x_i + s/2], the outermost cells are cropped or
    extended to the interval ends (``RectPartition.boundary_cell_fractions``: "the "natural"
    outermost cell around these points can either be cropped or extended ... If a grid point
    lies exactly on the boundary, the value is 1/2 ... Otherwise, any value larger than 1/2 is
    possible").  A single node owns the whole interval.  Needs a <= x0 and x0+(n-1)s <= b.
    """
    x0, s, a, b = Fr(x0), Fr(s), Fr(a), Fr(b)
    if n == 1:
        return [b - a]
    last = x0 + (n - 1) * s
    assert a <= x0 and last <= b and s > 0
    if n == 2:
        return [x0 + s / 2 - a, b - (last - s / 2)]
    return [x0 + s / 2 - a] + [s] * (n - 2) + [b - (last - s / 2)]


def grid_weights(x0, s, shape, lo, hi):
    """Weight array (C order) of an n-d grid partition: outer product of the axis weights."""
    axes = [grid_axis_weights(x, st, n, a, b) for x, st, n, a, b in zip(x0, s, shape, lo, hi)]
    W = np.empty(tuple(shape), dtype=float)
    for idx in np.ndindex(*shape):
        w = Fr(1)
        for ax, i in enumerate(idx):
            w *= axes[ax][i]
        W[idx] = float(w)
    return W


def grid_fractions(x0, s, shape, lo, hi):
    """Per axis (left, right) fraction of the outermost natural cell inside the interval."""
    out = []
    for x, st, n, a, b in zip(x0, s, shape, lo, hi):
        if n == 1:
            out.append((Fr(1), Fr(1)))
        else:
            w = grid_axis_weights(x, st, n, a, b)
            out.append((w[0] / Fr(st), w[-1] / Fr(st)))
    return out


def has_boundary_fraction(shape, bdry):
    """True if some outermost cell is only partly inside the domain (fraction != 1)."""
    return any(n > 1 and (l or r) for n, (l, r) in zip(shape, bdry))


# ------------------------------------------------------------------------------------------
# weighted reductions on flat arrays

def _c(x):
    x = np.asarray(x)
    return x.astype(complex if np.iscomplexobj(x) else float)


def inner_w(W, x, y):
    """<x, y>_W = sum_i W_i x_i conj(y_i)  (linear in x)."""
    x, y = _c(x), _c(y)
    t = np.asarray(W, dtype=float) * x * np.conj(y)
    s = t.sum()
    return complex(s) if np.iscomplexobj(t) else float(s)


def inner_scale(W, x, y):
    """Sum of the moduli of the terms of ``inner_w`` (the magnitude a tolerance refers to)."""
    return float(np.sum(np.asarray(W, dtype=float) * np.abs(_c(x)) * np.abs(_c(y))))


def norm_w(W, x, p):
    a = np.abs(_c(x))
    W = np.asarray(W, dtype=float)
    if a.size == 0:
        return 0.0
    if p == INF:
        return float(np.max(W * a))
    if p == 2:
        return math.sqrt(float(np.sum(W * a * a)))
    if p == 1:
        return float(np.sum(W * a))
    return float(np.sum(W * a ** p)) ** (1.0 / p)


def dist_w(W, x, y, p):
    return norm_w(W, _c(x) - _c(y), p)


# ------------------------------------------------------------------------------------------
# product spaces: reduce component results

def prod_inner(inners, w):
    """<x, y> = sum_i w_i <x_i, y_i>_i."""
    s = 0.0
    for wi, v in zip(w, inners):
        s = s + wi * v
    return s


def prod_norm(norms, w, p):
    """(sum_i w_i n_i^p)^(1/p);  max_i w_i n_i for p = inf  (also used for distances)."""
    if len(norms) == 0:
        return 0.0
    if p == INF:
        return max(wi * v for wi, v in zip(w, norms))
    if p == 1:
        return math.fsum(wi * v for wi, v in zip(w, norms))
    if p == 2:
        return math.sqrt(math.fsum(wi * v * v for wi, v in zip(w, norms)))
    return math.fsum(wi * v ** p for wi, v in zip(w, norms)) ** (1.0 / p)


# ------------------------------------------------------------------------------------------
# generic quadratic forms (custom inner products)

def inner_mat(A, x, y):
    """y^H A x."""
    x, y = _c(x), _c(y)
    s = 0.0
    for i in range(len(x)):
        for j in range(len(x)):
            s = s + np.conj(y[i]) * A[i][j] * x[j]
    return complex(s) if (np.iscomplexobj(x) or np.iscomplexobj(y) or
                          np.iscomplexobj(np.asarray(A))) else float(np.real(s))
