"""Reference model for C20 (sets and spaces: equality, hashing, membership, element creation).

This module does not import odl.  It contains

* a small *recipe language* (nested tuples) describing how an object of the universe is built,
  and the universe itself (``universe(tier)``);
* ``keys(recipe, node)``: the *documented identity* of the object a recipe denotes, as a pair
  ``(strict, loose)`` of hashable Python values:
      equal strict keys   => the documentation says the two objects are equal,
      different loose keys => the documentation says they are different,
      same loose / different strict => the docstring of ``__eq__`` is silent about the
      attribute that differs although the code compares it (counted as unspecified);
* naive models of selections: which factors / weights / values an index expression selects;
* index alphabets.

Recipes
-------
sets        ('Real',) ('Complex',) ('Int',) ('Empty',) ('Univ',) ('Str', n)
            ('Cart', r1, ...) ('Union', r1, ...) ('Inter', r1, ...) ('Fin', v1, ...)
            ('IP', mins, maxs)          mins / maxs tuples (or scalars) of numbers
            ('Grid', vec1, ...)         coordinate tuples
            ('UGrid', mins, maxs, shape)
parts       ('UPart', mins, maxs, shape, nodes_on_bdry)   odl.uniform_partition
            ('Part', ip_recipe, grid_recipe)              odl.RectPartition
weightings  ('W', cls, arg, exponent) with cls in
            ConstT ConstP ConstB ConstBo ArrT ArrP ArrB MatB MatBs InnerT InnerP InnerB NormT
            NormP DistT DistP ; arg = constant | array name | callable name
spaces      ('TS', shape, dtype, wkind, warg, exponent)
                wkind in None 'const' 'arr' 'list' 'inner' 'norm' 'dist' 'W'
            ('UD', mins, maxs, shape, opts)    opts = tuple of (key, value)
            ('DS', part_recipe, ts_recipe, labels)
            ('PS', (r1, ...), wkind, warg, exponent, field_recipe)
            ('PW', base_recipe, n, wkind, warg, exponent)
"""
import itertools

import numpy as np

INF = float('inf')

# ------------------------------------------------------------------------------------------
# pools shared by the two independent builds of every recipe (identity matters for arrays)

ARRAYS = {
    'A2': [1.0, 2.0], 'A2c': [1.0, 2.0], 'B2': [2.0, 0.5], 'E2': [2.0, 2.0],
    'A3': [1.0, 2.0, 0.5], 'A3c': [1.0, 2.0, 0.5],
    'A22': [[1.0, 2.0], [0.5, 4.0]], 'A22c': [[1.0, 2.0], [0.5, 4.0]],
    'A23': [[1.0, 2.0, 0.5], [4.0, 1.0, 2.0]],
    'M2': [[2.0, 0.0], [0.0, 1.0]], 'M2c': [[2.0, 0.0], [0.0, 1.0]],
}


def make_arrays():
    """Fresh pool of weight arrays (one pool per state; both duplicates share it)."""
    return dict((k, np.array(v, dtype=float)) for k, v in ARRAYS.items())


CALLABLES = ('f', 'g', 'm')     # 'm' is a bound method: distinct-but-equal objects per access


# ------------------------------------------------------------------------------------------
# naming

def name(recipe):
    """Stable compact name of a recipe (used in configurations and sites)."""
    if isinstance(recipe, tuple):
        if recipe and isinstance(recipe[0], str) and recipe[0][:1].isupper():
            return recipe[0] + '(' + ','.join(name(r) for r in recipe[1:]) + ')'
        return '[' + ','.join(name(r) for r in recipe) + ']'
    if isinstance(recipe, float):
        return repr(recipe)
    return str(recipe)


# ------------------------------------------------------------------------------------------
# documented identity

def _ftuple(v):
    """Tuple of floats of a scalar-or-sequence (documented: converted with atleast_1d)."""
    if isinstance(v, (tuple, list)):
        return tuple(float(x) for x in v)
    return (float(v),)


def _ituple(v):
    if isinstance(v, (tuple, list)):
        return tuple(int(x) for x in v)
    return (int(v),)


def uniform_nodes(lo, hi, n, nob_left, nob_right):
    """Nodes of a uniform partition of [lo, hi] with n cells (naive formula).

    With both nodes on the boundary the stride is (hi-lo)/(n-1); with none it is (hi-lo)/n and
    the first node sits half a stride inside; mixed: (hi-lo)/(n-1/2).
    """
    lo, hi = float(lo), float(hi)
    if n == 1:
        if nob_left and nob_right:
            raise ValueError('undefined')
        if nob_left:
            return (lo,)
        if nob_right:
            return (hi,)
        return ((lo + hi) / 2,)
    denom = n - 1 + (0 if nob_left else 0.5) + (0 if nob_right else 0.5)
    h = (hi - lo) / denom
    first = lo + (0 if nob_left else h / 2)
    return tuple(first + i * h for i in range(n))


def _nob_axes(nob, ndim):
    if isinstance(nob, bool):
        return [(nob, nob)] * ndim
    out = []
    for e in nob:
        out.append((e, e) if isinstance(e, bool) else (bool(e[0]), bool(e[1])))
    return out


def cell_volume(mins, maxs, shape, nob):
    """Volume of an inner cell of the uniform partition (product of the strides)."""
    mins, maxs, shape = _ftuple(mins), _ftuple(maxs), _ituple(shape)
    vol = 1.0
    for lo, hi, n, (l, r) in zip(mins, maxs, shape, _nob_axes(nob, len(shape))):
        if n == 1:
            vol *= (hi - lo)
        else:
            vol *= (hi - lo) / (n - 1 + (0 if l else 0.5) + (0 if r else 0.5))
    return vol


def _wkey_from_kind(wkind, warg, exponent, node, owner, impl='numpy'):
    """(strict, loose) identity of the weighting a space constructor creates.

    ``owner`` is 'T' (tensor space) or 'P' (product space): the concrete weighting class.  The
    docstrings say e.g. "True if other is a ConstWeighting instance with the same constant";
    whether instances of *different subclasses* with the same data are meant to be equal is
    left open, so the concrete class is part of the strict key only.
    """
    p = float(exponent)
    if wkind == 'W':
        return keys(warg, node)
    if wkind is None:
        k = ('const', impl, p, 1.0)
    elif wkind == 'const':
        k = ('const', impl, p, float(warg))
    elif wkind == 'arr':
        k = ('array', impl, p, warg)
    elif wkind == 'list':
        # array-like converted to a *new* array at every construction: identical to nothing else
        k = ('array', impl, p, ('fresh', node))
    elif wkind == 'inner':
        k = ('inner', impl, 2.0, warg)
    elif wkind == 'norm':
        k = ('norm', impl, 1.0, warg)
    elif wkind == 'dist':
        k = ('dist', impl, 1.0, warg)
    else:
        raise KeyError(wkind)
    return k + (owner,), k


_WCLS = {
    'ConstT': ('const', 'numpy'), 'ConstP': ('const', 'numpy'), 'ConstB': ('const', 'numpy'),
    'ConstBo': ('const', 'other'),
    'ArrT': ('array', 'numpy'), 'ArrP': ('array', 'numpy'), 'ArrB': ('array', 'numpy'),
    'MatB': ('matrix', 'numpy'), 'MatBs': ('matrix', 'numpy'),
    'InnerT': ('inner', 'numpy'), 'InnerP': ('inner', 'numpy'), 'InnerB': ('inner', 'numpy'),
    'NormT': ('norm', 'numpy'), 'NormP': ('norm', 'numpy'),
    'DistT': ('dist', 'numpy'), 'DistP': ('dist', 'numpy'),
}


def keys(recipe, node=None):
    """Return (strict, loose) documented identities of the object denoted by ``recipe``."""
    tag = recipe[0]
    if tag in ('Real', 'Complex', 'Int', 'Empty', 'Univ'):
        k = (tag,)
        return k, k
    if tag == 'Str':
        k = ('Str', int(recipe[1]))
        return k, k
    if tag == 'Cart':
        # "True if other is a CartesianProduct with the same sets" (ordered)
        ks = [keys(r, node) for r in recipe[1:]]
        return ('Cart', tuple(k[0] for k in ks)), ('Cart', tuple(k[1] for k in ks))
    if tag in ('Union', 'Inter'):
        # "has the same subsets"; duplicates ignored, order irrelevant (hash: "allow permutations")
        ks = [keys(r, node) for r in recipe[1:]]
        return (tag, frozenset(k[0] for k in ks)), (tag, frozenset(k[1] for k in ks))
    if tag == 'Fin':
        k = ('Fin', frozenset(recipe[1:]))         # Python equality of the elements
        return k, k
    if tag == 'IP':
        k = ('IP', _ftuple(recipe[1]), _ftuple(recipe[2]))
        return k, k
    if tag == 'Grid':
        k = ('Grid', tuple(_ftuple(v) for v in recipe[1:]))
        return k, k
    if tag == 'UGrid':
        mins, maxs, shape = _ftuple(recipe[1]), _ftuple(recipe[2]), _ituple(recipe[3])
        k = ('Grid', tuple(uniform_nodes(lo, hi, n, True, True) if n > 1 else (lo,)
                           for lo, hi, n in zip(mins, maxs, shape)))
        return k, k
    if tag == 'UPart':
        mins, maxs, shape = _ftuple(recipe[1]), _ftuple(recipe[2]), _ituple(recipe[3])
        nob = _nob_axes(recipe[4], len(shape))
        grid = tuple(uniform_nodes(lo, hi, n, l, r)
                     for lo, hi, n, (l, r) in zip(mins, maxs, shape, nob))
        k = ('Part', ('IP', mins, maxs), ('Grid', grid))
        return k, k
    if tag == 'Part':
        k = ('Part', keys(recipe[1])[0], keys(recipe[2])[0])
        return k, k
    if tag == 'W':
        kind, impl = _WCLS[recipe[1]]
        arg = recipe[2]
        if kind == 'const':
            k = ('const', impl, float(recipe[3]), float(arg))
        elif kind in ('array', 'matrix'):
            # "identical array / matrix": the sparse matrix is another object than the dense one
            k = (kind, impl, float(recipe[3]), ('sparse', arg) if recipe[1] == 'MatBs' else arg)
        elif kind == 'inner':
            k = ('inner', impl, 2.0, arg)
        else:
            k = (kind, impl, 1.0, arg)
        # concrete class: T(ensor space), P(roduct space), B(ase class)
        return k + (recipe[1][-1] if recipe[1][-1] in 'TP' else 'B',), k
    if tag == 'TS':
        _, shape, dtype, wkind, warg, exponent = recipe
        ws, wl = _wkey_from_kind(wkind, warg, exponent, node, 'T')
        sh = _ituple(shape) if shape != () else ()
        return (('TS', sh, np.dtype(dtype).str, ws), ('TS', sh, np.dtype(dtype).str, wl))
    if tag == 'UD':
        _, mins, maxs, shape, opts = recipe
        o = dict(opts)
        nob = o.get('nodes_on_bdry', False)
        pk = keys(('UPart', mins, maxs, shape, nob))[0]
        p = float(o.get('exponent', 2.0))
        dtype = o.get('dtype', 'float64')
        if 'weighting' in o:
            w = o['weighting']
            wk = (('array', 'numpy', p, w) if isinstance(w, str)
                  else ('const', 'numpy', p, float(w)))
        else:
            # "None: Use the cell volume as weighting constant (default)"
            wk = ('const', 'numpy', p, cell_volume(mins, maxs, shape, nob))
        tk = ('TS', _ituple(shape), np.dtype(dtype).str, wk + ('T',))
        tl = ('TS', _ituple(shape), np.dtype(dtype).str, wk)
        # DiscretizedSpace.__eq__: "True if other is a DiscretizedSpace with equal tspace";
        # the code also compares the partition -> partition only in the strict key
        return ('DS', pk, tk), ('DS', tl)
    if tag == 'DS':
        pk = keys(recipe[1], node)[0]
        tk, tl = keys(recipe[2], node)
        return ('DS', pk, tk), ('DS', tl)
    if tag in ('PS', 'PW'):
        if tag == 'PW':
            _, base, n, wkind, warg, exponent = recipe
            facs = (base,) * n
        else:
            _, facs, wkind, warg, exponent, _field = recipe
        ks = [keys(r, node) for r in facs]
        wk = _wkey_from_kind(wkind, warg, exponent, node, 'P')[0]
        # ProductSpace.__eq__: "is a ProductSpace instance, has the same length and the same
        # factors"; the code also compares the weighting -> weighting only in the strict key
        return (('PS', tuple(k[0] for k in ks), wk), ('PS', tuple(k[1] for k in ks)))
    raise KeyError(tag)


def family(recipe):
    tag = recipe[0]
    if tag in ('Real', 'Complex', 'Int', 'Empty', 'Univ', 'Str', 'Cart', 'Union', 'Inter',
               'Fin'):
        return 'set'
    if tag in ('IP', 'Grid', 'UGrid', 'UPart', 'Part'):
        return 'geom'
    if tag == 'W':
        return 'weighting'
    return 'space'


# ------------------------------------------------------------------------------------------
# the universe

R, C, Z, E, U = ('Real',), ('Complex',), ('Int',), ('Empty',), ('Univ',)


def _sets(thorough):
    out = [E, U, R, C, Z, ('Str', 1), ('Str', 2)]
    out += [('Cart',), ('Cart', R), ('Cart', R, R), ('Cart', R, C), ('Cart', C, R),
            ('Cart', R, Z), ('Cart', ('Cart', R, R)), ('Cart', ('Str', 2), R),
            ('Cart', ('IP', 0, 1), R), ('Cart', ('Union', R, Z)), ('Cart', ('Fin', 1, 2))]
    for tag in ('Union', 'Inter'):
        out += [(tag,), (tag, R), (tag, R, R), (tag, R, Z), (tag, Z, R), (tag, R, C),
                (tag, R, Z, C), (tag, ('Str', 1), R), (tag, ('Fin', 1, 2), R),
                (tag, (tag, R, Z))]
    out += [('Fin',), ('Fin', 1), ('Fin', 1, 2), ('Fin', 2, 1), ('Fin', 1, 1, 2), ('Fin', 'a'),
            ('Fin', 'a', 1), ('Fin', 1.0), ('Fin', 1, 2, 3), ('Fin', 0.0), ('Fin', -0.0)]
    if thorough:
        out += [('Str', 3), ('Cart', R, R, R), ('Cart', ('Cart', R), R), ('Cart', Z, Z),
                ('Cart', E), ('Cart', U), ('Cart', ('Inter', R, Z)),
                ('Union', R, ('Str', 1)), ('Union', E), ('Union', ('Inter', R, Z)),
                ('Inter', R, ('Str', 1)), ('Inter', U), ('Inter', ('Union', R, Z)),
                ('Fin', True), ('Fin', 3, 2, 1), ('Fin', 'b'), ('Fin', 1, 'a'), ('Fin', 0.5)]
    return out


def _geom(thorough):
    out = [('IP', 0, 1), ('IP', (0,), (1,)), ('IP', 0.0, 1.0), ('IP', -0.0, 1), ('IP', 0, 2),
           ('IP', -1, 1), ('IP', 0, 0), ('IP', (0, 0), (1, 1)), ('IP', (0, 0), (1, 2)),
           ('IP', (0, -0.0), (1, 1)), ('IP', (0, 0, 0), (1, 1, 1)), ('IP', (), ()),
           ('IP', 0.5, 1)]
    out += [('Grid', (0, 1)), ('Grid', (0.0, 1.0)), ('Grid', (-0.0, 1)), ('Grid', (0, 1, 2)),
            ('Grid', (0, 0.5, 1)), ('UGrid', 0, 1, 3), ('Grid', (0, 1), (0, 1)),
            ('Grid', (0, 1), (0, 1, 2)), ('Grid', (0,)), ('Grid', (0,), (0,)), ('Grid',),
            ('Grid', (-1, 0, 1)), ('Grid', (-1, -0.0, 1)), ('UGrid', -1, 1, 3),
            ('Grid', (0, 1), (-0.0, 1)), ('Grid', (0.25, 0.75))]
    out += [('UPart', 0, 1, 2, False), ('UPart', 0, 1, 2, True), ('UPart', 0, 1, 4, False),
            ('UPart', 0, 2, 2, False), ('UPart', -0.0, 1, 2, False),
            ('Part', ('IP', 0, 1), ('Grid', (0.25, 0.75))),
            ('Part', ('IP', -0.0, 1), ('Grid', (0.25, 0.75))),
            ('Part', ('IP', 0, 2), ('Grid', (0.25, 0.75))),      # same grid, other set
            ('Part', ('IP', 0, 1), ('Grid', (0, 1))),
            ('Part', ('IP', -1, 1), ('Grid', (-0.5, 0, 0.5))),
            ('Part', ('IP', -1, 1), ('Grid', (-0.5, -0.0, 0.5))),
            ('UPart', (0, 0), (1, 1), (2, 2), False), ('UPart', (0, 0), (1, 2), (2, 2), False),
            ('UPart', (0, 0, 0), (1, 1, 1), (2, 2, 2), False),
            ('UPart', (), (), (), False),
            ('Part', ('IP', 0, 3), ('Grid', (0.5, 1, 2.5)))]
    out += _perturbed_geometry(thorough)
    if thorough:
        out += [('IP', 1, 1), ('IP', (0, 1), (1, 1)), ('IP', (-1, 0), (1, 1)), ('IP', 0, 4),
                ('IP', (0, 0, 0), (1, 1, 2)), ('IP', (0, 0, 0, 0), (1, 1, 1, 1)),
                ('Grid', (1, 2)), ('Grid', (0, 1), (0, 1), (0, 1)), ('Grid', (0, 2)),
                ('Grid', (0, 1, 3)), ('UGrid', (0, 0), (1, 1), (2, 2)), ('Grid', (-0.0,)),
                ('Grid', (0, 1), (0,)), ('Grid', (0,), (0, 1)),
                ('UPart', 0, 1, 1, False), ('UPart', 0, 1.5, 3, False),
                ('UPart', 0, 3, 2, ((False, True),)), ('UPart', -1, 1, 4, False),
                ('UPart', (0, 0), (1, 1), (2, 2), True), ('UPart', (0, 0), (1, 1), (2, 4), False),
                ('UPart', (0, -0.0), (1, 1), (2, 2), False),
                ('Part', ('IP', (0, 0), (1, 1)), ('Grid', (0.25, 0.75), (0.25, 0.75))),
                ('Part', ('IP', 0, 1), ('Grid', (0.5,)))]
    return out


TINY = (1e-6, 1e-9)      # below rtol=1e-5 of np.allclose / is_uniform, and far below


def _perturb(vec, i, delta):
    v = list(float(x) for x in vec)
    v[i] = v[i] + delta
    return tuple(v)


def _perturbed_geometry(thorough):
    """Near-misses: objects that differ from a base object by a tiny amount in ONE float.

    Equality is documented / implemented as exact, while the library also has tolerance notions
    (approx_equals, is_uniform via allclose, isclose for nodes_on_bdry).  Every float parameter
    of grids, interval products and partitions is perturbed at the first, an interior and the
    last position.
    """
    base = (0, 1, 2, 3, 4)
    out = [('Grid', base), ('UGrid', 0, 4, 5)]
    deltas = TINY + ((-1e-6, 1e-1) if thorough else ())
    for i in ((0, 1, 4) if not thorough else range(5)):
        for d in deltas:
            out.append(('Grid', _perturb(base, i, d)))
    # 2-d: perturbation in one axis only
    out += [('Grid', (0, 1, 2), (0, 0.5, 1, 1.5)),
            ('Grid', (0, 1, 2), _perturb((0, 0.5, 1, 1.5), 1, 1e-7)),
            ('Grid', _perturb((0, 1, 2), 1, 1e-7), (0, 0.5, 1, 1.5))]
    # interval products
    for d in TINY:
        out += [('IP', 0, 1 + d), ('IP', d, 1), ('IP', (0, 0), (1, 1 + d))]
    # partitions: uniform vs. explicitly given (perturbed) nodes / set
    ip = ('IP', -0.5, 4.5)
    out += [('UPart', -0.5, 4.5, 5, False), ('Part', ip, ('Grid', base))]
    for i in (0, 2, 4):
        for d in TINY:
            out.append(('Part', ip, ('Grid', _perturb(base, i, d))))
    for d in TINY:
        out += [('Part', ('IP', -0.5, 4.5 + d), ('Grid', base)),
                ('Part', ('IP', -0.5 - d, 4.5), ('Grid', base))]
    return out


def _weightings(thorough):
    out = []
    cps = [(1.0, 2.0), (2.0, 2.0), (2.0, 1.0), (2.0, INF)]
    if thorough:
        cps += [(0.5, 2.0), (1.0, 1.0), (1.0, INF), (2, 2)]
    for c, p in cps:
        out += [('W', 'ConstT', c, p), ('W', 'ConstP', c, p)]
    out += [('W', 'ConstB', 2.0, 2.0), ('W', 'ConstBo', 2.0, 2.0)]
    for d in TINY:      # tiny perturbation of the constant / of the exponent
        out += [('W', 'ConstT', 2.0 + d, 2.0), ('W', 'ConstT', 2.0, 2.0 + d),
                ('W', 'ConstP', 2.0 + d, 2.0)]
    for cls in ('ArrT', 'ArrP'):
        out += [('W', cls, 'A2', 2.0), ('W', cls, 'A2c', 2.0), ('W', cls, 'B2', 2.0),
                ('W', cls, 'A2', 1.0)]
    out += [('W', 'ArrB', 'A2', 2.0), ('W', 'ArrT', 'A22', 2.0), ('W', 'ArrT', 'A22c', 2.0),
            ('W', 'ArrT', 'M2', 2.0)]
    out += [('W', 'MatB', 'M2', 2.0), ('W', 'MatB', 'M2c', 2.0), ('W', 'MatB', 'M2', 1.0),
            ('W', 'MatBs', 'M2', 2.0)]
    for kind in ('Inner', 'Norm', 'Dist'):
        for cls in ('T', 'P'):
            out += [('W', kind + cls, 'f', None), ('W', kind + cls, 'g', None)]
        out += [('W', kind + 'T', 'm', None)]
    out += [('W', 'InnerB', 'f', None)]
    return out


def _tensor_spaces(thorough):
    def ts(shape, dtype='float64', wkind=None, warg=None, exponent=2.0):
        return ('TS', shape, dtype, wkind, warg, exponent)
    out = [ts(1), ts(2), ts(3), ts((2, 2)), ts((2, 3)), ts((3, 2)), ts(0), ts(()),
           ts(2, 'float32'), ts(2, 'complex128'), ts(2, 'complex64'), ts(2, 'int64'),
           ts(2, 'int32'), ts(2, 'bool'), ts(2, '<U2'), ts(2, '<U3'),
           ts(2, wkind='const', warg=1.0), ts(2, wkind='const', warg=2.0),
           ts(2, wkind='const', warg=2), ts(2, wkind='const', warg=0.5),
           ts(2, wkind='arr', warg='A2'), ts(2, wkind='arr', warg='A2c'),
           ts(2, wkind='arr', warg='B2'), ts(2, wkind='list', warg='A2'),
           ts(2, exponent=1.0), ts(2, exponent=INF), ts(2, wkind='const', warg=2.0, exponent=1.0),
           ts(2, wkind='arr', warg='A2', exponent=1.0),
           ts(2, wkind='inner', warg='f'), ts(2, wkind='inner', warg='g'),
           ts(2, wkind='norm', warg='f'), ts(2, wkind='dist', warg='f'),
           ts(2, wkind='inner', warg='m'),
           ts(2, wkind='W', warg=('W', 'ConstT', 2.0, 2.0)),
           ts(2, wkind='W', warg=('W', 'ConstP', 2.0, 2.0)),
           ts(2, wkind='W', warg=('W', 'ArrT', 'A2', 2.0)),
           ts(2, 'complex128', 'const', 2.0), ts(2, 'float32', 'const', 2.0),
           ts((2, 2), wkind='arr', warg='A22'), ts((2, 2), wkind='arr', warg='A22c'),
           ts((2, 2), wkind='const', warg=2.0), ts(3, wkind='arr', warg='A3'),
           ts(2, 'int64', 'const', 2.0),
           # half precision: its complex counterpart (complex64) has another real counterpart
           ts(2, 'float16'), ts(2, 'float16', 'const', 2.0),
           # axes of length 1 in every position
           ts((3, 1)), ts((1, 3)), ts((2, 1, 3)),
           ts(2, wkind='const', warg=2.0 + 1e-9), ts(2, exponent=2.0 + 1e-9),
           ts(2, wkind='const', warg=2.0 + 1e-6), ts(2, exponent=1.0 + 1e-6)]
    if thorough:
        out += [ts((1, 1)), ts((1, 2, 3)), ts((2, 3, 1)), ts((1, 1, 3)), ts((1, 3, 1)),
                ts((3, 1, 1)), ts((3, 1), 'float32'), ts((1, 3), 'complex128'),
                ts((3, 1), wkind='const', warg=2.0)]
        out += [ts(4), ts((1, 2)), ts((2, 1)), ts((2, 2, 2)), ts((0, 2)),
                ts(2, 'uint8'), ts(2, 'S2'), ts(3, 'float32'), ts(3, 'complex128'),
                ts((2, 3), 'float32'), ts(2, exponent=1.5), ts(2, exponent=2),
                ts(2, wkind='norm', warg='g'), ts(2, wkind='dist', warg='g'),
                ts(2, wkind='norm', warg='m'), ts(2, wkind='dist', warg='m'),
                ts(2, wkind='W', warg=('W', 'ArrP', 'A2', 2.0)),
                ts(2, wkind='W', warg=('W', 'InnerP', 'f', None)),
                ts(2, wkind='W', warg=('W', 'ConstB', 2.0, 2.0)),
                ts(2, 'complex128', 'arr', 'A2'), ts(2, 'complex64', 'const', 2.0),
                ts(3, wkind='arr', warg='A3c'), ts(3, wkind='const', warg=2.0),
                ts((2, 3), wkind='arr', warg='A23'), ts((2, 3), wkind='const', warg=2.0),
                ts(2, wkind='const', warg=2.0, exponent=INF), ts(2, 'float32', exponent=1.0)]
        # full product shape x dtype x weighting x exponent
        arr_of = {(2,): 'A2', (3,): 'A3', (2, 2): 'A22'}
        for shape in [2, 3, (2, 2)]:
            for dtype in ['float64', 'float32', 'complex128']:
                for wkind, warg in [(None, None), ('const', 2.0), ('arr', None)]:
                    for p in [2.0, 1.0, INF]:
                        if wkind == 'arr':
                            if dtype == 'float32':
                                continue    # float64 weights are refused for a float32 space
                            warg = arr_of[_ituple(shape)]
                        out.append(ts(shape, dtype, wkind, warg, p))
    return out


def _discr_spaces(thorough):
    def ud(mins, maxs, shape, **o):
        return ('UD', mins, maxs, shape, tuple(sorted(o.items())))
    out = [ud(0, 1, 2), ud(0, 1, 4), ud(0, 2, 2), ud(-0.0, 1, 2), ud(0, 1, 2, nodes_on_bdry=True),
           ud(0, 2, 2, weighting=0.5),                             # same tspace, other partition
           ud(0, 1, 2, dtype='float32'), ud(0, 1, 2, dtype='complex128'),
           ud(0, 1, 2, exponent=1.0), ud(0, 1, 2, weighting=2.0), ud(0, 1, 2, weighting=0.5),
           ud(0, 1, 2, weighting='A2'), ud(0, 1, 2, weighting='A2c'),
           ud(0, 1, 2, axis_labels=('t',)),
           ud((0, 0), (1, 1), (2, 2)), ud((0, 0), (1, 2), (2, 2)), ud((0, 0), (1, 2), (2, 4)),
           ud(-1, 1, 4),
           ('DS', ('UPart', 0, 1, 2, False), ('TS', 2, 'float64', 'const', 0.5, 2.0), None),
           ('DS', ('UPart', 0, 1, 2, False), ('TS', 2, 'float64', None, None, 2.0), None),
           ('DS', ('Part', ('IP', -0.0, 1), ('Grid', (0.25, 0.75))),
            ('TS', 2, 'float64', 'const', 0.5, 2.0), None),
           ('DS', ('Part', ('IP', -1, 1), ('Grid', (-0.5, -0.0, 0.5))),
            ('TS', 3, 'float64', None, None, 2.0), None),
           ('DS', ('Part', ('IP', -1, 1), ('Grid', (-0.5, 0, 0.5))),
            ('TS', 3, 'float64', None, None, 2.0), None)]
    out.append(ud(0, 1, 2, dtype='float16'))
    out += [ud((0, 0), (1, 1), (4, 1)), ud((0, 0), (1, 1), (1, 4))]    # axis of length 1
    if thorough:
        out += [ud((0, 0, 0), (1, 1, 1), (2, 1, 2)), ud((0, 0), (1, 1), (1, 1))]
    # same tspace, partitions that differ by a tiny amount in one node / one end point
    t5 = ('TS', 5, 'float64', None, None, 2.0)
    ip = ('IP', -0.5, 4.5)
    base = (0, 1, 2, 3, 4)
    out += [('DS', ('UPart', -0.5, 4.5, 5, False), t5, None),
            ('DS', ('Part', ip, ('Grid', base)), t5, None)]
    for i in (0, 2, 4):
        out.append(('DS', ('Part', ip, ('Grid', _perturb(base, i, 1e-6))), t5, None))
    out += [('DS', ('Part', ('IP', -0.5, 4.5 + 1e-6), ('Grid', base)), t5, None),
            ud(0, 1 + 1e-6, 2, weighting=0.5), ud(1e-9, 1, 2, weighting=0.5)]
    if thorough:
        for d in TINY:
            out.append(('DS', ('Part', ip, ('Grid', _perturb(base, 1, d))), t5, None))
            out.append(('DS', ('Part', ('IP', -0.5 - d, 4.5), ('Grid', base)), t5, None))
    if thorough:
        out += [ud(0, 1.5, 3), ud(0, 1, 1), ud(0, 4, 2), ud(0, 1, 2, dtype='int64'),
                ud(0, 1, 2, dtype='complex64'), ud(0, 1, 2, exponent=1.0, weighting=2.0),
                ud(0, 1, 2, exponent=INF, weighting=1.0),
                ud(0, 1, 2, dtype='complex128', weighting=2.0),
                ud((0, 0), (1, 1), (2, 2), nodes_on_bdry=True),
                ud((0, 0), (1, 1), (2, 2), weighting=2.0),
                ud((0, 0), (1, 1), (2, 2), weighting='A22'),
                ud((0, 0, 0), (1, 1, 1), (2, 2, 2)), ud((), (), ()),
                ('DS', ('Part', ('IP', 0, 3), ('Grid', (0.5, 1, 2.5))),
                 ('TS', 3, 'float64', None, None, 2.0), None),
                ('DS', ('UPart', 0, 1, 2, False), ('TS', 2, 'float64', 'inner', 'f', 2.0), None)]
        # full product domain x dtype x nodes_on_bdry x exponent
        for mins, maxs, shape in [(0, 1, 2), (0, 2, 2), (0, 1, 4), ((0, 0), (1, 2), (2, 4))]:
            for dtype in ['float64', 'complex128']:
                for nob in [False, True]:
                    for p in [2.0, 1.0]:
                        o = {}
                        if dtype != 'float64':
                            o['dtype'] = dtype
                        if nob:
                            o['nodes_on_bdry'] = True
                        if p != 2.0:
                            o['exponent'] = p
                        out.append(ud(mins, maxs, shape, **o))
    return out


def _product_spaces(thorough):
    r1 = ('TS', 1, 'float64', None, None, 2.0)
    r2 = ('TS', 2, 'float64', None, None, 2.0)
    r3 = ('TS', 3, 'float64', None, None, 2.0)
    r2w = ('TS', 2, 'float64', 'const', 2.0, 2.0)
    r2f = ('TS', 2, 'float32', None, None, 2.0)
    c2 = ('TS', 2, 'complex128', None, None, 2.0)
    ud2 = ('UD', 0, 1, 2, ())

    def ps(facs, wkind=None, warg=None, exponent=2.0, field=None):
        return ('PS', tuple(facs), wkind, warg, exponent, field)

    def pw(base, n, wkind=None, warg=None, exponent=2.0):
        return ('PW', base, n, wkind, warg, exponent)
    r31 = ('TS', (3, 1), 'float64', None, None, 2.0)
    r13 = ('TS', (1, 3), 'float64', None, None, 2.0)
    out = [pw(r2, 2), ps([r2, r2]), pw(r2, 3), pw(r2, 1), pw(r1, 2), ps([r2, r3]), ps([r3, r2]),
           pw(r31, 2), ps([r31, r13]),                      # factors with an axis of length 1
           ps([r2, r2w]), pw(r2w, 2), pw(r2f, 2), pw(c2, 2), pw(ud2, 2),
           pw(r2, 2, 'const', 1.0), pw(r2, 2, 'const', 2.0), pw(r2, 2, 'const', 2),
           pw(r2, 2, 'arr', 'A2'), pw(r2, 2, 'arr', 'A2c'), pw(r2, 2, 'arr', 'B2'),
           pw(r2, 2, 'list', 'A2'), pw(r2, 2, exponent=1.0), pw(r2, 2, exponent=INF),
           pw(r2, 2, 'const', 2.0, 1.0), pw(r2, 2, 'inner', 'f'), pw(r2, 2, 'norm', 'f'),
           pw(r2, 2, 'dist', 'f'), pw(r2, 2, 'inner', 'g'),
           pw(r2, 2, 'W', ('W', 'ConstP', 2.0, 2.0)), pw(r2, 2, 'W', ('W', 'ConstT', 2.0, 2.0)),
           pw(r2, 2, 'W', ('W', 'ArrP', 'A2', 2.0)), pw(r2, 2, 'W', ('W', 'ArrT', 'A2', 2.0)),
           ps([], field=R), ps([], field=C), pw(r2, 0),
           pw(pw(r2, 2), 2), pw(pw(r1, 2), 2), ps([pw(r2, 2), pw(r2, 2)]),
           ps([pw(r2, 2), r2]), pw(pw(r2, 2, 'const', 2.0), 2), pw(pw(r2, 2), 2, 'const', 2.0),
           pw(r2, 3, 'arr', 'A3')]
    if thorough:
        out += [pw(r3, 2), pw(r3, 3), ps([r2, r2, r2]), ps([r1, r2, r3]), ps([ud2, ud2]),
                ps([c2, c2]), pw(c2, 2, 'const', 2.0), pw(r2, 2, 'const', 0.5),
                pw(r2, 2, 'arr', 'E2'), pw(r2, 2, 'arr', 'A2', 1.0), pw(r2, 2, exponent=1.5),
                pw(r2, 2, 'norm', 'g'), pw(r2, 2, 'dist', 'g'), pw(r2, 2, 'inner', 'm'),
                pw(ud2, 2, 'const', 2.0), pw(ud2, 3), pw(pw(r2, 2), 3), pw(pw(r2, 3), 2),
                pw(pw(pw(r1, 2), 2), 2), pw(pw(r2, 2, 'arr', 'A2'), 2),
                ps([pw(r2, 2), pw(r2, 2, 'const', 2.0)]), pw(c2, 0),
                ps([r2, r2], 'arr', 'A2'), ps([r2, r3], 'arr', 'A2'), ps([r2, r3], 'const', 2.0)]
        # full product base x length x weighting x exponent
        for base in [r2, c2, ud2]:
            for n in [2, 3]:
                for wkind, warg in [(None, None), ('const', 2.0), ('arr', 'A2' if n == 2 else 'A3')]:
                    for p in [2.0, 1.0]:
                        out.append(pw(base, n, wkind, warg, p))
    return out


def one_field_variants(thorough):
    """Systematic near-misses: for a base object of every composite class one variant per
    defining field that differs in THAT field only (and is otherwise value-equal).

    Returns a list of (class, field, base_recipe, variant_recipe); the recipes enter the universe,
    so every == / != / hash / `in` / element() clause is exercised on pairs that differ in
    exactly one field, in both operand orders.
    """
    out = []

    def add(cls, field, base, *variants):
        for v in variants:
            out.append((cls, field, base, v))

    # IntervalProd: min_pt, max_pt (1-d and one axis of 2-d)
    add('IntervalProd', 'min_pt', ('IP', 0, 1), ('IP', -0.25, 1))
    add('IntervalProd', 'max_pt', ('IP', 0, 1), ('IP', 0, 1.5))
    b = ('IP', (0, 0), (1, 2))
    add('IntervalProd', 'min_pt', b, ('IP', (-0.5, 0), (1, 2)), ('IP', (0, -0.5), (1, 2)))
    add('IntervalProd', 'max_pt', b, ('IP', (0, 0), (1.5, 2)), ('IP', (0, 0), (1, 2.5)))
    # RectGrid: one coordinate vector (first / interior / last node), other axis
    g = (0, 0.5, 1)
    b = ('Grid', g, (0, 1))
    add('RectGrid', 'coord_vectors[0]', b, ('Grid', (-0.5, 0.5, 1), (0, 1)),
        ('Grid', (0, 0.25, 1), (0, 1)), ('Grid', (0, 0.5, 1.5), (0, 1)))
    add('RectGrid', 'coord_vectors[1]', b, ('Grid', g, (0, 2)))
    add('RectGrid', 'coord_vectors[0]', ('Grid', g), ('Grid', (0, 0.25, 1)))
    # RectPartition: set (same grid) and grid (same set, same shape); the base has all its outer
    # nodes on the boundary, the variants have none / only one side
    p1 = ('Part', ('IP', 0, 1), ('Grid', g))
    set_variants = [('Part', ('IP', -0.25, 1.25), ('Grid', g)),     # = cell-centred uniform
                    ('Part', ('IP', 0, 1.5), ('Grid', g)), ('Part', ('IP', -0.5, 1), ('Grid', g)),
                    ('Part', ('IP', -1, 2), ('Grid', g))]
    add('RectPartition', 'set', p1, *set_variants)
    add('RectPartition', 'set', ('UPart', 0, 1, 3, True), ('UPart', -0.25, 1.25, 3, False))
    add('RectPartition', 'grid', p1, ('Part', ('IP', 0, 1), ('Grid', (0, 0.25, 1))),
        ('Part', ('IP', 0, 1), ('Grid', (0.25, 0.5, 0.75))))
    q1 = ('Part', ('IP', (0, 0), (1, 1)), ('Grid', g, g))
    add('RectPartition', 'set', q1, ('Part', ('IP', (0, 0), (1, 1.5)), ('Grid', g, g)),
        ('Part', ('IP', (-0.25, 0), (1, 1)), ('Grid', g, g)),
        ('Part', ('IP', (-0.25, -0.25), (1.25, 1.25)), ('Grid', g, g)))
    add('RectPartition', 'grid', q1, ('Part', ('IP', (0, 0), (1, 1)), ('Grid', g, (0, 0.25, 1))))
    # DiscretizedSpace: partition.set, partition.grid, tspace (dtype, exponent, weighting), labels
    t3 = ('TS', 3, 'float64', 'const', 0.5, 2.0)
    d1 = ('DS', p1, t3, None)
    add('DiscretizedSpace', 'partition.set', d1, *[('DS', v, t3, None) for v in set_variants[:3]])
    add('DiscretizedSpace', 'partition.set',
        ('UD', 0, 1, 3, (('nodes_on_bdry', True), ('weighting', 0.5))), ('UD', -0.25, 1.25, 3, ()))
    add('DiscretizedSpace', 'partition.grid', d1,
        ('DS', ('Part', ('IP', 0, 1), ('Grid', (0, 0.25, 1))), t3, None))
    add('DiscretizedSpace', 'tspace.dtype', d1, ('DS', p1, ('TS', 3, 'float32', 'const', 0.5, 2.0),
                                                  None))
    add('DiscretizedSpace', 'tspace.exponent', d1, ('DS', p1, ('TS', 3, 'float64', 'const', 0.5,
                                                               1.0), None))
    add('DiscretizedSpace', 'tspace.weighting', d1,
        ('DS', p1, ('TS', 3, 'float64', 'const', 1.0, 2.0), None),
        ('DS', p1, ('TS', 3, 'float64', 'arr', 'A3', 2.0), None))
    add('DiscretizedSpace', 'axis_labels', d1, ('DS', p1, t3, ('t',)))
    t33 = ('TS', (3, 3), 'float64', 'const', 0.25, 2.0)
    add('DiscretizedSpace', 'partition.set', ('DS', q1, t33, None),
        ('DS', ('Part', ('IP', (0, 0), (1, 1.5)), ('Grid', g, g)), t33, None))
    # ProductSpace: one part, exponent, weighting
    r2 = ('TS', 2, 'float64', None, None, 2.0)
    r3 = ('TS', 3, 'float64', None, None, 2.0)
    r2f = ('TS', 2, 'float32', None, None, 2.0)
    pb = ('PW', r2, 2, 'arr', 'A2', 2.0)
    add('ProductSpace', 'spaces', pb, ('PS', (r2, r3), 'arr', 'A2', 2.0, None),
        ('PS', (r2, r2f), 'arr', 'A2', 2.0, None))
    add('ProductSpace', 'exponent', pb, ('PW', r2, 2, 'arr', 'A2', 1.0))
    add('ProductSpace', 'weighting', pb, ('PW', r2, 2, 'arr', 'B2', 2.0),
        ('PW', r2, 2, 'arr', 'A2c', 2.0), ('PW', r2, 2, 'const', 2.0, 2.0))
    # weightings: array / const / exponent / callable
    wb = ('W', 'ArrT', 'A2', 2.0)
    add('ArrayWeighting', 'array', wb, ('W', 'ArrT', 'B2', 2.0), ('W', 'ArrT', 'A2c', 2.0))
    add('ArrayWeighting', 'exponent', wb, ('W', 'ArrT', 'A2', 1.0))
    add('ConstWeighting', 'const', ('W', 'ConstT', 2.0, 2.0), ('W', 'ConstT', 1.0, 2.0))
    add('ConstWeighting', 'exponent', ('W', 'ConstT', 2.0, 2.0), ('W', 'ConstT', 2.0, 1.0))
    add('MatrixWeighting', 'matrix', ('W', 'MatB', 'M2', 2.0), ('W', 'MatB', 'M2c', 2.0))
    add('CustomInner', 'inner', ('W', 'InnerT', 'f', None), ('W', 'InnerT', 'g', None))
    # tensor spaces: shape, dtype, weighting, exponent
    add('NumpyTensorSpace', 'shape', r2, r3)
    add('NumpyTensorSpace', 'dtype', r2, r2f)
    add('NumpyTensorSpace', 'weighting', r2, ('TS', 2, 'float64', 'const', 2.0, 2.0))
    add('NumpyTensorSpace', 'exponent', r2, ('TS', 2, 'float64', None, None, 1.0))
    return out


def arrays_used(recipe):
    """Names of the pool arrays that the object keeps BY REFERENCE according to the documentation
    (array / matrix weightings: "identical array"); weights given as lists are converted."""
    out = []

    def walk(r):
        if not isinstance(r, tuple) or not r:
            return
        tag = r[0]
        if tag == 'W' and r[1] in ('ArrT', 'ArrP', 'ArrB', 'MatB'):
            out.append(r[2])
        elif tag == 'TS' and r[3] == 'arr':
            out.append(r[4])
        elif tag in ('PW', 'PS') and r[-4 if tag == 'PS' else -3] == 'arr':
            out.append(r[-3 if tag == 'PS' else -2])
        elif tag == 'UD' and isinstance(dict(r[4]).get('weighting'), str):
            out.append(dict(r[4])['weighting'])
        for e in r[1:]:
            if isinstance(e, tuple):
                if e and isinstance(e[0], str) and e[0][:1].isupper():
                    walk(e)
                else:
                    for f in e:
                        walk(f)
    walk(recipe)
    seen = []
    for n in out:
        if n not in seen:
            seen.append(n)
    return seen


def universe(tier):
    """List of recipes, simplest first, unique."""
    th = tier == 'thorough'
    out = []
    seen = set()
    variants = []
    for _, _, b, v in one_field_variants(th):
        variants += [b, v]
    for r in (_sets(th) + _geom(th) + _weightings(th) + _tensor_spaces(th) + _discr_spaces(th)
              + _product_spaces(th) + variants):
        n = name(r)
        if n not in seen:
            seen.add(n)
            out.append(r)
    return out


def space_recipes(tier):
    return [r for r in universe(tier) if family(r) == 'space']


# ------------------------------------------------------------------------------------------
# attributes of a space recipe according to the constructor documentation

def space_shape(recipe):
    tag = recipe[0]
    if tag == 'TS':
        return _ituple(recipe[1]) if recipe[1] != () else ()
    if tag == 'UD':
        return _ituple(recipe[3]) if recipe[3] != () else ()
    if tag == 'DS':
        return space_shape(recipe[2])
    raise KeyError(tag)


def space_dtype(recipe):
    tag = recipe[0]
    if tag == 'TS':
        return np.dtype(recipe[2])
    if tag == 'UD':
        return np.dtype(dict(recipe[4]).get('dtype', 'float64'))
    if tag == 'DS':
        return space_dtype(recipe[2])
    if tag == 'PW':
        return space_dtype(recipe[1])
    if tag == 'PS':
        ds = set(space_dtype(r) for r in recipe[1])
        return ds.pop() if len(ds) == 1 else None
    raise KeyError(tag)


def field_of_dtype(dtype):
    """Documented field: real for real dtypes incl. integers, complex for complex, else None."""
    dtype = np.dtype(dtype)
    if dtype.kind in 'iuf':
        return 'Real'
    if dtype.kind == 'c':
        return 'Complex'
    return None


REAL_OF = {'complex64': 'float32', 'complex128': 'float64'}
# numpy has no half-precision complex type: complex64 is the smallest one that holds float16
COMPLEX_OF = {'float16': 'complex64', 'float32': 'complex64', 'float64': 'complex128'}


def counterpart(dtype, which):
    """dtype of real_space / complex_space for the standard precisions, else None."""
    n = np.dtype(dtype).name
    if which == 'real':
        if np.dtype(dtype).kind in 'iuf':
            return np.dtype(dtype)
        return np.dtype(REAL_OF[n]) if n in REAL_OF else None
    if np.dtype(dtype).kind == 'c':
        return np.dtype(dtype)
    return np.dtype(COMPLEX_OF[n]) if n in COMPLEX_OF else None


# ------------------------------------------------------------------------------------------
# values

def near_miss_shapes(sh):
    """Shapes with the same number of entries as ``sh`` that differ from it only in WHERE the
    axes of length 1 are, in the NUMBER of leading axes of length 1, or by a permutation of the
    axes (simplest first, ``sh`` itself excluded)."""
    sh = tuple(sh)
    cands = []
    if sh:
        cands += sorted(set(itertools.permutations(sh)))
        squeezed = tuple(n for n in sh if n != 1)
        cands.append(squeezed)
        lead = sh
        while lead and lead[0] == 1:
            lead = lead[1:]
            cands.append(lead)
        # singleton axes moved to every position of the squeezed shape
        k = len(sh) - len(squeezed)
        if 0 < k <= 2:
            for pos in itertools.combinations(range(len(sh)), k):
                it = iter(squeezed)
                cands.append(tuple(1 if i in pos else next(it) for i in range(len(sh))))
    cands += [(1,) + sh, (1, 1) + sh, sh + (1,)]
    out = []
    for c in cands:
        if c != sh and c not in out:
            out.append(c)
    return out


def values(shape, dtype, salt=0):
    """Deterministic dyadic test data of the given shape and dtype (all entries distinct)."""
    dtype = np.dtype(dtype)
    n = int(np.prod(shape)) if shape != () else 1
    base = np.arange(n, dtype=float)
    if dtype.kind in 'fc':
        v = (base - 2.0) * 0.5 + salt          # -1, -0.5, 0, 0.5, ...
        if dtype.kind == 'c':
            v = v + 1j * (base + 1.0 + salt)
    elif dtype.kind in 'iu':
        v = base + 1 + salt
    elif dtype.kind == 'b':
        v = (base.astype(int) + salt) % 2 == 0
    elif dtype.kind in 'US':
        v = np.array([chr(ord('a') + (int(i) + salt) % 26) for i in base])
    else:
        raise KeyError(dtype)
    return np.array(v).astype(dtype).reshape(shape)


# ------------------------------------------------------------------------------------------
# index alphabets

def axis_slices(n, steps=(None, 1, 2, -1)):
    vals = [None, 0, 1, -1, n]
    out = []
    for a in vals:
        for b in vals:
            for s in steps:
                out.append(slice(a, b, s))
    return out


def index_alphabet(shape, thorough):
    """Index expressions for an array of the given shape (ints, slices, Ellipsis, newaxis,
    lists, boolean and integer arrays, tuples mixing them)."""
    nd = len(shape)
    out = []
    if nd == 0:
        return [(), Ellipsis]
    n = shape[0]
    ints = list(range(-n, n))
    out += ints
    out += axis_slices(n, (None, 1, 2, -1) if thorough else (None, 2, -1))
    out += [Ellipsis, None, ()]
    lists = [[0], [n - 1, 0], [0, 0], list(range(n)), [-1]]
    out += lists
    out += [np.array(l) for l in lists[:3]]
    for mask in itertools.product([False, True], repeat=n):
        out.append(np.array(mask))
        if thorough:
            out.append(list(mask))
    if nd >= 2:
        m = shape[1]
        ax0 = [0, -1, slice(None), slice(1, None), slice(None, None, 2), slice(0, 0), [0],
               [n - 1, 0]]
        ax1 = [0, -1, m - 1, slice(None), slice(1, None), slice(None, -1), slice(None, None, -1),
               [0], [m - 1, 0]]
        if thorough:
            ax0 += [slice(None, None, -1), slice(-1, None), None]
            ax1 += [slice(None, None, 2), slice(0, 0), None, slice(-1, None)]
        for a in ax0:
            for b in ax1:
                out.append((a, b))
        out += [(Ellipsis, 0), (0, Ellipsis), (Ellipsis, slice(1, None)), (None, 0),
                (slice(None), None), (Ellipsis, None), (np.array([0, 1]), np.array([1, 0])),
                (slice(None), np.array([True] + [False] * (m - 1)))]
        out.append(np.array(values(shape[:2], 'bool')))
    if nd >= 3:
        out += [(0, 0, 0), (slice(None), 0, slice(None)), (0, Ellipsis, 0), (Ellipsis, 0, 0),
                (slice(None), slice(None), slice(1, None)), (-1, slice(None), [0])]
    return out


def index_name(idx):
    if isinstance(idx, tuple):
        return '(' + ','.join(index_name(i) for i in idx) + (',)' if len(idx) == 1 else ')')
    if isinstance(idx, slice):
        f = lambda v: '' if v is None else str(v)
        return f(idx.start) + ':' + f(idx.stop) + ('' if idx.step is None else ':' + str(idx.step))
    if idx is Ellipsis:
        return '...'
    if isinstance(idx, np.ndarray):
        return 'array(%s)' % idx.tolist()
    return repr(idx)


def index_class(idx):
    """Coarse class of an index expression (used in sites / signatures)."""
    items = idx if isinstance(idx, tuple) else (idx,)
    kinds = set()
    for i in items:
        if isinstance(i, (int, np.integer)) and not isinstance(i, (bool, np.bool_)):
            kinds.add('int')
        elif isinstance(i, slice):
            kinds.add('slice')
        elif i is Ellipsis:
            kinds.add('ellipsis')
        elif i is None:
            kinds.add('newaxis')
        elif isinstance(i, list):
            kinds.add('list')
        elif isinstance(i, np.ndarray):
            kinds.add('boolarray' if i.dtype == bool else 'intarray')
        else:
            kinds.add(type(i).__name__)
    if isinstance(idx, tuple):
        return 'tuple(' + '+'.join(sorted(kinds)) + ')'
    return '+'.join(sorted(kinds))


def pspace_index_alphabet(n, depth, thorough):
    """Index expressions for a product space with n factors (nested to ``depth`` levels)."""
    out = list(range(-n, n)) if n else []
    sl = [slice(None), slice(0, 1), slice(1, None), slice(None, -1), slice(None, None, 2),
          slice(None, None, -1), slice(0, 0), slice(n, None)]
    if thorough:
        sl += [slice(-1, None), slice(1, 0), slice(None, None, 3), slice(-2, -1)]
    out += sl
    lists = [[0], [n - 1, 0], [0, 0], list(range(n))] if n else [[]]
    out += lists
    out += [(), (0,), (slice(None),)] if n else [()]
    if depth >= 2 and n:
        for a in [0, -1, slice(None), slice(1, None), slice(0, 0)]:
            for b in [0, -1, slice(None), slice(0, 1), [0]]:
                out.append((a, b))
        out += [([0], 0), ([n - 1, 0], slice(None))]
    if depth >= 3 and n:
        out += [(0, 0, 0), (slice(None), 0, 0), (slice(None), slice(None), 0), (0, slice(None), 1)]
    return out


def select_factors(facs, idx):
    """Model of ``ProductSpace.__getitem__`` on a nested list of factors.

    ``facs`` is a list whose entries are leaves (anything that is not a list) or nested lists.
    Returns ('leaf', x), ('prod', [..]) or ('error', exception type).
    Documented: integers pick components, slices ranges, lists stack components, tuples index
    recursively; "remaining indices cannot be passed down to component spaces that are not
    product spaces".
    """
    def wrap(x):
        return ('prod', x) if isinstance(x, list) else ('leaf', x)
    if isinstance(idx, (int, np.integer)):
        try:
            return wrap(facs[idx])
        except IndexError:
            return ('error', IndexError)
    if isinstance(idx, slice):
        return ('prod', facs[idx])
    if isinstance(idx, list):
        try:
            return ('prod', [facs[i] for i in idx])
        except IndexError:
            return ('error', IndexError)
    if isinstance(idx, tuple):
        if not idx:
            return ('prod', facs)
        first, rest = idx[0], idx[1:]
        if isinstance(first, (int, np.integer)):
            try:
                sub = facs[first]
            except IndexError:
                return ('error', IndexError)
            if not rest:
                return wrap(sub)
            if isinstance(sub, list):
                return select_factors(sub, rest)
            return ('error', IndexError)
        if isinstance(first, slice):
            subs = facs[first]
            if not rest:
                return ('prod', subs)
            if not subs or not all(isinstance(s, list) for s in subs):
                return ('error', IndexError)
            res = []
            for s in subs:
                r = select_factors(s, rest)
                if r[0] == 'error':
                    return r
                res.append(r[1])
            return ('prod', res)
        return ('error', TypeError)
    return ('error', TypeError)


def select_weights(w, idx):
    """Selected entries of a per-factor weight vector for a first-level index."""
    w = list(w)
    if isinstance(idx, tuple):
        if not idx:
            return w
        idx = idx[0]
    if isinstance(idx, (int, np.integer)):
        return None
    if isinstance(idx, slice):
        return w[idx]
    if isinstance(idx, list):
        return [w[i] for i in idx]
    return None
