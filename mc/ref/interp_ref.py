"""Reference model for C15: sampling by a Python loop, interpolation weights by bisection.

Deliberately naive, exact rational arithmetic (``fractions.Fraction`` of the binary floating
point inputs, so nothing is rounded before the final conversion), no code shared with odl.

Documented behaviour that is modelled (odl/discr/discr_utils.py):

* ``nearest_interpolator``: "I(x) = f[j] with j such that |x - x[j]| is minimal.  The ambiguity
  at the midpoints is resolved by preferring the right neighbor.  In higher dimensions, this
  principle is applied per axis."  Outside the hull of the nodes the closest node is the first
  / last one.
* ``linear_interpolator``: (multi)linear blend of the two surrounding nodes per axis; outside
  the hull: "the value is interpolated between the last value 5.0 and 0.0.  The extra
  interpolation node is placed at the same distance as the second-to-last" -- i.e. a virtual
  node with value 0 one neighbouring node spacing outside.  Farther out than that virtual node
  nothing is documented -> ``None`` (unspecified).
* ``per_axis_interpolator``: the scheme is chosen per axis, the weight of a node is the
  product of its per-axis weights.
* an axis with a single node: nearest is the value of the only node; linear reproduces the
  node value AT the node (the property's node reproduction clause) and is unspecified elsewhere
  (no "surrounding nodes", no neighbouring spacing for the virtual zero node).
"""
import itertools
from fractions import Fraction

import numpy as np


def _fr(v):
    return Fraction(float(v))


def axis_weights(cvec, t, scheme):
    """Weights (list of Fraction, one per node) of the 1-d scheme at ``t``; None = unspecified."""
    c = [_fr(v) for v in cvec]
    n = len(c)
    t = _fr(t)
    w = [Fraction(0)] * n
    if scheme == 'nearest':
        best = None
        for j in range(n):
            dist = abs(t - c[j])
            if best is None or dist <= best[0]:      # "<=": right neighbour wins a tie
                best = (dist, j)
        w[best[1]] = Fraction(1)
        return w
    if scheme != 'linear':
        raise ValueError(scheme)
    if n < 2:
        # one node: the only "surrounding node" of the node itself is that node (node values
        # are reproduced); anywhere else nothing is documented
        return [Fraction(1)] if t == c[0] else None
    if t < c[0]:
        h = c[1] - c[0]
        d = c[0] - t
        if d > h:
            return None
        w[0] = 1 - d / h
        return w
    if t > c[n - 1]:
        h = c[n - 1] - c[n - 2]
        d = t - c[n - 1]
        if d > h:
            return None
        w[n - 1] = 1 - d / h
        return w
    # bisection for the cell [c[lo], c[hi]] containing t
    lo, hi = 0, n - 1
    while hi - lo > 1:
        mid = (lo + hi) // 2
        if c[mid] <= t:
            lo = mid
        else:
            hi = mid
    s = (t - c[lo]) / (c[hi] - c[lo])
    w[lo] += 1 - s
    w[hi] += s
    return w


def axis_matrix(cvec, pts, scheme):
    """(len(pts), len(cvec)) float matrix of weights and a bool mask of specified rows."""
    W = np.zeros((len(pts), len(cvec)))
    ok = np.ones(len(pts), dtype=bool)
    for p, t in enumerate(pts):
        w = axis_weights(cvec, t, scheme)
        if w is None:
            ok[p] = False
        else:
            W[p] = [float(x) for x in w]
    return W, ok


def tensor_matrix(cvecs, pts_by_axis, schemes):
    """Weights on the product of the per-axis point lists.

    Returns ``W`` of shape ``(p_1, ..., p_d, n_1, ..., n_d)`` and ``ok`` of shape
    ``(p_1, ..., p_d)``: W[p, k] = prod_a W_a[p_a, k_a].
    """
    d = len(cvecs)
    mats = [axis_matrix(c, p, s) for c, p, s in zip(cvecs, pts_by_axis, schemes)]
    pshape = tuple(len(p) for p in pts_by_axis)
    nshape = tuple(len(c) for c in cvecs)
    W = np.ones(pshape + nshape)
    ok = np.ones(pshape, dtype=bool)
    for a, (Wa, oka) in enumerate(mats):
        sh = [1] * (2 * d)
        sh[a] = pshape[a]
        sh[d + a] = nshape[a]
        W = W * Wa.reshape(sh)
        sh2 = [1] * d
        sh2[a] = pshape[a]
        ok = ok & oka.reshape(sh2)
    return W, ok


def point_weights(cvecs, point, schemes):
    """Weights array of shape nshape at one point (or None if unspecified)."""
    per = []
    for c, t, s in zip(cvecs, point, schemes):
        w = axis_weights(c, t, s)
        if w is None:
            return None
        per.append(w)
    nshape = tuple(len(c) for c in cvecs)
    W = np.zeros(nshape)
    for idx in itertools.product(*[range(n) for n in nshape]):
        v = Fraction(1)
        for a, i in enumerate(idx):
            v *= per[a][i]
        W[idx] = float(v)
    return W


def apply_weights(W, f, d):
    """Contract W (pshape + nshape) with the values f (nshape) -> pshape."""
    ax = list(range(W.ndim - d, W.ndim))
    return np.tensordot(W, f, axes=(ax, list(range(d))))


def nearest_select(cvecs, pts_by_axis):
    """Index arrays (one per axis) of the nearest node per point of each axis."""
    out = []
    for c, pts in zip(cvecs, pts_by_axis):
        idx = []
        for t in pts:
            w = axis_weights(c, t, 'nearest')
            idx.append(w.index(Fraction(1)))
        out.append(idx)
    return out


def sample(cvecs, scalar_func, dtype):
    """Values of ``scalar_func(point as list of Python floats)`` on the grid, by a Python loop."""
    shape = tuple(len(c) for c in cvecs)
    out = np.zeros(shape, dtype=dtype)
    for idx in itertools.product(*[range(n) for n in shape]):
        pt = [float(cvecs[a][i]) for a, i in enumerate(idx)]
        out[idx] = scalar_func(pt)
    return out


def axis_points(cvec, outside=True, far=False, cells=(), unit=1.0):
    """Evaluation points of one axis, simplest first.

    nodes, cell midpoints (ties of the nearest scheme), quarter points and -- outside the hull
    -- points a quarter and a half neighbouring node spacing out (``far``: also exactly one
    spacing out, where the documented virtual zero node sits).  ``unit``: the length that
    stands for a node spacing on an axis with a single node.
    """
    c = [float(v) for v in cvec]
    n = len(c)
    pts = list(c)
    for i in range(n - 1):
        h = c[i + 1] - c[i]
        pts += [c[i] + h / 2, c[i] + h / 4, c[i] + 3 * h / 4]
    if outside:
        if n >= 2:
            h0, h1 = c[1] - c[0], c[n - 1] - c[n - 2]
        else:
            h0 = h1 = float(unit)
        fr = [0.5, 0.25] + ([1.0] if far else []) + list(cells)     # cells: far outside
        for q in fr:
            pts += [c[0] - q * h0, c[n - 1] + q * h1]
    seen, res = set(), []
    for p in pts:
        if p not in seen:
            seen.add(p)
            res.append(p)
    return res


def is_tie(cvec, t):
    """True if ``t`` is (numerically) a midpoint between two neighbouring nodes."""
    c = [float(v) for v in cvec]
    for i in range(len(c) - 1):
        if c[i] < t < c[i + 1]:
            h = c[i + 1] - c[i]
            return abs((t - c[i]) - (c[i + 1] - t)) <= 1e-9 * h
    return False


def transform(nodes, scale=1.0, offset=0.0):
    """The image ``offset + scale * v`` of every node, or None if an image is rounded.

    Interpolation weights only depend on ratios of lengths, so they are invariant under this
    map; it is used to move a grid into another magnitude regime (tiny or huge units, far from
    the origin) WITHOUT changing the exactness of the arithmetic.
    """
    out = []
    for v in nodes:
        t = float(offset) + float(scale) * float(v)
        if Fraction(t) != _fr(offset) + _fr(scale) * _fr(v):
            return None
        out.append(t)
    return out


def orderings(n, inside):
    """Orders in which the ``n`` points of one mesh vector / point list can be passed.

    ``inside``: one bool per point (inside the hull of the nodes).  name -> permutation (list of
    indices into the given order).  The value at a point does not depend on its position in
    the vector, so the result is the permuted reference.
    """
    idx = list(range(n))
    ins = [i for i in idx if inside[i]]
    outs = [i for i in idx if not inside[i]]
    half = len(ins) // 2
    res = {
        'reversed': idx[::-1],
        # first and last entry inside the hull, the outside points in between
        'outside in the middle': ins[:half] + outs + ins[half:],
        # first entries outside, last inside -- and the other way round is 'given'
        'outside first': outs + ins,
        'rotated': idx[n // 2:] + idx[:n // 2],
        'interleaved': idx[::2] + idx[1::2],
    }
    return {k: v for k, v in res.items() if v != idx}
