"""Per-property claims that go into MANIFEST.json (tools/gen_manifest.py)."""

NOTES = ('All checks are bounded exhaustive explorations (model checking of the real code '
         'against executable reference models); see DESIGN.md. Exit 0/1/2 = held / VIOLATION / '
         'harness error. known_findings.json lists genuine defects recorded or fixed.')

CHECKS = {
    'C10': {
        'text': 'Every proximal factory, every Functional.proximal (incl. convex conjugates and '
                'derived functionals), every operator-arithmetic wrapper (depth 2 in thorough) and '
                'every in-place building block is executed on every x in V^n both out-of-place and '
                'with out aliased to x; the two results must coincide. Exhaustive over the stated '
                'alphabets; differential oracle, no expected values.',
        'note': 'aliasing = object identity as used by the shipped solvers; bounded value alphabet '
                'V (5 dyadic values straddling the thresholds), n <= 4; uninitialised memory is '
                'poisoned by the harness so read-before-write is deterministic',
        'technique': 'bounded exhaustive configuration-space exploration, differential oracle',
    },
}

CHECKS['C07'] = {
    'text': 'Every functional with a proximal (class x options x space x sigma, scalar and per-point), '
            'its convex conjugate, and every derived functional (translation, left/right scaling incl. '
            'negative and zero argument scaling, quadratic perturbation, scalar sum, Bregman distance, '
            'separable sum, default Moreau conjugate, unitary composition; depth 2) is run on every x '
            'of V^n; optimality of p = prox(x) is decided against an independent reference value '
            'table on a global lattice, 3^n-1 directions at 4 scales and a segment; firm '
            'non-expansiveness on all pairs; feasibility and idempotence for indicators.',
    'note': 'small-scope result: V has 5 values straddling the thresholds, n <= 4 (8 for nuclear norms '
            'on a reduced alphabet); a minimiser is certified up to probe resolution 2^-12 and '
            'tolerance 1e-9 (1e-6 where odl documents an epsilon shrink); reference values use the '
            'weights measured from the space (validated by C02)',
    'technique': 'bounded exhaustive exploration (configuration x program space) against a reference model',
}

CHECKS['C08'] = {
    'text': 'For every registered functional, every derived functional (depth <= 2), separable sums, '
            'sums, infimal convolutions and quadratic forms: Fenchel-Young on all pairs of V^n x V^n, '
            'equality at the gradient on all admissible points, biconjugate values, Moreau '
            'decomposition for sigma in {1/2, 2}, agreement of f* with the documented closed form and '
            'with the lattice supremum; Huber* against the conjugate of the infimal convolution '
            '(two routes to one functional).',
    'note': 'small scope (V^n, n <= 3 full alphabet); infinite values compared outside a 1e-9 band '
            'around constraint boundaries; values that odl cannot evaluate (NotImplementedError) '
            'are counted as skipped',
    'technique': 'bounded exhaustive exploration (configuration x program space), algebraic and reference-model oracles',
}

CHECKS['C09'] = {
    'text': 'For every registered functional, derived functional (depth <= 2), sum, product, quotient, '
            'separable sum, composition with 7 linear and nonlinear operators, Moreau envelope and '
            'quadratic form: library values against the reference interpreter on all of V^n; on all '
            'admissible base points and ALL basis directions the (twice Richardson-extrapolated) '
            'central difference of the values against <grad f(x), e_k>_W and f.derivative(x)(e_k); '
            'finite grad_lipschitz checked as an upper bound on all pairs of base points.',
    'note': 'small scope V^n (n <= 3 full alphabet); differentiability domain from the registry with '
            'margin h; only a fixed h-grid is decided (tolerance 2e-7 relative), C^{1,1} envelopes '
            'with the O(h) bound implied by their Lipschitz constant',
    'technique': 'bounded exhaustive exploration (configuration x program space) against a reference interpreter',
}

CHECKS['C03'] = {
    'text': 'Every operator class of the odl namespace (211 by introspection; the registry instantiates '
            'them over small spaces with their option sets and follows adjoint / inverse / derivative / '
            'gradient / proximal / convex_conj / T to reach classes defined inside methods) is called '
            'out-of-place and in-place with three prior contents of out (poisoned, 1e30, another '
            'result) and two memory layouts: result in range, returned object is out, equal values, '
            'input bit-identical. Unconvertible inputs and foreign out objects must raise '
            'OpDomainError / OpRangeError (TypeError for functionals) leaving out untouched. The '
            'class-level _call dispatch is explored over all 4x4 signature pairs of an inheritance '
            'lattice x 2 range kinds x all 6 instantiation orders, plus all return conventions.',
    'note': 'a fixed deterministic point set per domain kind (3 quick / 5 thorough) stands in for '
            '"random inputs": the protocol clauses are value-independent code paths; closure '
            'operators are judged only where their plain call succeeds; astra/CUDA back-ends absent',
    'technique': 'bounded exhaustive exploration (configuration space + dispatch histories), differential oracle',
}

CHECKS['C05'] = {
    'text': 'Every linear operator instance of the registry that returns an adjoint (option sets over '
            'weightings, complex dtypes, axes, shapes, padding modes, field-valued domains/ranges; closed '
            'under .adjoint to depth 2), every linear expression tree (BFS depth 2, depth 3 thorough; sum, '
            'composition, real and complex scalar and vector multiples, .adjoint) and block operators '
            'over all leaf pairs: <A x, y> = <x, A* y> is decided for ALL x, y on every pair of the real '
            'bases of domain and range in the spaces own inner products; adjoint maps range to domain; '
            'adjoint.adjoint acts like A; linear flag implies A(0) = 0.',
    'note': 'spaces of dimension <= 48; tolerance 1e-11 relative; operators documented as approximate '
            '(Resampling, RayTransform, LinDeform*) executed but not judged; inner products validated by C02',
    'technique': 'bounded exhaustive exploration (configuration x program space); sesquilinearity decides all inputs on the basis',
}
CHECKS['C13'] = {
    'text': 'finite_diff, PartialDerivative, Gradient, Divergence, Laplacian over 3 methods x 10 padding '
            'modes x pad constants x every small shape (1-d 2..9, 2-d, 3-d) x axis x dtype x cell sides x '
            'layout/constructor variants: the full matrix and offset of every configuration (all inputs by '
            'affinity) equals the textbook stencil on the array extended by the named rule; adjoint matrix '
            '== transpose; Divergence == -Gradient^T; derivative of the affine variant is the zero-padded '
            'operator; in-place == out-of-place; is_linear iff offset zero.',
    'note': 'exact comparison for dyadic cell sides, 4 eps otherwise; reference assembled in long double; '
            'the docstring sentence about symmetric not doubling the edge contradicts code/tests/NumPy and is not judged',
    'technique': 'bounded exhaustive configuration-space exploration; linearity decides all inputs via the full matrix',
}

CHECKS['C20'] = {
    'text': 'A universe of ~240 (quick) / ~460 (thorough) recipes of sets, fields, interval products, grids, '
            'partitions, weightings, tensor / discretized / product spaces, each built twice independently '
            'plus near-misses: ALL ordered pairs for reflexivity, symmetry, != as negation, hash '
            'consistency and agreement with the documented identity; transitivity decided on the whole '
            'equality graph (every connected component a clique = all triples). Membership of every '
            'element in every space; space.element over an input alphabet (own / foreign elements, '
            'ndarrays of 7 dtypes in C/F/strided/read-only layouts, lists, scalars, wrong shapes); '
            'astype / real_space / complex_space in all call sequences (cache histories); byaxis, '
            'byaxis_in, element and product-space indexing over a complete index alphabet.',
    'note': 'the universe is a finite alphabet of constructible objects, not all objects; documented-identity '
            'oracle silent where the __eq__ docstrings are silent (counted as skipped)',
    'technique': 'bounded exhaustive exploration (all pairs / equality-graph cliques / call histories) against a reference model',
}

CHECKS['C16'] = {
    'text': 'resize_array over every (shape, new shape) of small alphabets in 1-4 dimensions x every offset x 5 pad '
            'modes x 2 directions x pad constants x dtype / out / layout deviations (<= 2 quick, <= 3 thorough): '
            'the full matrix (all contents by linearity/affinity) equals an index reference written from the '
            'documented formulas and numpy.pad; adjoint direction = transpose; inadmissible paddings raise '
            'ValueError; extend-then-crop is the identity. ResizingOperator over domains x ran_shp / range x '
            'offsets x discr_kwargs: range geometry, forward matrix, derivative, inverse, and the adjoint '
            'identity in the measured weighted inner products; 17 documented argument rejections.',
    'note': 'exact comparison; bounded shapes (1-d up to 6 -> 12, 2-d up to 4^2 -> 7^2, 3-d up to 3^3 -> 5^3); '
            'cases the documentation leaves open are counted as unspecified',
    'technique': 'bounded exhaustive configuration-space exploration; linearity decides all array contents via the full matrix',
}
CHECKS['C17'] = {
    'text': 'All 86 NumPy ufunc objects x methods (__call__, reduce, accumulate, outer, at, reduceat) x 5 dtypes x 18 '
            'element kinds (tensor / discretized / power space, weighted variants) x operand mixes x out kinds x '
            'keyword options (every axis subset, dtype, keepdims, where, initial, order, casting): result bit-identical '
            'to NumPy on the underlying arrays, same kind of space with NumPy shape and dtype, out returned and '
            'written, operands untouched; legacy x.ufuncs interface; wrapping / memory sharing; histories of '
            'in-place operations (depth 2, 3 thorough) against an ndarray mirror.',
    'note': 'combinations NumPy itself refuses are not applicable; documented refusals (reduceat, keepdims, outer '
            'with non-elements on discretized elements) must be clean errors; weighting propagation is only '
            'required not to make an admissible call fail',
    'technique': 'bounded exhaustive configuration-space and history exploration, NumPy as reference model',
}
CHECKS['C19'] = {
    'text': 'Rotation utilities over all ordered orientation pairs; all detector classes; Parallel2d/3dAxis/3dEuler, '
            'FanBeam, ConeBeam (helical pitch, curved detectors, shift functions) over all configurations with <= 2 '
            '(quick) / <= 3 (thorough) deviations from the class default in 10 option dimensions (orientation, how '
            'the initial system is given incl. frommatrix, translation, radii, curvature, pitch, shift functions, '
            'angle range, input type, check_bounds); 12 angles x 5 detector parameters per axis evaluated singly and '
            'through ~20 vectorised calling conventions; slicing; factories over 9 volumes (detector coverage of '
            'every volume corner at every angle). Oracle: independent rigid-motion model built from the docstrings.',
    'note': 'tolerance 1e-12; astra-dependent functions skipped (astra absent); shapes whose documentation is '
            'self-contradictory counted as unspecified',
    'technique': 'bounded exhaustive (deviation-bounded) configuration-space exploration against a reference model',
}

CHECKS['C06'] = {
    'text': 'Every registry instance that provides a derivative (class x option set) at 3 (5 thorough) admissible base '
            'points, every expression tree of depth <= 2 over 9 linear/nonlinear leaves with 12 unary and 6 binary '
            'combinators (sum, composition, scalar / vector multiples, pointwise product, powers, the constructors '
            'taking optional temporaries, functional-times-vector) and block operators over all leaf pairs: '
            'derivative(x) is a linear operator op.domain -> op.range whose action on EVERY real basis direction '
            '(C = R^2 sense on complex spaces) equals the twice Richardson-extrapolated central difference.',
    'note': 'limit statement decided on the fixed grid h = 2^-6, 2^-9, 2^-12 (tolerance 2e-7 relative); points where the '
            'difference quotients have not converged on that grid are counted as undecided; LinDeformFixedTempl, '
            'NumericalDerivative, NumericalGradient exempt (approximations by design)',
    'technique': 'bounded exhaustive exploration (configuration x program space); linearity in the direction decides all directions on the basis',
}

CHECKS['C01'] = {
    'text': 'lincomb over all 27 (x1, x2, out) register triples (all 5 aliasing patterns) x all scalar pairs of S^2 x '
            'sizes straddling every internal regime (1, 3, 99, 100, 101, 49999, 50000, 50001; 2-d/3-d shapes) x dtypes x '
            'per-register layouts (C, F, strided; reversed / swapped in thorough) x tensor, discretized and (nested) '
            'product spaces, with register contents tiled so that every pair (thorough: triple) of alphabet values meets '
            'in every call; all derived arithmetic (+ - * /, in-place forms, scalar forms, powers, multiply/divide with '
            'out, zero/one/copy/assign/set_zero, power-space broadcasting); BFS over histories of 117 in-place '
            'operations (depth 2, 3 thorough) deduplicated by register contents. Oracle: exact equality with an '
            'independent NumPy model; non-output registers bit-identical; gaps of strided outputs untouched.',
    'note': 'exact arithmetic on dyadic alphabets (float32 included); NaN only in an out that is not an operand; '
            'an out that overlaps an operand without being identical to it is outside the contract and not explored (operands that only are read may overlap and are explored)',
    'technique': 'bounded exhaustive configuration-space + operation-history exploration against a reference model',
}
CHECKS['C02'] = {
    'text': 'Tensor spaces (shape, dtype incl. int64, layout, weighting none/const/array, exponent 1/2/inf/1.5/3, sizes '
            'straddling the dot / tensordot / BLAS regimes), uniform_discr in 1-3 dimensions with EVERY per-side '
            'nodes_on_bdry combination (4/16/64) x extents incl. unit cell volume, 37 product-space structures (nested, '
            'weighted, mixed) and custom inner/norm/dist callables: inner, norm and dist equal the documented weighted '
            'formulas with independently computed (rational-arithmetic) quadrature weights; the Gram matrix over the '
            'real basis decides the inner-product axioms for all elements; homogeneity, triangle inequality, norm = '
            'sqrt(inner), dist = norm(x-y) = dist(y,x) on all pairs of V^n / packed vectors; ||one||^2 = domain volume.',
    'note': 'formula not judged where the documentation is silent or contradicts itself (counted as unspecified); '
            'tolerance 4 eps n for dyadic sums, 1e-12 (1e-5 single) where roots/powers enter',
    'technique': 'bounded exhaustive configuration-space exploration against a reference model; sesquilinearity decides all inputs via the Gram matrix',
}
CHECKS['C04'] = {
    'text': 'Breadth-first enumeration of ALL well-typed expressions with <= 2 combinators (thorough: 3 over a reduced '
            'pool) over 34 linear / nonlinear / functional / field-valued leaves on real and complex spaces, scalars '
            '{2, -1, 1/2, 0, 1j} and vectors, with every documented overload (+ - unary * @ / **, scalar and vector '
            'left/right forms, pointwise product): construction succeeds, domain/range are the typed ones, the value at '
            '4 points equals a reference interpreter applying the documented algebra table recursively (out-of-place and '
            'in-place into a NaN-filled out), operands untouched, is_linear sound and complete on the linear fragment.',
    'note': 'exact comparison when all intermediates are small dyadics, else 1e-12 x largest intermediate; expressions '
            'whose docstrings contradict each other (operators on fields times scalars) counted as unspecified',
    'technique': 'bounded exhaustive program-space exploration (expression-tree BFS) against a reference interpreter',
}
CHECKS['C11'] = {
    'text': 'Lock-step: admm_linearized, adupdates (scalar / element / list inner steps, 1-2 blocks) and doubleprox_dc run '
            'to exactly k iterations for every k <= N against their shipped reference implementations. Resumption '
            '(confluence of histories): landweber, kaczmarz, proximal_gradient, mlem/osmlem, steepest_descent and pdhg '
            '(x_relax and y passed back): ALL splittings n+m <= N (thorough: all three-way splittings) must give the '
            'bit-identical iterate of the single run. Callbacks of every solver in the anchored files: exactly one record '
            'per iteration, record k == result of a run with niter=k, niter=0 changes nothing. Problems: typed pools of '
            'operators (identity, matrices, multiply, gradients, broadcast) x library functionals x step sizes x starts.',
    'note': 'N = 5 (quick) / 8 (thorough); large pools with <= 1 deviation from the default instance; randomness owned '
            '(random=False, explicit steps); accelerated pdhg and CG excluded from resumption as the property says',
    'technique': 'bounded exhaustive history-space exploration (all splittings, lock-step refinement against reference implementations)',
}
CHECKS['C14'] = {
    'text': 'Uniform and non-uniform partitions in 1-3 dimensions (limits x shapes {1,2,3,5} x all four per-side '
            'nodes_on_bdry combinations x 6 coordinate vectors): every construction route (all consistent 3- and '
            '4-parameter subsets of min/max/shape/cell_sides per axis, _fromintv, _fromgrid with dict / partial / negative '
            'keys, nonuniform_partition, RectPartition) gives the same partition; tiling invariants; index(p) and '
            'fractional index on all boundaries, nodes, midpoints and quarter points; all int / slice (start, stop, step) '
            '/ Ellipsis / list index expressions to depth 2; insert, append, squeeze, byaxis with all index choices. '
            'Reference model in exact rational arithmetic.',
    'note': 'exact where the reference numbers are dyadic and for all child-cells == parent-cells checks, else 1e-12; '
            'undocumented index forms not enumerated; cell_sizes_vecs on 1-point axes is the documented 0.0',
    'technique': 'bounded exhaustive configuration-space exploration (continued from non-initial states) against a reference model',
}
CHECKS['C15'] = {
    'text': 'space.element(callable) over 18 callable styles (native, vectorize-wrapped, broadcasting over every '
            'coordinate subset, in-place positional / keyword-only / dual, constants, ufuncs, callable objects) x shapes x '
            'dtypes x partitions against a scalar Python loop (exact); sampling_function / point_collocation incl. '
            'tensor-valued callables over all calling conventions; nearest / linear / per-axis interpolators with every '
            'scheme tuple over uniform and non-uniform vectors and 5 value dtypes: the full interpolation matrix (one '
            'basis array per node) on all nodes, midpoints (ties), quarter points and points outside the hull, for every '
            'calling convention (single points, arrays, sparse / dense meshes, out=); Resampling matrices over all 100 '
            'ordered pairs of 10 partitions; linear_deform for all constant displacements of a dyadic alphabet.',
    'note': 'interpolation is linear in the node values, so the matrix decides all value arrays; reference weights by '
            'bisection in exact rational arithmetic',
    'technique': 'bounded exhaustive configuration-space exploration against a reference model; linearity decides all value arrays',
}
CHECKS['C18'] = {
    'text': 'DFT / inverse over shapes with even and odd lengths (1-3 d) x every non-empty axes subset x 4 dtypes x '
            'halfcomplex x sign x numpy / pyfftw (+ pre-planned): the full matrix against a direct-summation DFT; inverse '
            'recovers inputs; in-place == out-of-place. pyfftw call HISTORIES (all length-3 sequences over call again / '
            'other input / second operator / out=) from empty FFTW wisdom. FourierTransform x per-axis shift x '
            'temporaries: round trip, reciprocal grid, the documented closed-form integral of the piecewise constant '
            'interpolant; Gaussian convergence under refinement (n = 16..256, odd and even). Wavelets (18 quick / all 106 '
            'thorough) x nlevels x 9 pad modes x shapes x axes: perfect reconstruction on the basis; adjoint = weighted '
            'transpose for orthogonal wavelets with periodization.',
    'note': 'FFTW wisdom reset per state; input destruction judged only where deterministic (FFTW_MEASURE picks '
            'algorithms by timing); convergence decided on a fixed refinement horizon',
    'technique': 'bounded exhaustive configuration-space + call-history exploration against a reference model; linearity decides all inputs via the full matrix',
}

CHECKS['C12'] = {
    'text': 'Linear solvers on ALL symmetric positive definite 2x2 / 3x3 integer matrices over {-1,0,1,2} (plain and '
            'ill-conditioned, unweighted / constant / array-weighted spaces) and all full-rank small rectangular '
            'matrices x every rhs of V^m x 2 starts: CG energy-norm error strictly decreasing and exact after n steps, '
            'CGN and Landweber residual non-increasing over a step-size grid, Kaczmarz distance to the solution '
            'non-increasing (both orders, both callback loops), steepest descent with backtracking never increases the '
            'objective, Armijo condition of the line search. Non-smooth solvers (PDHG, Douglas-Rachford PD, '
            'forward-backward PD, (accelerated) proximal gradient, linearized ADMM) on 16 problem families built '
            'backwards from certified KKT pairs (x*, y*) over all x* of V^n: fixed point, result == last callback iterate, '
            'bounded liveness (KKT residual through reference sub-differentials and distance to x* within K = 4000). '
            'power_method_opnorm <= true norm for all basis / alphabet starts x maxiter 1..20 x weighted spaces.',
    'note': 'convergence is a limit statement: only the horizon K = 4000 is decided (correct solvers need <= 1134 on every '
            'pool member); monotonicity of PDHG / PG is a diagnostic only; randomness owned (explicit starts, seeded '
            'default step rules whose verdict does not depend on the stream)',
    'technique': 'bounded exhaustive configuration-space exploration with per-iterate invariants and a bounded-liveness horizon',
}

# what the seeded waves added (DESIGN.md 6.2): history clauses and regimes, per check
ADDENDA = {
    'C01': ' Added: divisors with exact zeros (IEEE reference), operands that are overlapping views of one '
           'buffer, power-space broadcasting with an operand that is (or shares memory with) a part of the target.',
    'C02': ' Added: partitions with arbitrary boundary-cell fractions (rational reference weights), one-cell axes, '
           'operand layout pairs (C / F / transposed / strided) below and above the BLAS threshold, histories of '
           'in-place overwrites of the weight array (all orders up to length 3) against the formula for the shown weights.',
    'C03': ' Added: attribute closure to depth 2 (3 thorough); history inside a state - the result of the previous '
           'out-of-place call is held and must survive the next call; non-finite results are re-executed under a second '
           'poison value (uninitialised memory); gradient operators, QuadraticForm over every return convention, '
           'stepped component slices, sampling runs as registry rows.',
    'C04': ' Added: operand histories (the element operand of every arithmetic form that copies on the pinned tree is '
           'overwritten in place afterwards; value and derived objects must not move), reflected products of '
           'field-domain operators with functionals, boundary exponents of A ** n.',
    'C05': ' Added: history inside a state - A before / after its adjoint and adjoint.adjoint were built and used, '
           'A.adjoint requested again, and the identity re-decided (A now vs A.adjoint requested now) after the data '
           'elements handed to the constructor were doubled in place.',
    'C06': ' Added: history inside a state - D(e) applied twice, a derivative taken at a private point unchanged by all '
           'later calls (also for the accuracy-exempt finite-difference classes), gradient operators (Hessians) as instances.',
    'C07': ' Added: history inside a state - step element unmodified, prox applied again, a second operator from the same '
           'step object, values unchanged => proximal unchanged after the data elements were doubled in place; scaled and '
           'same-object separable sums with per-component step lists.',
    'C08': ' Added: non-finite proximal values are judged (poisoned allocations make unwritten outputs visible); '
           'simple_functional; constant-only quadratic perturbation.',
    'C09': ' Added: simple_functional (which ingredients, callables vs operators), NumericalGradient on sizes 1, 2, 4 and '
           'a 2-d space, Huber on weighted vector fields, constant-only quadratic perturbation.',
    'C10': ' Added: the factories on spaces above the BLAS threshold (60000 entries), element steps through the wrappers, '
           'the aliased call re-checked after the data element was updated in place.',
    'C11': ' Added: random update orders with numpy.random owned by the harness (drawn permutations recorded, vacuity '
           'test), square non-alias-safe operators for every solver, a reference loop for pdhg, falsy callback objects, '
           'caller-owned sensitivities.',
    'C12': ' Added: problem families over PartialDerivative (domain == range), scaled instances and warm starts for the '
           'linear solvers, power method started at the operator\'s own multiplicand.',
    'C13': ' Added: kept result objects re-read after later calls, mixed in-place / out-of-place sequences on one '
           'operator object (and on its adjoint obtained once) against a fresh operator.',
    'C14': ' Added: every array argument of the constructors is overwritten in place after construction (snapshot of all '
           'observables must not move); write-through of RETURNED arrays is counted, not judged.',
    'C15': ' Added: call histories on one vectorize wrapper / sampling function against fresh ones, value-array layouts, '
           'value dtype of the space x grids off the float32 lattice, aliasing of the grid by sampled elements, '
           'single-node axes, callable forms (partial, bound methods, builtins), points far outside the node hull (counted).',
    'C16': ' Added: integer and mixed (input, out) dtypes with an exact integer reference, offsets on unchanged axes, '
           'constructor-argument histories (pad_const, ran_shp, offset, limits overwritten in place afterwards).',
    'C17': ' Added: operands from the base space of (nested) power spaces, special values (NaN per part, +-inf, signed '
           'zeros) in reductions, layouts of the parts of power-space elements (permuted rows of one array, the same part twice).',
    'C18': '',
    'C19': ' Added: near-unit axes and rounded rotation matrices, slicing x every non-default constructor keyword, '
           'reused parameter buffers (refilled in place between calls, alternating geometry objects).',
    'C20': ' Added: one variant per defining field of every composite class (pairs differing in exactly one field, both '
           'operand orders), shared-array histories for array weightings, constructor-argument histories.',
}
for _p, _t in ADDENDA.items():
    if _p in CHECKS and _t:
        CHECKS[_p]['text'] += _t

# second round (DESIGN.md 6.3): function-coverage holes closed, waves 5 and 6
ADDENDA2 = {
    'C01': ' Round 2: copy protocol (copy.copy / deepcopy); dtype sweep over every documented dtype class '
           '(longdouble, clongdouble, float16, complex64, non-native byte order, small and unsigned integers) '
           'in all size regimes.',
    'C02': ' Round 2: magnitude regimes of the geometry (far from the origin, tiny, huge; boundary fractions next '
           'to 1 and 1/2), spaces derived by astype / real_space / complex_space / x.real / x.imag / x.conj / '
           'x.astype under the full oracle, absolute homogeneity for scalings 2^k at the edge of the '
           'floating-point range.',
    'C03': ' Round 2: block operators whose rows start with a view-returning operator, Resampling where every '
           'target node is a tie / mixed schemes per axis, simple_functional and its conjugates.',
    'C04': ' Round 2: scalar magnitude regimes (2^-30, 2^30, 1 + 2^-20, tiny imaginary part) and NumPy scalar '
           'types in every scalar form, leaves that hand back their argument (or a view of it) in every '
           'combinator.',
    'C05': ' Round 2: the identity evaluated again for inputs wrapping Fortran-ordered arrays; scalars with a '
           'tiny imaginary part, tiny and huge factors.',
    'C06': ' Round 2: base points of tiny magnitude with steps scaled alike (judged where the three step sizes '
           'agree to 1e-8); simple_functional and its conjugates; base point and directions wrapping '
           'Fortran-ordered arrays.',
    'C07': ' Round 2: raw factories for box / non-negativity / constant functionals with every documented form of '
           'the bounds, sub-sums taken out of a separable sum by indexing, list / tuple / ndarray spellings of '
           'per-component steps, simple_functional with 0-3 conjugations, one-component weighted power spaces, x wrapping a '
           'Fortran-ordered array on 2-d tensor spaces.',
    'C08': ' Round 2: Moreau decomposition of the factory pairs proximal_X / proximal_convex_conj_X with their own '
           'lam, g and per-point steps, and of (scaled) separable sums with per-component steps; points of tiny '
           'magnitude on both sides of the Fenchel-Young clauses.',
    'C09': ' Round 2: base points of tiny magnitude; factors and dividends that vanish where their gradient does '
           'not; gradient callables that return their argument; a derivative must not follow later in-place '
           'updates of its base point; derived functionals over a linear base (affine results must not be '
           'flagged linear); x wrapping a Fortran-ordered array on 2-d tensor spaces.',
    'C13': ' Round 2: cell sides next to 1 and magnitude regimes of the grid.',
    'C14': ' Round 2: magnitude regimes of limits and coordinates (far, tiny, huge), built-as-uniform clause for '
           'every construction route, operands and points spelled as tuples / NumPy scalars.',
    'C15': ' Round 2: reordered (unsorted) mesh vectors and point arrays, magnitude regimes of coordinates and '
           'values, Resampling.inverse / adjoint, LinDeformFixedDisp.inverse, structure of '
           'LinDeformFixedTempl.derivative.',
    'C16': ' Round 2: explicit range= deviating from the consistent partition in one axis (cell size, fractional '
           'and whole-cell shifts) x cell-size magnitudes: refusal or the property.',
    'C17': ' Round 2: pairs of special values across parts (0 with inf / nan) in every reduction, operands of '
           'every other dtype as ndarray / list / Python and NumPy scalar / 0-d array, where= and wider out= '
           'in the legacy interface, wrapping through data_ptr.',
    'C18': ' Round 2: every parity pattern of the transformed axes (2-d, 3-d) for the wavelet round trip, wavelet '
           'objects / int and negative axes / inverse built directly / inverse.inverse, FFTW plan life cycle of '
           'the continuous transform, reciprocal_grid against realspace_grid.',
    'C19': ' Round 2: report keys per documented clause (origin, intrinsic shape, height along the axis) so that a '
           'recorded finding cannot absorb a different misplacement.',
    'C20': ' Round 2: astype of product spaces whose factors have different dtypes.',
}
for _p, _t in ADDENDA2.items():
    if _p in CHECKS and _t:
        CHECKS[_p]['text'] += _t

_PENDING = 'check under construction in this session; not claimed until it runs quietly on the unchanged tree'
NOT_APPLICABLE = dict((p, _PENDING) for p in
                      [])
