"""Per-property claims that go into MANIFEST.json (tools/gen_manifest.py)."""

NOTES = ('All checks are bounded exhaustive explorations (model checking of the real code '
         'against executable reference models); see DESIGN.md. Exit 0/1/2 = held / VIOLATION / '
         'harness error. known_findings.json lists genuine defects recorded or fixed.')

CHECKS = {
    'C10': {
        'text': 'Every proximal factory, every Functional.proximal (incl. convex conjugates and '
                'derived functionals), every operator-arithmetic wrapper (depth 2 in thorough) and '
                'every in-place building block is executed on every x in V^n both out-of-place and '
                'with out aliased to x; the two results must coincide. Exhaustive over the stated '
                'alphabets; differential oracle, no expected values.',
        'note': 'aliasing = object identity as used by the shipped solvers; bounded value alphabet '
                'V (5 dyadic values straddling the thresholds), n <= 4; uninitialised memory is '
                'poisoned by the harness so read-before-write is deterministic',
        'technique': 'bounded exhaustive configuration-space exploration, differential oracle',
    },
}

CHECKS['C07'] = {
    'text': 'Every functional with a proximal (class x options x space x sigma, scalar and per-point), '
            'its convex conjugate, and every derived functional (translation, left/right scaling incl. '
            'negative and zero argument scaling, quadratic perturbation, scalar sum, Bregman distance, '
            'separable sum, default Moreau conjugate, unitary composition; depth 2) is run on every x '
            'of V^n; optimality of p = prox(x) is decided against an independent reference value '
            'table on a global lattice, 3^n-1 directions at 4 scales and a segment; firm '
            'non-expansiveness on all pairs; feasibility and idempotence for indicators.',
    'note': 'small-scope result: V has 5 values straddling the thresholds, n <= 4 (8 for nuclear norms '
            'on a reduced alphabet); a minimiser is certified up to probe resolution 2^-12 and '
            'tolerance 1e-9 (1e-6 where odl documents an epsilon shrink); reference values use the '
            'weights measured from the space (validated by C02)',
    'technique': 'bounded exhaustive exploration (configuration x program space) against a reference model',
}

CHECKS['C08'] = {
    'text': 'For every registered functional, every derived functional (depth <= 2), separable sums, '
            'sums, infimal convolutions and quadratic forms: Fenchel-Young on all pairs of V^n x V^n, '
            'equality at the gradient on all admissible points, biconjugate values, Moreau '
            'decomposition for sigma in {1/2, 2}, agreement of f* with the documented closed form and '
            'with the lattice supremum; Huber* against the conjugate of the infimal convolution '
            '(two routes to one functional).',
    'note': 'small scope (V^n, n <= 3 full alphabet); infinite values compared outside a 1e-9 band '
            'around constraint boundaries; values that odl cannot evaluate (NotImplementedError) '
            'are counted as skipped',
    'technique': 'bounded exhaustive exploration (configuration x program space), algebraic and reference-model oracles',
}

CHECKS['C09'] = {
    'text': 'For every registered functional, derived functional (depth <= 2), sum, product, quotient, '
            'separable sum, composition with 7 linear and nonlinear operators, Moreau envelope and '
            'quadratic form: library values against the reference interpreter on all of V^n; on all '
            'admissible base points and ALL basis directions the (twice Richardson-extrapolated) '
            'central difference of the values against <grad f(x), e_k>_W and f.derivative(x)(e_k); '
            'finite grad_lipschitz checked as an upper bound on all pairs of base points.',
    'note': 'small scope V^n (n <= 3 full alphabet); differentiability domain from the registry with '
            'margin h; only a fixed h-grid is decided (tolerance 2e-7 relative), C^{1,1} envelopes '
            'with the O(h) bound implied by their Lipschitz constant',
    'technique': 'bounded exhaustive exploration (configuration x program space) against a reference interpreter',
}

CHECKS['C03'] = {
    'text': 'Every operator class of the odl namespace (211 by introspection; the registry instantiates '
            'them over small spaces with their option sets and follows adjoint / inverse / derivative / '
            'gradient / proximal / convex_conj / T to reach classes defined inside methods) is called '
            'out-of-place and in-place with three prior contents of out (poisoned, 1e30, another '
            'result) and two memory layouts: result in range, returned object is out, equal values, '
            'input bit-identical. Unconvertible inputs and foreign out objects must raise '
            'OpDomainError / OpRangeError (TypeError for functionals) leaving out untouched. The '
            'class-level _call dispatch is explored over all 4x4 signature pairs of an inheritance '
            'lattice x 2 range kinds x all 6 instantiation orders, plus all return conventions.',
    'note': 'a fixed deterministic point set per domain kind (3 quick / 5 thorough) stands in for '
            '"random inputs": the protocol clauses are value-independent code paths; closure '
            'operators are judged only where their plain call succeeds; astra/CUDA back-ends absent',
    'technique': 'bounded exhaustive exploration (configuration space + dispatch histories), differential oracle',
}

CHECKS['C05'] = {
    'text': 'Every linear operator instance of the registry that returns an adjoint (option sets over '
            'weightings, complex dtypes, axes, shapes, padding modes, field-valued domains/ranges; closed '
            'under .adjoint to depth 2), every linear expression tree (BFS depth 2, depth 3 thorough; sum, '
            'composition, real and complex scalar and vector multiples, .adjoint) and block operators '
            'over all leaf pairs: <A x, y> = <x, A* y> is decided for ALL x, y on every pair of the real '
            'bases of domain and range in the spaces own inner products; adjoint maps range to domain; '
            'adjoint.adjoint acts like A; linear flag implies A(0) = 0.',
    'note': 'spaces of dimension <= 48; tolerance 1e-11 relative; operators documented as approximate '
            '(Resampling, RayTransform, LinDeform*) executed but not judged; inner products validated by C02',
    'technique': 'bounded exhaustive exploration (configuration x program space); sesquilinearity decides all inputs on the basis',
}
CHECKS['C13'] = {
    'text': 'finite_diff, PartialDerivative, Gradient, Divergence, Laplacian over 3 methods x 10 padding '
            'modes x pad constants x every small shape (1-d 2..9, 2-d, 3-d) x axis x dtype x cell sides x '
            'layout/constructor variants: the full matrix and offset of every configuration (all inputs by '
            'affinity) equals the textbook stencil on the array extended by the named rule; adjoint matrix '
            '== transpose; Divergence == -Gradient^T; derivative of the affine variant is the zero-padded '
            'operator; in-place == out-of-place; is_linear iff offset zero.',
    'note': 'exact comparison for dyadic cell sides, 4 eps otherwise; reference assembled in long double; '
            'the docstring sentence about symmetric not doubling the edge contradicts code/tests/NumPy and is not judged',
    'technique': 'bounded exhaustive configuration-space exploration; linearity decides all inputs via the full matrix',
}

CHECKS['C20'] = {
    'text': 'A universe of ~240 (quick) / ~460 (thorough) recipes of sets, fields, interval products, grids, '
            'partitions, weightings, tensor / discretized / product spaces, each built twice independently '
            'plus near-misses: ALL ordered pairs for reflexivity, symmetry, != as negation, hash '
            'consistency and agreement with the documented identity; transitivity decided on the whole '
            'equality graph (every connected component a clique = all triples). Membership of every '
            'element in every space; space.element over an input alphabet (own / foreign elements, '
            'ndarrays of 7 dtypes in C/F/strided/read-only layouts, lists, scalars, wrong shapes); '
            'astype / real_space / complex_space in all call sequences (cache histories); byaxis, '
            'byaxis_in, element and product-space indexing over a complete index alphabet.',
    'note': 'the universe is a finite alphabet of constructible objects, not all objects; documented-identity '
            'oracle silent where the __eq__ docstrings are silent (counted as skipped)',
    'technique': 'bounded exhaustive exploration (all pairs / equality-graph cliques / call histories) against a reference model',
}

CHECKS['C16'] = {
    'text': 'resize_array over every (shape, new shape) of small alphabets in 1-4 dimensions x every offset x 5 pad '
            'modes x 2 directions x pad constants x dtype / out / layout deviations (<= 2 quick, <= 3 thorough): '
            'the full matrix (all contents by linearity/affinity) equals an index reference written from the '
            'documented formulas and numpy.pad; adjoint direction = transpose; inadmissible paddings raise '
            'ValueError; extend-then-crop is the identity. ResizingOperator over domains x ran_shp / range x '
            'offsets x discr_kwargs: range geometry, forward matrix, derivative, inverse, and the adjoint '
            'identity in the measured weighted inner products; 17 documented argument rejections.',
    'note': 'exact comparison; bounded shapes (1-d up to 6 -> 12, 2-d up to 4^2 -> 7^2, 3-d up to 3^3 -> 5^3); '
            'cases the documentation leaves open are counted as unspecified',
    'technique': 'bounded exhaustive configuration-space exploration; linearity decides all array contents via the full matrix',
}
CHECKS['C17'] = {
    'text': 'All 86 NumPy ufunc objects x methods (__call__, reduce, accumulate, outer, at, reduceat) x 5 dtypes x 18 '
            'element kinds (tensor / discretized / power space, weighted variants) x operand mixes x out kinds x '
            'keyword options (every axis subset, dtype, keepdims, where, initial, order, casting): result bit-identical '
            'to NumPy on the underlying arrays, same kind of space with NumPy shape and dtype, out returned and '
            'written, operands untouched; legacy x.ufuncs interface; wrapping / memory sharing; histories of '
            'in-place operations (depth 2, 3 thorough) against an ndarray mirror.',
    'note': 'combinations NumPy itself refuses are not applicable; documented refusals (reduceat, keepdims, outer '
            'with non-elements on discretized elements) must be clean errors; weighting propagation is only '
            'required not to make an admissible call fail',
    'technique': 'bounded exhaustive configuration-space and history exploration, NumPy as reference model',
}
CHECKS['C19'] = {
    'text': 'Rotation utilities over all ordered orientation pairs; all detector classes; Parallel2d/3dAxis/3dEuler, '
            'FanBeam, ConeBeam (helical pitch, curved detectors, shift functions) over all configurations with <= 2 '
            '(quick) / <= 3 (thorough) deviations from the class default in 10 option dimensions (orientation, how '
            'the initial system is given incl. frommatrix, translation, radii, curvature, pitch, shift functions, '
            'angle range, input type, check_bounds); 12 angles x 5 detector parameters per axis evaluated singly and '
            'through ~20 vectorised calling conventions; slicing; factories over 9 volumes (detector coverage of '
            'every volume corner at every angle). Oracle: independent rigid-motion model built from the docstrings.',
    'note': 'tolerance 1e-12; astra-dependent functions skipped (astra absent); shapes whose documentation is '
            'self-contradictory counted as unspecified',
    'technique': 'bounded exhaustive (deviation-bounded) configuration-space exploration against a reference model',
}

CHECKS['C06'] = {
    'text': 'Every registry instance that provides a derivative (class x option set) at 3 (5 thorough) admissible base '
            'points, every expression tree of depth <= 2 over 9 linear/nonlinear leaves with 12 unary and 6 binary '
            'combinators (sum, composition, scalar / vector multiples, pointwise product, powers, the constructors '
            'taking optional temporaries, functional-times-vector) and block operators over all leaf pairs: '
            'derivative(x) is a linear operator op.domain -> op.range whose action on EVERY real basis direction '
            '(C = R^2 sense on complex spaces) equals the twice Richardson-extrapolated central difference.',
    'note': 'limit statement decided on the fixed grid h = 2^-6, 2^-9, 2^-12 (tolerance 2e-7 relative); points where the '
            'difference quotients have not converged on that grid are counted as undecided; LinDeformFixedTempl, '
            'NumericalDerivative, NumericalGradient exempt (approximations by design)',
    'technique': 'bounded exhaustive exploration (configuration x program space); linearity in the direction decides all directions on the basis',
}

_PENDING = 'check under construction in this session; not claimed until it runs quietly on the unchanged tree'
NOT_APPLICABLE = dict((p, _PENDING) for p in
                      ['C01', 'C02', 'C04', 'C11', 'C12',
                       'C14', 'C15', 'C18'])
