"""C16 - resizing and padding follow the named boundary rule; cropping undoes extension.

Exploration: configuration space.  Three kinds of states

``arr``  one (shape, new shape, variant) of ``odl.util.numerics.resize_array``; inside the state
         EVERY offset that keeps the smaller block inside the larger one x 5 pad modes x
         2 directions x the pad constants, and for each of those the full matrix of the map
         (every basis vector, ``i*e_k`` for complex data, the zero vector for the affine
         'constant' mode, and one generic vector on which linearity itself is checked).
``op``   one (domain, way of giving the range, range shape, offset, ``discr_kwargs``) of
         ``odl.ResizingOperator``; inside: every pad mode (+ a non-zero constant), geometry of
         the range, full matrices of the operator, its ``adjoint`` (weighted identity),
         ``inverse``, ``derivative``.
``xr``   one (domain shape, range shape, magnitude of the cell size) of ``ResizingOperator`` with
         an explicitly given ``range=``; inside: every consistent offset x every axis (growing,
         shrinking, unchanged) x every deviation of the range partition in that axis (cell size
         x2, /2, x(1 +- 2**-10); shift by 1/2, 1/4, -1/4 cell; whole cells in unchanged axes):
         clean refusal, or an operator that is judged by the property.
``rej``  documented rejections of ``ResizingOperator`` / ``resize_array`` arguments.

Oracles: the index-based reference model ``mc.ref.resize`` (formulas of
``doc/source/math/resizing_ops.rst``, Kronecker product over the axes), ``numpy.pad`` as a
second forward oracle where an equivalent mode exists, transpose for the adjoint direction.
All values are small integers / dyadic numbers, so every comparison is exact equality.
"""
import itertools

import numpy as np
import odl
from odl.discr import discr_ops as DO
from odl.util import numerics as NU

from mc.ref import resize as R

PROPERTY = 'C16'
BUDGET = {'quick': 1500, 'thorough': 3600}

MODES = list(R.MODES)
DIRS = ['forward', 'adjoint']
DTYPES = ['float64', 'complex128', 'int64', 'float32']
OUTS = [None, 'C', 'F', 'S', 'W']       # absent / C / F / strided view / wider dtype
ARRS = ['C', 'F', 'S', 'N', 'L']        # C / F / strided view / negative strides / nested list
BASE = {'dtype': 'float64', 'out': None, 'arr': 'C'}
WIDER = {'float64': 'complex128', 'int64': 'float64', 'float32': 'float64'}


# ------------------------------------------------------------------------------------------
# configurations

def _variants(k):
    """All variants with at most ``k`` deviations from BASE (bound deviations, not depth)."""
    dims = [('dtype', DTYPES), ('out', OUTS), ('arr', ARRS)]
    out = []
    for combo in itertools.product(*[d[1] for d in dims]):
        v = dict(zip([d[0] for d in dims], combo))
        ndev = sum(1 for key in v if v[key] != BASE[key])
        if ndev > k:
            continue
        if v['arr'] == 'L' and v['dtype'] == 'float32':
            continue        # a nested list of Python floats is float64 data
        if v['out'] == 'W' and v['dtype'] not in WIDER:
            continue

        out.append((ndev, v))
    out.sort(key=lambda t: t[0])
    return [v for _, v in out]


def _arr_block(sizes, newsizes, ndim, variants):
    cfgs = []
    pairs = []
    for shape in itertools.product(sizes, repeat=ndim):
        for newshp in itertools.product(newsizes, repeat=ndim):
            pairs.append((sum(shape) + sum(newshp), shape, newshp))
    pairs.sort()
    for var in variants:
        for _, shape, newshp in pairs:
            if var['arr'] == 'L' and 0 in shape:
                continue        # an empty nested list carries neither dtype nor shape
            cfgs.append({'kind': 'arr', 'shape': list(shape), 'newshp': list(newshp),
                         'var': var})
    return cfgs


CELL = [0.5, 2.0, 1.0]          # cell sides per axis (distinct, so swapped axes are visible)
G0 = [-1.0, 0.5, 0.0]           # first grid point per axis


def _nobs(ndim, which):
    if which == 'F':
        return [[0, 0]] * ndim
    if which == 'T':
        return [[1, 1]] * ndim
    if which == 'L':
        return [[1, 0]] * ndim
    if which == 'R':
        return [[0, 1]] * ndim
    if which in ('LR', 'RL'):   # mixed: one side on the boundary in axis 0, the other in the last
        res = [[0, 0] for _ in range(ndim)]
        res[0][0 if which == 'LR' else 1] = 1
        res[-1][1 if which == 'LR' else 0] = 1
        return res
    raise KeyError(which)


def _op_block(sizes, newsizes, ndim, doms, dks, hows, offsets='all', wopts=(None,),
              ran_dtype=None, spell=False, ran_nobs=(None,)):
    cfgs = []
    for shape in itertools.product(sizes, repeat=ndim):
        for newshp in itertools.product(newsizes, repeat=ndim):
            offs = [None]
            extra = []      # explicit offsets that are non-zero on an axis of unchanged size
            if offsets == 'all':
                base_offs = [list(o) for o in R.all_offsets(shape, newshp)]
                offs += base_offs
                same = [i for i in range(ndim) if shape[i] == newshp[i]]
                if same:
                    # docs: "offset : int or sequence of ints ... Number of cells to add
                    # to/remove from the left" -- an axis that keeps its size has nothing
                    # added or removed, whatever entry the offset carries there (one integer
                    # for all axes is a documented form); the range must keep the domain's
                    # extent in that axis
                    for o in base_offs:
                        for u in (1, 2):
                            extra.append(([u if i in same else o[i] for i in range(ndim)],
                                          'sequence'))
                    if ndim > 1:
                        for k in (1, 2):
                            if all(k <= abs(m - n) for n, m in zip(shape, newshp) if n != m):
                                extra.append(([k] * ndim, 'scalar'))
            elif offsets == 'first':        # the two extreme explicit offsets
                ao = [list(o) for o in R.all_offsets(shape, newshp)]
                offs += [ao[0]] + ([ao[-1]] if len(ao) > 1 else [])
            for dom in doms:
                dnob = _nobs(ndim, dom['nob'])
                if any(n == 1 and (l or r) for n, (l, r) in zip(shape, dnob)):
                    continue    # 1-point axis with a node on the boundary: the cell size is
                                # not defined by the grid (odl uses the extent) -- unspecified
                if dom.get('nonuni') and (shape[-1] != newshp[-1] or shape[-1] < 3):
                    continue    # resizing a non-uniform axis is rejected (kind 'rej'); fewer
                                # than 3 points are always uniformly spaced
                for how in hows:
                    if how == 'range' and dom.get('nonuni') and ran_nobs != (None,):
                        continue
                    for dk in dks:
                        if how == 'range' and dk is not None:
                            continue        # the range is built by hand, discr_kwargs unused
                        if dk is not None and any(
                                m == 1 and (l or r)
                                for m, (l, r) in zip(newshp, _nobs(ndim, dk))):
                            continue        # same for the requested range
                        for off in offs:
                            if how == 'range' and off is None:
                                continue        # the hand-built range needs a definite offset
                            for w in wopts:
                                if w == 'array' and how != 'range':
                                    continue    # range weighting undefined (shape changes)
                                if w is not None and (dk is not None or dom['nob'] != 'F'):
                                    continue    # one deviation at a time for the weights
                                for rn in (ran_nobs if how == 'range' else (None,)):
                                    if rn is not None and any(
                                            m == 1 and (l or r)
                                            for m, (l, r) in zip(newshp, _nobs(ndim, rn))):
                                        continue    # 1-point axis with a node on the boundary
                                    c = {'kind': 'op', 'shape': list(shape),
                                         'newshp': list(newshp), 'dom': dom, 'how': how,
                                         'dk_nob': dk, 'offset': off, 'w': w}
                                    if rn is not None:
                                        c['ran_nob'] = rn
                                    cfgs.append(c)
                        if how == 'ran_shp':
                            for off, form in extra:
                                c = {'kind': 'op', 'shape': list(shape),
                                     'newshp': list(newshp), 'dom': dom, 'how': how,
                                     'dk_nob': dk, 'offset': off, 'w': None}
                                if form == 'scalar':
                                    c['offset_form'] = 'scalar'
                                cfgs.append(c)
    if ran_dtype:
        for c in cfgs:
            c['ran_dtype'] = ran_dtype
    if spell:
        for c in cfgs:
            c['spell'] = 1
    cfgs.sort(key=lambda c: (sum(c['shape']) + sum(c['newshp'])))
    return cfgs


REJ = ['range_cell_sides_differ', 'range_shifted_by_fraction', 'offset_with_range',
       'neither_range_nor_shape', 'both_range_and_shape', 'resize_nonuniform_axis',
       'bad_pad_mode_op', 'bad_pad_mode_array', 'bad_direction', 'out_wrong_shape',
       'ndim_mismatch', 'ndim_mismatch_out', 'domain_not_discretized', 'newshp_not_sequence',
       'out_not_ndarray', 'nodes_on_bdry_wrong_length', 'pad_const_not_castable']


def configs(tier):
    th = tier == 'thorough'
    cfgs = []
    v1 = _variants(1)
    v2 = _variants(2)
    v3 = _variants(3)
    if not th:
        cfgs += _arr_block(range(0, 5), range(0, 8), 1, v2)
        cfgs += _arr_block([1, 2, 3], range(1, 6), 2, v1)
        cfgs += _arr_block([2, 3], range(1, 5), 3, [BASE])
    else:
        cfgs += _arr_block(range(0, 7), range(0, 13), 1, v3)
        cfgs += _arr_block(range(1, 5), range(1, 8), 2, v1)
        cfgs += _arr_block([0, 1, 2], range(0, 4), 2, [BASE])
        cfgs += [c for c in _arr_block([1, 2, 3], range(1, 6), 2, v2)
                 if c['var'] not in v1]
        cfgs += _arr_block([1, 2, 3], range(1, 6), 3, [BASE])
        v3d = [v for v in v1 if v != BASE and (v['dtype'] != 'float64' or v['out'] == 'F'
                                               or v['arr'] in ('F', 'N'))]
        cfgs += _arr_block([2, 3], range(1, 5), 3, v3d)
        cfgs += _arr_block([1, 2], [1, 2, 3], 4, [BASE])
    # de-duplicate (blocks overlap), keep first occurrence
    seen, uniq = set(), []
    for c in cfgs:
        key = (tuple(c['shape']), tuple(c['newshp']), tuple(sorted(c['var'].items(),
                                                                   key=str)))
        if key not in seen:
            seen.add(key)
            uniq.append(c)
    cfgs = uniq
    if not th:
        cfgs += _arrx_block(range(0, 5), range(0, 8), 1, XPAIRS)
        cfgs += _arrx_block([2, 3], range(1, 5), 2, XPAIRS_KEY)
    else:
        cfgs += _arrx_block(range(0, 7), range(0, 13), 1, XPAIRS)
        cfgs += _arrx_block([1, 2, 3], range(1, 6), 2, XPAIRS)
        cfgs += _arrx_block([2, 3], range(1, 5), 3, XPAIRS_KEY)

    d_f64 = {'nob': 'F', 'dtype': 'float64'}
    d_nob = {'nob': 'T', 'dtype': 'float64'}
    d_lr = {'nob': 'LR', 'dtype': 'float64'}
    d_l = {'nob': 'L', 'dtype': 'float64'}
    d_c = {'nob': 'F', 'dtype': 'complex128'}
    d_f32 = {'nob': 'F', 'dtype': 'float32'}
    d_w = {'nob': 'F', 'dtype': 'float64', 'w': 2.0}
    d_nu = {'nob': 'F', 'dtype': 'float64', 'nonuni': 1}
    ops = []
    if not th:
        ops += _op_block(range(1, 5), range(1, 8), 1, [d_f64, d_nob, d_c],
                         [None, 'T', 'L', 'R'], ['ran_shp', 'range'], wopts=(None, 3.0))
        ops += _op_block([2, 3], range(1, 5), 2, [d_f64], [None], ['ran_shp', 'range'])
        ops += _op_block([2, 3], range(1, 5), 2, [d_nob, d_nu], [None, 'T'], ['ran_shp'],
                         offsets='default')
        ops += _op_block(range(1, 5), range(1, 8), 1, [d_f64], [None], ['ran_shp'],
                         ran_dtype='float32')
        ops += _op_block(range(1, 5), range(1, 8), 1, [d_f64], [None], ['ran_shp'],
                         offsets='default', spell=True)
        ops += _op_block([2, 3], range(1, 5), 2, [d_f64], [None], ['range'], spell=True)
    else:
        ops += _op_block(range(1, 6), range(1, 10), 1,
                         [d_f64, d_nob, d_l, d_c, d_f32, d_w],
                         [None, 'F', 'T', 'L', 'R'], ['ran_shp', 'range'],
                         wopts=(None, 3.0, 'array'))
        ops += _op_block([1, 2, 3], range(1, 6), 2, [d_f64, d_nob, d_lr],
                         [None, 'T', 'LR', 'RL'], ['ran_shp', 'range'], wopts=(None, 3.0))
        ops += _op_block([1, 2, 3], range(1, 6), 2, [d_nu, d_c, d_w], [None], ['ran_shp'])
        ops += _op_block([2], [1, 2, 3], 3, [d_f64], [None], ['ran_shp', 'range'])
        ops += _op_block(range(1, 6), range(1, 10), 1, [d_f64], [None], ['ran_shp'],
                         ran_dtype='float32')
        ops += _op_block([2, 3], range(1, 5), 2, [d_f64], [None], ['ran_shp'],
                         ran_dtype='float32')
        ops += _op_block(range(1, 6), range(1, 10), 1, [d_f64, d_c], [None],
                         ['ran_shp', 'range'], spell=True)
        ops += _op_block([1, 2, 3], range(1, 6), 2, [d_f64], [None], ['ran_shp', 'range'],
                         spell=True)
    # explicit range= with its own boundary placement / its own dtype (the hand-built range of
    # the blocks above always has the uniform_discr defaults)
    if not th:
        ops += _op_block(range(1, 5), range(1, 8), 1, [d_f64], [None], ['range'],
                         ran_nobs=('T', 'L'))
        ops += _op_block(range(1, 5), range(1, 8), 1, [d_f64], [None], ['range'],
                         ran_dtype='float32')
        ops += _op_block([2, 3], range(1, 5), 2, [d_f64], [None], ['range'],
                         offsets='first', ran_nobs=('T', 'LR'))
        ops += _op_block([2, 3], range(1, 5), 2, [d_nu], [None], ['range'], offsets='first')
    else:
        ops += _op_block(range(1, 6), range(1, 10), 1, [d_f64, d_c, d_nob], [None], ['range'],
                         ran_nobs=('T', 'L', 'R'))
        ops += _op_block(range(1, 6), range(1, 10), 1, [d_f64], [None], ['range'],
                         ran_dtype='float32')
        ops += _op_block([1, 2, 3], range(1, 6), 2, [d_f64], [None], ['range'],
                         ran_nobs=('T', 'LR', 'RL'))
        ops += _op_block([1, 2, 3, 4], range(1, 6), 2, [d_nu], [None], ['range'])
    cfgs += ops
    cfgs += _xr_cfgs(tier)
    cfgs += _hist_cfgs(tier)
    for name in REJ:
        cfgs.append({'kind': 'rej', 'name': name})
    return cfgs


# ------------------------------------------------------------------------------------------
# helpers for kind 'arr'

def _generic(n, cplx):
    k = np.arange(n)
    v = ((7 * k * k + 3 * k) % 11 - 5).astype(float)
    if cplx:
        v = v + 1j * ((5 * k + 2) % 7 - 3)
    return v


def _inputs(n, cplx):
    """Rows: generic vector, zero vector, e_k (and i*e_k)."""
    rows = [_generic(n, cplx), np.zeros(n)]
    eye = np.eye(n)
    rows += [eye[k] for k in range(n)]
    if cplx:
        rows += [1j * eye[k] for k in range(n)]
    return np.array(rows, dtype=complex if cplx else float).reshape(len(rows), n)


def _sentinel(dt):
    return 777 if dt.kind in 'iu' else np.nan


def _mk_input(flat, shape, dt, layout):
    a = np.array(flat).astype(dt).reshape(shape)
    if layout == 'C':
        return a
    if layout == 'F':
        return np.asfortranarray(a)
    if layout == 'S':
        big = np.full(tuple(2 * s + 1 for s in shape), _sentinel(dt), dtype=dt)
        view = big[tuple(slice(1, None, 2) for _ in shape)]
        view[...] = a
        return view
    if layout == 'N':
        rev = tuple(slice(None, None, -1) for _ in shape)
        return np.ascontiguousarray(a[rev])[rev]
    if layout == 'L':
        return a.tolist()
    raise KeyError(layout)


def _mk_out(newshp, dt, kind):
    """(out, backing array or None, boolean mask of backing entries that belong to out)."""
    if kind is None:
        return None, None, None
    if kind == 'W':
        dt = np.dtype(WIDER[dt.name])
    if kind in ('C', 'W'):
        return np.full(newshp, _sentinel(dt), dtype=dt, order='C'), None, None
    if kind == 'F':
        return np.full(newshp, _sentinel(dt), dtype=dt, order='F'), None, None
    if kind == 'S':
        big = np.full(tuple(2 * s + 1 for s in newshp), _sentinel(dt), dtype=dt)
        slc = tuple(slice(1, None, 2) for _ in newshp)
        mask = np.zeros(big.shape, dtype=bool)
        mask[slc] = True
        return big[slc], big, mask
    raise KeyError(kind)


def _same(a, b):
    a = np.asarray(a)
    b = np.asarray(b)
    return a.shape == b.shape and bool(np.array_equal(a, b))


def _fmt(a):
    return np.array2string(np.asarray(a), separator=',', threshold=200).replace('\n', '')


def _vsite(mode, direction, var):
    extra = ''.join(';%s=%s' % (k, var[k]) for k in ('dtype', 'out', 'arr')
                    if var[k] != BASE[k])
    return 'resize_array[%s,%s%s]' % (mode, direction, extra)


def _pad_consts(dt, mode, ndim, thorough_like):
    if mode != 'constant':
        # the constant is documented to be used in 'constant' mode only; it must be ignored
        return [0, 1.5] if (dt.kind != 'i' and ndim == 1) else [0]
    if dt.kind == 'i':
        return [0, 2]       # a non-integer constant for integer data: unspecified, not enumerated
    if dt.kind == 'c':
        return [0, 1.5, 1 + 2j]
    return [0, 1.5]


def _arr_offsets(shape, newshp, var):
    """[(offset, on_unchanged_axis?)]: every offset keeping the block inside and, for the base
    variant, the same offsets with NON-ZERO entries on the axes that keep their size.

    ``offset`` "specifies how many entries are added to/removed from the left side"; in an
    axis of unchanged size nothing is added or removed ("where newshp > arr.shape padding is
    applied, where newshp < arr.shape the array is cropped"), and a shift is explicitly not
    what resizing does (resizing_ops.rst: "the mixed case ... constant index shift ... is not
    considered here").  So the entry carried there -- e.g. by one integer given for all axes --
    must not influence the result.
    """
    base = R.all_offsets(shape, newshp)
    out = [(o, False) for o in base]
    same = [i for i, (n, m) in enumerate(zip(shape, newshp)) if n == m and n >= 1]
    if var != BASE or not same:
        return out
    fills = [lambda n: 1, lambda n: n - 1]
    if len(shape) <= 2:
        fills.append(lambda n: 2)
    seen = set(base)
    for o in base:
        for f in fills:
            t = tuple(f(shape[i]) if i in same else o[i] for i in range(len(shape)))
            if t not in seen:
                seen.add(t)
                out.append((t, True))
    return out


def _call_resize(flat, shape, newshp, off, mode, c, direction, var, dt, offset_none=False):
    """One execution of the real ``resize_array``; returns (status, value, problems)."""
    a = _mk_input(flat, shape, dt, var['arr'])
    keep = np.array(a, dtype=dt, copy=True)
    out, backing, mask = _mk_out(tuple(newshp), dt, var['out'])
    probs = []
    try:
        if offset_none == 'scalar':
            offarg = int(off[0])
        else:
            offarg = None if offset_none else list(off)
        res = NU.resize_array(a, newshp, offset=offarg,
                              pad_mode=mode, pad_const=c, direction=direction, out=out)
    except Exception as e:      # judged by the caller
        return 'exc', e, probs
    if not _same(np.asarray(a, dtype=dt), keep):
        probs.append(('input_modified', 'input array changed by the call'))
    if out is not None and res is not out:
        probs.append(('result_is_not_out', 'returned object is not the given out'))
    if out is None and isinstance(res, np.ndarray) and isinstance(a, np.ndarray) and \
            res.size and np.shares_memory(res, a):
        # "copies the overlapping block": a result that is a view of the input would change with it
        probs.append(('result_shares_memory_with_input',
                      'no out given: the returned array shares memory with the input array'))
    if backing is not None:
        outside = backing[~mask]
        good = np.isnan(outside) if backing.dtype.kind in 'fc' else outside == 777
        if not bool(np.all(good)):
            probs.append(('outside_of_out_view_modified', 'entries outside the out view '
                          'were written'))
    want_dt = out.dtype if out is not None else (
        dt if var['arr'] != 'L' else np.asarray(a).dtype)
    if not isinstance(res, np.ndarray) or res.dtype != want_dt or \
            res.shape != tuple(newshp):
        probs.append(('wrong_dtype_or_shape', 'got %s %s, expected %s %s'
                      % (getattr(res, 'dtype', type(res)), getattr(res, 'shape', None),
                         want_dt, tuple(newshp))))
    return 'ok', res, probs


def _run_arr(cfg):
    shape, newshp, var = tuple(cfg['shape']), tuple(cfg['newshp']), cfg['var']
    dt = np.dtype(var['dtype'])
    cplx = dt.kind == 'c'
    ndim = len(shape)
    n_in = int(np.prod(shape))
    pattern = ''.join('+' if m > n else '-' if m < n else '=' for n, m in zip(shape, newshp))
    X = _inputs(n_in, cplx)                  # rows are the input vectors (flat)
    first = {}
    sigs = set()
    evals = 0
    skipped = 0

    def report(site, sym, det):
        first.setdefault((site, sym), det)

    for off, on_same in _arr_offsets(shape, newshp, var):
        scalar_ok = on_same and ndim > 1 and len(set(off)) == 1
        for mode in MODES:
            for direction in DIRS:
                site = _vsite(mode, direction, var)
                if on_same:
                    site = site[:-1] + ';non-zero offset on unchanged axis]'
                if direction == 'forward':
                    why = R.why_inadmissible(shape, newshp, off, mode)
                else:       # transpose of the forward map  newshp -> shape  with this offset
                    why = R.why_inadmissible(newshp, shape, off, mode)
                if mode == 'constant' and direction == 'forward' and not on_same:
                    # A constant that the result type cannot hold (non-integer into integer
                    # data, complex into real data).  Property: the remainder is filled with
                    # the constant value -- a result padded with a truncated constant is wrong.
                    # A clean refusal (ValueError, what the code announces: "`pad_const` ...
                    # cannot be safely cast") is the accepted outcome whenever ANY axis grows;
                    # where no axis grows nothing is padded, the constant is unused and the
                    # crop must be returned if anything is returned.
                    res_dt0 = np.dtype(WIDER[dt.name]) if var['out'] == 'W' else dt
                    bad = {'i': [1.5, 0.25], 'u': [1.5, 0.25], 'f': [1 + 2j]}.get(res_dt0.kind, [])
                    for cb in bad:
                        headb = ('shape=%s newshp=%s offset=%s pad_mode=constant pad_const=%s '
                                 'direction=forward variant=%s'
                                 % (list(shape), list(newshp), list(off), cb, var))
                        st, val, probs = _call_resize(X[0], shape, newshp, off, mode, cb,
                                                      direction, var, dt)
                        evals += 1
                        if '+' in pattern:
                            if st == 'ok':
                                report(site, 'non_castable_pad_const_accepted',
                                       headb + ': %s cannot be held by %s, yet a result was '
                                       'returned: %s' % (cb, res_dt0, _fmt(val)))
                            elif not isinstance(val, (ValueError, TypeError)):
                                report(site, 'raises:' + type(val).__name__,
                                       headb + ': %r' % (val,))
                            sigs.add('%dd:%s:badconst:refused' % (ndim, pattern))
                        else:
                            Mb, _ = R.matrix(shape, newshp, off, mode)
                            expb = (X[0] @ Mb.T.astype(X.dtype)).astype(res_dt0)
                            if st == 'exc' and isinstance(val, (ValueError, TypeError)):
                                # whether an unused, unrepresentable constant is tolerated is
                                # not documented (HEAD: 1.5 for int data is, 1+2j for real
                                # data makes out.fill raise TypeError) -- not judged
                                skipped += 1
                            elif st == 'exc':
                                report(site, 'raises:' + type(val).__name__,
                                       headb + ': no axis grows, the constant is unused: %r'
                                       % (val,))
                            elif not _same(np.asarray(val).reshape(-1), expb):
                                report(site, 'differs_from_reference',
                                       headb + ' expected=%s got=%s' % (_fmt(expb), _fmt(val)))
                            sigs.add('%dd:%s:badconst:unused' % (ndim, pattern))
                for c in _pad_consts(dt, mode, ndim, False):
                    head = ('shape=%s newshp=%s offset=%s pad_mode=%s pad_const=%s direction=%s '
                            'variant=%s' % (list(shape), list(newshp), list(off), mode, c,
                                            direction, var))
                    if direction == 'adjoint' and mode == 'constant' and c != 0:
                        # the adjoint direction is documented as zero-padding; what a
                        # non-zero constant means there is not documented.  A clean
                        # ValueError (what the code does) or a result are both accepted.
                        st, val, _ = _call_resize(X[0], shape, newshp, off, mode, c,
                                                  direction, var, dt)
                        evals += 1
                        skipped += 1
                        if st == 'exc' and not isinstance(val, ValueError):
                            report(site, 'raises:' + type(val).__name__,
                                   head + ': %r' % (val,))
                        continue
                    # ---- inadmissible paddings must be refused with ValueError
                    if why:
                        st, val, _ = _call_resize(X[0], shape, newshp, off, mode, c,
                                                  direction, var, dt)
                        evals += 1
                        if st == 'ok':
                            report(site, 'inadmissible_padding_accepted',
                                   head + ': %s, documented as not allowed, but a result '
                                   'was returned: %s' % (why, _fmt(val)))
                        elif not isinstance(val, ValueError):
                            report(site, 'inadmissible_raises:' + type(val).__name__,
                                   head + ': %s; expected ValueError, got %r' % (why, val))
                        sigs.add('%dd:%s:%s:%s:refused' % (ndim, pattern, mode, direction))
                        continue
                    # ---- reference
                    if direction == 'forward':
                        M, cmask = R.matrix(shape, newshp, off, mode)
                    else:
                        M, cmask = R.matrix(newshp, shape, off, mode)
                        M = M.T
                    cv = (c if mode == 'constant' and direction == 'forward' else 0)
                    res_dt = np.dtype(WIDER[dt.name]) if var['out'] == 'W' else dt
                    EXP = (X @ M.T.astype(X.dtype)) + cv * cmask[None, :] \
                        if direction == 'forward' else X @ M.T.astype(X.dtype)
                    NPP = None
                    if direction == 'forward' and mode in R.NP_MODE and n_in > 0:
                        stack = X.reshape((len(X),) + shape)
                        NPP = R.forward_nppad(stack, (len(X),) + newshp, (0,) + off, mode, cv)
                        if NPP is not None:
                            NPP = NPP.reshape(len(X), -1)
                            if not _same(NPP, EXP):
                                raise AssertionError('reference models disagree: ' + head)
                    ok_all = True
                    for r in range(len(X)):
                        st, val, probs = _call_resize(
                            X[r], shape, newshp, off, mode, c, direction, var, dt,
                            offset_none=('scalar' if scalar_ok and r == 0 else
                                         (r == 1 and not any(off))))
                        evals += 1
                        for sym, det in probs:
                            report(site, sym, head + ': ' + det)
                        if st == 'exc':
                            report(site, 'raises:' + type(val).__name__,
                                   head + ' input=%s: %r' % (_fmt(X[r]), val))
                            ok_all = False
                            break
                        got = np.asarray(val).reshape(-1) if np.asarray(val).shape == newshp \
                            else None
                        exp = EXP[r].astype(res_dt)
                        if got is None or not _same(got, exp):
                            sym = ('differs_from_reference' if direction == 'forward'
                                   else 'adjoint_not_transpose')
                            report(site, sym, head + ' input=%s expected=%s got=%s'
                                   % (_fmt(X[r].reshape(shape)), _fmt(exp.reshape(newshp)),
                                      _fmt(val)))
                            ok_all = False
                            break
                        if NPP is not None and not _same(got, NPP[r].astype(res_dt)):
                            report(site, 'differs_from_numpy_pad', head + ' input=%s numpy=%s '
                                   'got=%s' % (_fmt(X[r].reshape(shape)),
                                               _fmt(NPP[r].reshape(newshp)), _fmt(val)))
                            ok_all = False
                            break
                        # ---- extend, then crop with the same offset: identity
                        if r == 0 and direction == 'forward' and '-' not in pattern \
                                and '+' in pattern:
                            try:
                                back = NU.resize_array(np.array(val), shape, offset=list(off))
                                evals += 1
                                if not _same(back, X[0].astype(res_dt).reshape(shape)):
                                    report(site, 'crop_after_extend_not_identity',
                                           head + ' input=%s cropped back=%s'
                                           % (_fmt(X[0].reshape(shape)), _fmt(back)))
                            except Exception as e:
                                report(site, 'crop_raises:' + type(e).__name__,
                                       head + ': %r' % (e,))
                    sigs.add('%dd:%s:%s:%s:%s' % (ndim, pattern, mode, direction,
                                                   'ok' if ok_all else 'bad'))
    viol = [{'site': s, 'symptom': y, 'detail': d} for (s, y), d in sorted(first.items())]
    return {'evals': evals, 'viol': viol, 'sig': sorted(sigs) or ['arr:none'],
            'skipped': skipped, 'trivial': evals == 0}


# ------------------------------------------------------------------------------------------
# kind 'arrx': narrow / unsigned / mixed (input dtype, out dtype) pairs with an EXACT integer
# reference (Python integers) and values chosen so that arithmetic in a too narrow or a
# floating intermediate type is visible

XPAIRS = [('uint64', None), ('int8', 'int64'), ('float16', 'float64'), ('uint8', None),
          ('int8', None), ('int8', 'float64'), ('uint8', 'int64'), ('uint8', 'float64'),
          ('int64', None), ('float16', None), ('float32', 'float64'), ('int64', 'float64')]
XPAIRS_KEY = XPAIRS[:4]
_FLIMIT = {'float16': 2 ** 11, 'float32': 2 ** 24, 'float64': 2 ** 53}


def _arrx_block(sizes, newsizes, ndim, pairs):
    cfgs = []
    sp = []
    for shape in itertools.product(sizes, repeat=ndim):
        for newshp in itertools.product(newsizes, repeat=ndim):
            sp.append((sum(shape) + sum(newshp), shape, newshp))
    sp.sort()
    for idt, odt in pairs:
        for _, shape, newshp in sp:
            cfgs.append({'kind': 'arrx', 'shape': list(shape), 'newshp': list(newshp),
                         'idt': idt, 'odt': odt})
    return cfgs


def _xrows(shape, idt):
    """Input rows as lists of Python ints, all exactly representable in ``idt``."""
    n = int(np.prod(shape))
    unsigned = np.dtype(idt).kind == 'u'
    k = list(range(n))
    gen = [((7 * i * i + 3 * i) % 11) - (0 if unsigned else 5) for i in k]
    rows = [('generic', gen), ('zero', [0] * n)]
    for i in k:
        rows.append(('e_%d' % i, [1 if j == i else 0 for j in k]))
    # V-shaped ramp: increases linearly (slope 1..3 per axis) towards every edge, so the order1
    # continuation stays a small distance above ``base`` -- exact in integer arithmetic
    base = {'int8': 20, 'uint8': 50, 'uint64': 2 ** 60, 'int64': 2 ** 60, 'float16': 100,
            'float32': 2 ** 20}[idt]
    ramp = []
    for idx in itertools.product(*[range(s) for s in shape]):
        ramp.append(base + sum((1 + ax % 3) * abs(i - (shape[ax] - 1) // 2)
                               for ax, i in enumerate(idx)))
    rows.append(('ramp', ramp))
    # large, nearly flat: sums of a few entries leave the narrow type / lose low bits in float64
    if idt == 'float32':
        flat = [2 ** 24 if i % 2 == 0 else 1 for i in k]
    elif idt == 'float16':
        flat = [60000 + 32 * (i % 2) for i in k]
    else:
        fb = {'int8': 100, 'uint8': 200, 'uint64': 2 ** 63, 'int64': 2 ** 62}[idt]
        flat = [fb + i % 3 for i in k]
    rows.append(('flat', flat))
    return rows


def _representable(vals, dt):
    dt = np.dtype(dt)
    if dt.kind in 'iu':
        info = np.iinfo(dt)
        return all(info.min <= v <= info.max for v in vals)
    for v in vals:
        try:
            f = dt.type(v)
            if not np.isfinite(f) or int(f) != v:
                return False
        except (OverflowError, ValueError):
            return False
    return True


def _exact_list(a):
    """Python ints of an array, or None if an entry is not an integer value."""
    out = []
    for v in np.asarray(a).ravel().tolist():
        if isinstance(v, float):
            if not np.isfinite(v) or not float(v).is_integer():
                return None
            v = int(v)
        out.append(int(v))
    return out


def _run_arrx(cfg):
    shape, newshp = tuple(cfg['shape']), tuple(cfg['newshp'])
    idt = np.dtype(cfg['idt'])
    odt = np.dtype(cfg['odt']) if cfg['odt'] else None
    res_dt = odt if odt is not None else idt     # the type the result is held (and computed) in
    ndim = len(shape)
    pattern = ''.join('+' if m > n else '-' if m < n else '=' for n, m in zip(shape, newshp))
    rows = _xrows(shape, cfg['idt'])
    first = {}
    sigs = set()
    evals = 0
    skipped = 0
    tag = ';dtype=%s%s' % (idt.name, ';out=%s' % odt.name if odt is not None else '')

    def report(site, sym, det):
        first.setdefault((site, sym), det)

    for off in R.all_offsets(shape, newshp):
        for mode in MODES:
            for direction in DIRS:
                site = 'resize_array[%s,%s%s]' % (mode, direction, tag)
                if direction == 'forward':
                    why = R.why_inadmissible(shape, newshp, off, mode)
                else:
                    why = R.why_inadmissible(newshp, shape, off, mode)
                for c in ([0, 2] if mode == 'constant' and direction == 'forward' else [0]):
                    head = ('shape=%s newshp=%s offset=%s pad_mode=%s pad_const=%s direction=%s '
                            'input dtype=%s out=%s' % (list(shape), list(newshp), list(off), mode,
                                                        c, direction, idt.name,
                                                        'absent' if odt is None else
                                                        'given, dtype ' + odt.name))

                    def call(vals):
                        a = np.array(vals, dtype=object).astype(idt).reshape(shape)
                        keep = a.copy()
                        out = None
                        if odt is not None:
                            out = np.full(newshp, _sentinel(odt), dtype=odt)
                        try:
                            res = NU.resize_array(a, newshp, offset=list(off), pad_mode=mode,
                                                  pad_const=c, direction=direction, out=out)
                        except Exception as e:
                            return 'exc', e
                        if not _same(a, keep):
                            report(site, 'input_modified', head)
                        if out is not None and res is not out:
                            report(site, 'result_is_not_out', head)
                        if res.dtype != res_dt or res.shape != newshp:
                            report(site, 'wrong_dtype_or_shape', head + ': %s %s'
                                   % (res.dtype, res.shape))
                        return 'ok', res

                    if direction == 'adjoint' and mode == 'order1' and res_dt.kind == 'u' \
                            and '-' in pattern:
                        # the transpose of the constant-slope continuation has negative
                        # entries: not an operation on unsigned numbers -- unspecified
                        skipped += 1
                        continue
                    if why:
                        st, val = call(rows[0][1])
                        evals += 1
                        if st == 'ok':
                            report(site, 'inadmissible_padding_accepted', head + ': ' + why)
                        elif not isinstance(val, ValueError):
                            report(site, 'inadmissible_raises:' + type(val).__name__,
                                   head + ': %s; %r' % (why, val))
                        sigs.add('x%dd:%s:%s:%s:refused' % (ndim, pattern, mode, direction))
                        continue
                    if direction == 'forward':
                        M, cmask = R.matrix(shape, newshp, off, mode)
                    else:
                        M, cmask = R.matrix(newshp, shape, off, mode)
                        M = M.T
                    Mo = M.astype(object)
                    Ma = np.abs(M).astype(object)
                    n_res = int(np.prod(newshp))
                    cadd = ((c * cmask).astype(object) if direction == 'forward'
                            else np.zeros(n_res, dtype=object))
                    judged = 0
                    for name, vals in rows:
                        x = np.array(vals, dtype=object).reshape(-1)
                        exp = list(Mo.dot(x) + cadd) if len(vals) else [int(v) for v in cadd]
                        ok = _representable(exp, res_dt)
                        if ok and res_dt.kind == 'f':
                            # every partial sum must be exact in the floating type as well
                            bound = list(Ma.dot(np.abs(x)) + cadd) if len(vals) else [abs(c)]
                            ok = all(b <= _FLIMIT[res_dt.name] for b in bound)
                        if not ok:
                            # exact result (or an intermediate sum) not representable in the
                            # result type: wrap-around / rounding behaviour is not specified
                            skipped += 1
                            continue
                        st, val = call(vals)
                        evals += 1
                        judged += 1
                        if st == 'exc':
                            report(site, 'raises:' + type(val).__name__,
                                   head + ' input(%s)=%s: %r' % (name, vals, val))
                            break
                        got = _exact_list(val)
                        if got != [int(v) for v in exp]:
                            sym = ('differs_from_reference' if direction == 'forward'
                                   else 'adjoint_not_transpose')
                            report(site, sym, head + ' input(%s)=%s expected=%s got=%s (exact '
                                   'integer reference, representable in %s)'
                                   % (name, vals, [int(v) for v in exp],
                                      np.asarray(val).ravel().tolist(), res_dt.name))
                            break
                    sigs.add('x%dd:%s:%s:%s:%s' % (ndim, pattern, mode, direction,
                                                    'judged' if judged else 'unjudged'))
    viol = [{'site': s, 'symptom': y, 'detail': d} for (s, y), d in sorted(first.items())]
    return {'evals': evals, 'viol': viol, 'sig': sorted(sigs) or ['arrx:none'],
            'skipped': skipped, 'trivial': evals == 0}


# ------------------------------------------------------------------------------------------
# helpers for kind 'op'

def _extent(ax, n, g0, lr):
    """(min_pt, max_pt) of a uniform axis whose grid is g0 + k*cell, k < n."""
    cell = CELL[ax]
    lo = g0 - (0.0 if lr[0] else cell / 2)
    hi = g0 + (n - 1) * cell + (0.0 if lr[1] else cell / 2)
    return lo, hi


def _rdt(dtype):
    return np.empty(0, dtype=dtype).real.dtype


def _srepr(space):
    """repr of a space that cannot fail (repr of array-weighted discretized spaces raises)."""
    try:
        return repr(space).replace('\n', ' ')
    except Exception:
        return '<%s min_pt=%s max_pt=%s shape=%s, array weighting>' % (
            type(space).__name__, space.min_pt, space.max_pt, space.shape)


def _weighting_arg(w, shape, rdtype='float64'):
    if w is None:
        return {}
    if w == 'array':
        k = np.arange(int(np.prod(shape)))
        return {'weighting': (2.0 ** ((k % 3) - 1)).reshape(shape).astype(rdtype)}
    return {'weighting': float(w)}


def _build_domain(cfg):
    shape = tuple(cfg['shape'])
    dom = cfg['dom']
    ndim = len(shape)
    nob = _nobs(ndim, dom['nob'])
    w = dom.get('w')
    if cfg.get('w') == 'array':
        w = 'array'
    if dom.get('nonuni'):
        part = None
        for ax in range(ndim - 1):
            lo, hi = _extent(ax, shape[ax], G0[ax], nob[ax])
            p = odl.uniform_partition(lo, hi, shape[ax], nodes_on_bdry=tuple(map(bool, nob[ax])))
            part = p if part is None else part.append(p)
        pn = odl.nonuniform_partition([float(t) for t in np.cumsum(np.arange(shape[-1]))])
        part = pn if part is None else part.append(pn)
        tsp = odl.rn(shape, dtype=dom['dtype'], weighting=0.5)
        return odl.DiscretizedSpace(part, tsp)
    los, his = zip(*[_extent(ax, shape[ax], G0[ax], nob[ax]) for ax in range(ndim)])
    return odl.uniform_discr(list(los), list(his), shape, dtype=dom['dtype'],
                             nodes_on_bdry=[tuple(map(bool, p)) for p in nob],
                             **_weighting_arg(w, shape, _rdt(dom['dtype'])))


def _grow_left(n, m, p):
    """Signed number of cells by which the grid start moves to the left."""
    return p if m > n else -p if m < n else 0


def _expected_offset(shape, newshp, offset):
    """(list of admissible offset tuples, ambiguous?) following the constructor docs."""
    if offset is not None:
        return [tuple(p if n != m else 0 for n, m, p in zip(shape, newshp, offset))], False
    cands = [[]]
    amb = False
    for n, m in zip(shape, newshp):
        d = m - n
        if d >= 0:
            opts = [d - d // 2]         # evenly, preference for left
        else:
            # shrinking with an odd difference: "preference for left" does not say whether
            # more is kept or more is removed on the left -- both accepted
            a = (-d) // 2
            opts = sorted(set([a, -d - a]))
            amb = amb or len(opts) > 1
        cands = [c + [o] for c in cands for o in opts]
    return [tuple(c) for c in cands], amb


def _close(a, b):
    a = np.asarray(a, dtype=float)
    b = np.asarray(b, dtype=float)
    return a.shape == b.shape and bool(np.all(np.abs(a - b) <= 1e-12 * (1 + np.abs(b))))


def _diag_weights(space):
    n = int(np.prod(space.shape))
    w = np.zeros(n)
    for k in range(n):
        e = np.zeros(n, dtype=space.dtype)
        e[k] = 1
        el = space.element(e.reshape(space.shape))
        w[k] = np.real(space.inner(el, el))
    return w


def _spelled(mode, c):
    """Another capitalisation of the pad mode (HEAD normalises with ``str(...).lower()``)."""
    if mode == 'constant':
        return 'Constant' if c is None else 'CONSTANT'
    return {'symmetric': 'Symmetric', 'periodic': 'PERIODIC', 'order0': 'Order0',
            'order1': 'ORDER1'}[mode]


class _InputModified(Exception):
    pass


def _exc_symptom(e):
    return 'input_modified' if isinstance(e, _InputModified) else 'raises:' + type(e).__name__


def _op_matrix(op, rows, dom_shape):
    """Apply ``op`` to every row (flat input); returns array of flat outputs."""
    outs = []
    for r in rows:
        x = op.domain.element(np.array(r).astype(op.domain.dtype).reshape(dom_shape))
        keep = x.asarray().copy()
        y = op(x)
        if not _same(x.asarray(), keep):
            raise _InputModified('operator input changed by the call: was %s, is %s'
                                 % (_fmt(keep), _fmt(x.asarray())))
        outs.append(np.array(y.asarray()).reshape(-1))
    return np.array(outs)


def _run_op(cfg):
    shape, newshp = tuple(cfg['shape']), tuple(cfg['newshp'])
    ndim = len(shape)
    domspec = cfg['dom']
    how = cfg['how']
    first = {}
    sigs = set()
    evals = 0
    skipped = 0
    offtxt = 'offset given' if cfg['offset'] is not None else 'default offset'

    def report(site, sym, det):
        first.setdefault((site, sym), det)

    dom = _build_domain(cfg)
    cands, amb = _expected_offset(shape, newshp, cfg['offset'])
    dk_nob = cfg['dk_nob']
    dnob = _nobs(ndim, domspec['nob'])
    req_nob = _nobs(ndim, dk_nob) if dk_nob is not None else None
    ran_nob = _nobs(ndim, cfg.get('ran_nob') or 'F')    # of a hand-built range (how='range')
    cplx = np.dtype(domspec['dtype']).kind == 'c'
    n_in, n_out = int(np.prod(shape)), int(np.prod(newshp))
    head0 = ('domain=%s how=%s ran_shp=%s offset=%s discr_kwargs nodes_on_bdry=%s weighting=%s%s'
             % (_srepr(dom), how, list(newshp),
                cfg['offset'][0] if cfg.get('offset_form') == 'scalar' else cfg['offset'],
                dk_nob, cfg.get('w'),
                (' dtype=%s' % cfg['ran_dtype'] if cfg.get('ran_dtype') else '')
                + (' range built with nodes_on_bdry=%s' % ran_nob if cfg.get('ran_nob') else '')))

    def make(mode, c):
        kw = {'pad_mode': _spelled(mode, c) if cfg.get('spell') else mode}
        if c is not None:
            kw['pad_const'] = c
        if how == 'ran_shp':
            dk = {}
            if req_nob is not None:
                # every documented way of writing the option is used somewhere
                if dk_nob == 'F':
                    dk['nodes_on_bdry'] = False
                elif dk_nob == 'T':
                    dk['nodes_on_bdry'] = True if ndim == 1 else [True] * ndim
                elif ndim == 1:
                    dk['nodes_on_bdry'] = tuple(map(bool, req_nob[0]))
                else:
                    dk['nodes_on_bdry'] = [tuple(map(bool, p)) for p in req_nob]
            if cfg.get('w') is not None:
                dk.update(_weighting_arg(cfg['w'], newshp, _rdt(domspec['dtype'])))
            if cfg.get('ran_dtype'):
                dk['dtype'] = cfg['ran_dtype']      # "passed to the uniform_discr constructor"
            if dk:
                kw['discr_kwargs'] = dk
            if cfg['offset'] is not None:
                kw['offset'] = (list(cfg['offset'])
                                if ndim > 1 and cfg.get('offset_form') != 'scalar'
                                else cfg['offset'][0])
            return odl.ResizingOperator(dom, ran_shp=newshp, **kw)
        off = cands[0]
        los, his = [], []
        for ax in range(ndim):
            g0 = G0[ax] - _grow_left(shape[ax], newshp[ax], off[ax]) * CELL[ax]
            lo, hi = _extent(ax, newshp[ax], g0, ran_nob[ax])
            los.append(lo)
            his.append(hi)
        if domspec.get('nonuni'):
            # the untouched last axis carries the domain's own non-uniform partition
            part = None
            for ax in range(ndim - 1):
                pu = odl.uniform_partition(los[ax], his[ax], newshp[ax])
                part = pu if part is None else part.append(pu)
            pn = dom.partition.byaxis[ndim - 1]
            part = pn if part is None else part.append(pn)
            ran = odl.DiscretizedSpace(part, odl.rn(newshp, dtype=domspec['dtype'],
                                                    weighting=0.5))
            return odl.ResizingOperator(dom, ran, **kw)
        ran = odl.uniform_discr(los, his, newshp, dtype=cfg.get('ran_dtype') or domspec['dtype'],
                                nodes_on_bdry=[tuple(map(bool, p)) for p in ran_nob],
                                **_weighting_arg(cfg.get('w') or domspec.get('w'), newshp,
                                                 _rdt(domspec['dtype'])))
        return odl.ResizingOperator(dom, ran, **kw)

    geometry_done = False
    for mode in MODES:
        for c in ([None, 1.5] if mode == 'constant' else [None]):
            head = head0 + ' pad_mode=%s pad_const=%s' % (mode, c)
            try:
                op = make(mode, c)
            except Exception as e:
                if cfg.get('spell') and isinstance(e, ValueError):
                    # the docstring lists the lower-case names only; refusing another
                    # capitalisation cleanly is fine (HEAD lower-cases and accepts)
                    skipped += 1
                    break
                report('ResizingOperator[%s,%s]' % (how, offtxt), 'raises:' + type(e).__name__,
                       head + ': constructor: %r' % (e,))
                evals += 1
                break
            ran = op.range
            if cfg.get('spell'):
                # once a spelling is accepted the operator must be THE operator of that mode in
                # every clause below (all judged against the lower-case ``mode``)
                head += ' (pad_mode given as %r)' % _spelled(mode, c)
                if str(op.pad_mode).lower() != mode:
                    report('ResizingOperator[%s]' % mode, 'pad_mode_attribute_differs',
                           head + ': op.pad_mode=%r' % (op.pad_mode,))
            # -------------------------------------------------------------- offset, geometry
            off = tuple(int(o) for o in op.offset)
            if not geometry_done:
                geometry_done = True
                evals += 1
                if off not in cands:
                    report('ResizingOperator[%s,%s]' % (how, offtxt), 'offset_differs',
                           head + ': op.offset=%s, expected %s' % (off, cands))
                elif amb:
                    skipped += 1
                if tuple(op.axes) != tuple(i for i in range(ndim) if shape[i] != newshp[i]):
                    report('ResizingOperator[%s,%s]' % (how, offtxt), 'axes_differ',
                           head + ': op.axes=%s' % (op.axes,))
                if tuple(ran.shape) != newshp or op.domain != dom:
                    report('ResizingOperator[%s,%s]' % (how, offtxt), 'range_shape_differs',
                           head + ': range.shape=%s' % (ran.shape,))
                if ran.dtype != np.dtype(cfg.get('ran_dtype') or dom.dtype):
                    report('ResizingOperator[%s,%s]' % (how, offtxt), 'range_dtype_differs',
                           head + ': %s' % ran.dtype)
                for ax in range(ndim):
                    kind = ('growing' if newshp[ax] > shape[ax] else
                            'shrinking' if newshp[ax] < shape[ax] else 'unchanged')
                    gsite = 'ResizingOperator.range[%s,%s,%s axis]' % (how, offtxt, kind)
                    dgrid = dom.grid.coord_vectors[ax]
                    rgrid = ran.grid.coord_vectors[ax]
                    if not dom.is_uniform_byaxis[ax]:
                        if not (_close(rgrid, dgrid) and _close(ran.min_pt[ax], dom.min_pt[ax])
                                and _close(ran.max_pt[ax], dom.max_pt[ax])):
                            report(gsite, 'nonuniform_axis_changed', head + ' axis %d' % ax)
                        continue
                    use_off = off[ax] if off[ax] in [cd[ax] for cd in cands] else cands[0][ax]
                    g0 = dgrid[0] - _grow_left(shape[ax], newshp[ax], use_off) * CELL[ax]
                    ref_grid = g0 + CELL[ax] * np.arange(newshp[ax])
                    if not _close(ran.cell_sides[ax], CELL[ax]):
                        report(gsite, 'cell_sides_changed', head + ' axis %d: range cell side '
                               '%r, domain %r' % (ax, ran.cell_sides[ax], CELL[ax]))
                    if not _close(rgrid, ref_grid):
                        report(gsite, 'range_grid_misplaced',
                               head + ' axis %d: domain grid %s, offset %d -> range grid must be '
                               '%s, is %s (range=%s)' % (ax, _fmt(dgrid), use_off,
                                                         _fmt(ref_grid), _fmt(rgrid),
                                                         _srepr(ran)))
                        continue
                    # boundary placement (documented semantics of nodes_on_bdry)
                    if how == 'range':
                        continue
                    ext_req = _extent(ax, newshp[ax], g0, req_nob[ax] if req_nob else (0, 0))
                    ext_dom = _extent(ax, newshp[ax], g0, dnob[ax])
                    got = (ran.min_pt[ax], ran.max_pt[ax])
                    if req_nob is not None or tuple(dnob[ax]) == (0, 0):
                        if not _close(got, ext_req):
                            report(gsite, 'range_extent_differs', head + ' axis %d: expected '
                                   '[%s, %s], got [%s, %s]' % ((ax,) + ext_req + got))
                    else:
                        # docs: "same attributes as domain" vs. uniform_discr default -- either
                        skipped += 1
                        if not (_close(got, ext_req) or _close(got, ext_dom)):
                            report(gsite, 'range_extent_differs', head + ' axis %d: got [%s, %s]'
                                   % ((ax,) + got))
            if off not in cands:
                continue        # values are judged relative to the documented offset only
            # -------------------------------------------------------------- forward values
            cval = 0 if c is None else c
            lin = (mode != 'constant' or cval == 0)
            vsite = 'ResizingOperator[%s]' % mode
            if bool(op.is_linear) != lin:
                report(vsite, 'is_linear_flag_wrong', head + ': is_linear=%s' % op.is_linear)
            why = R.why_inadmissible(shape, newshp, off, mode)
            X = _inputs(n_in, cplx)
            if why:
                evals += 1
                try:
                    op(dom.element(X[0].reshape(shape)))
                    report(vsite, 'inadmissible_padding_accepted', head + ': ' + why)
                except ValueError:
                    pass
                except Exception as e:
                    report(vsite, 'inadmissible_raises:' + type(e).__name__,
                           head + ': %s; %r' % (why, e))
                sigs.add('op:%s:refused' % mode)
            else:
                M, cmask = R.matrix(shape, newshp, off, mode)
                EXP = X @ M.T.astype(X.dtype) + cval * cmask[None, :]
                try:
                    GOT = _op_matrix(op, X, shape)
                    evals += len(X)
                    if op.is_linear and np.any(GOT[1] != 0):
                        report(vsite, 'is_linear_inconsistent', head + ': is_linear=True but '
                               'A(0) = %s' % _fmt(GOT[1].reshape(newshp)))
                    if not _same(GOT, EXP.astype(dom.dtype)):
                        r = [i for i in range(len(X)) if not _same(GOT[i],
                                                                   EXP[i].astype(dom.dtype))][0]
                        report(vsite, 'forward_differs', head + ' input=%s expected=%s got=%s'
                               % (_fmt(X[r].reshape(shape)), _fmt(EXP[r].reshape(newshp)),
                                  _fmt(GOT[r].reshape(newshp))))
                    # call with out=
                    y = ran.element(np.full(newshp, np.nan))
                    res = op(dom.element(X[0].reshape(shape)), out=y)
                    evals += 1
                    if res is not y or not _same(y.asarray().reshape(-1),
                                                 EXP[0].astype(dom.dtype)):
                        report(vsite, 'out_call_differs', head + ' got=%s' % _fmt(y.asarray()))
                except Exception as e:
                    report(vsite, _exc_symptom(e), head + ': call: %r' % (e,))
                sigs.add('op:%s:ok' % mode)
            # -------------------------------------------------------------- derivative
            try:
                der = op.derivative(dom.element(X[0].reshape(shape)))
                evals += 1
                if lin:
                    if der is not op and der != op:
                        report('ResizingOperator.derivative', 'linear_derivative_not_self', head)
                elif not why:
                    if not der.is_linear or der.domain != dom or der.range != ran:
                        report('ResizingOperator.derivative', 'derivative_spaces_or_flag_wrong',
                               head)
                    else:
                        GOT = _op_matrix(der, X, shape)
                        evals += len(X)
                        if not _same(GOT, (X @ M.T.astype(X.dtype)).astype(dom.dtype)):
                            report('ResizingOperator.derivative', 'derivative_not_zero_padding',
                                   head + ' got rows %s' % _fmt(GOT))
            except Exception as e:
                report('ResizingOperator.derivative', _exc_symptom(e),
                       head + ': %r' % (e,))
            # -------------------------------------------------------------- adjoint
            if not lin:
                # Operator.adjoint: "Raises OpNotImplementedError"; a non-linear map has none
                evals += 1
                try:
                    op.adjoint
                    skipped += 1
                except NotImplementedError:
                    pass
                except Exception as e:
                    report('ResizingOperator.adjoint[non-linear]', 'raises:' + type(e).__name__,
                           head + ': %r' % (e,))
            if lin:
                wd, wr = _diag_weights(dom), _diag_weights(ran)
                weq = bool(np.all(wd == wd[0]) and np.all(wr == wd[0])) if len(wd) else True
                if weq:
                    wcls = 'equal weights'
                elif cfg.get('w') == 'array':
                    wcls = 'array weights'
                elif cfg.get('w') is not None:
                    wcls = 'weighting constants differ'
                else:       # nodes on the boundary: boundary cells count with their fraction
                    wcls = 'boundary-cell weights'
                asite = 'ResizingOperator.adjoint[%s;%s]' % (mode, wcls)
                try:
                    adj = op.adjoint
                    if adj.domain != ran or adj.range != dom or not adj.is_linear:
                        report(asite, 'adjoint_spaces_or_flag_wrong', head)
                    if adj.adjoint is not op and adj.adjoint != op:
                        report(asite, 'adjoint_of_adjoint_not_self', head)
                    Y = _inputs(n_out, cplx)
                    if cfg.get('ran_dtype') == 'float32' and n_out:
                        # values whose folded sums (2**24 + 1, ...) exist in the domain's
                        # float64 but not in the range's float32
                        big = np.array([2.0 ** 24 if k % 2 == 0 else 1.0 for k in range(n_out)])
                        Y = np.vstack([Y, big[None, :]])
                    if why:
                        evals += 1
                        try:
                            adj(ran.element(Y[0].reshape(newshp)))
                            report(asite, 'inadmissible_padding_accepted', head + ': ' + why)
                        except ValueError:
                            pass
                        except Exception as e:
                            report(asite, 'inadmissible_raises:' + type(e).__name__,
                                   head + ': %s; %r' % (why, e))
                    else:
                        GOT = _op_matrix(adj, Y, newshp)        # rows: adj(y_r) flat (n_in)
                        evals += len(Y)
                        # <A x, y>_ran = <x, B y>_dom for all x  <=>  wd * B y = A^T (wr * y)
                        lhs = GOT * wd[None, :]
                        rhs = (Y * wr[None, :]) @ M.astype(Y.dtype)
                        if not _same(lhs.astype(complex), rhs.astype(complex)):
                            r = [i for i in range(len(Y)) if not _same(
                                lhs[i].astype(complex), rhs[i].astype(complex))][0]
                            k = int(np.flatnonzero(lhs[r] != rhs[r])[0])
                            ek = np.zeros(n_in)
                            ek[k] = 1
                            report(asite, 'adjoint_identity_fails',
                                   head + ': y=%s x=e_%d: <A x, y>_range = %s but '
                                   '<x, A^* y>_domain = %s (A^* y = %s, domain weight %s, range '
                                   'weights %s)' % (_fmt(Y[r].reshape(newshp)), k, rhs[r][k],
                                                    lhs[r][k], _fmt(GOT[r].reshape(shape)),
                                                    wd[k], _fmt(np.unique(wr))))
                except Exception as e:
                    report(asite, _exc_symptom(e), head + ': %r' % (e,))
                # ---------------------------------------------------------- adjoint.inverse
                if mode == 'constant':
                    try:
                        ainv = op.adjoint.inverse
                        evals += 1
                        if ainv.domain != dom or ainv.range != ran:
                            report('ResizingOperator.adjoint.inverse', 'inverse_spaces_wrong',
                                   head)
                    except Exception as e:
                        report('ResizingOperator.adjoint.inverse', 'raises:' + type(e).__name__,
                               head + ': op.adjoint.inverse: %r' % (e,))
            # -------------------------------------------------------------- inverse
            isite = 'ResizingOperator.inverse[%s]' % mode
            try:
                inv = op.inverse
                if inv.domain != ran or inv.range != dom:
                    report(isite, 'inverse_spaces_wrong', head)
                ioff = tuple(int(o) for o in inv.offset)
                if ioff != off:
                    report(isite, 'inverse_offset_differs', head + ': %s vs %s' % (ioff, off))
                else:
                    whyi = R.why_inadmissible(newshp, shape, off, mode)
                    Y = _inputs(n_out, cplx)
                    if whyi:
                        evals += 1
                        try:
                            inv(ran.element(Y[0].reshape(newshp)))
                            report(isite, 'inadmissible_padding_accepted', head + ': ' + whyi)
                        except ValueError:
                            pass
                        except Exception as e:
                            report(isite, 'inadmissible_raises:' + type(e).__name__,
                                   head + ': %s; %r' % (whyi, e))
                    else:
                        Mi, cmi = R.matrix(newshp, shape, off, mode)
                        GOT = _op_matrix(inv, Y, newshp)
                        evals += len(Y)
                        EXPi = Y @ Mi.T.astype(Y.dtype) + cval * cmi[None, :]
                        if not _same(GOT, EXPi.astype(dom.dtype)):
                            report(isite, 'inverse_differs', head + ' rows got=%s expected=%s'
                                   % (_fmt(GOT), _fmt(EXPi)))
                        if not why and all(m >= n for n, m in zip(shape, newshp)):
                            # extension followed by its inverse (cropping) is the identity
                            x0 = dom.element(X[0].reshape(shape))
                            back = inv(op(x0))
                            evals += 1
                            if not _same(back.asarray(), x0.asarray()):
                                report(isite, 'crop_after_extend_not_identity',
                                       head + ' x=%s back=%s' % (_fmt(x0.asarray()),
                                                                 _fmt(back.asarray())))
            except Exception as e:
                report(isite, _exc_symptom(e), head + ': %r' % (e,))
    viol = [{'site': s, 'symptom': y, 'detail': d} for (s, y), d in sorted(first.items())]
    pattern = ''.join('+' if m > n else '-' if m < n else '=' for n, m in zip(shape, newshp))
    sigs.add('op:%s:%s:%s:%s' % (how, offtxt, pattern, 'viol' if viol else 'clean'))
    return {'evals': evals, 'viol': viol, 'sig': sorted(sigs), 'skipped': skipped,
            'trivial': evals == 0}


# ------------------------------------------------------------------------------------------
# kind 'hist': constructor-argument history.  Every array-like constructor argument is
# overwritten IN PLACE by the caller after construction; the operator built before must not
# change in any clause (an operator is a value: what it computes is fixed when it is created).

HIST_ARGS = ['pad_const', 'ran_shp', 'offset', 'min_pt', 'max_pt', 'dom_shape']


def _hist_cfgs(tier):
    th = tier == 'thorough'
    cfgs = []
    geoms = [([2], [4], [1]), ([3], [2], [1]), ([2, 2], [3, 1], [1, 0])]
    if th:
        geoms += [([1], [3], [2]), ([3], [3], [0]), ([4], [7], [0]), ([2, 3], [4, 5], [1, 2]),
                  ([3, 2], [2, 4], [1, 1]), ([2, 2, 2], [3, 2, 1], [1, 0, 1])]
    for shape, newshp, off in geoms:
        for dtype in (['float64', 'complex128', 'float32'] if th else ['float64']):
            for mode in MODES:
                for c in ([0, 1.5] if mode == 'constant' else [0]):
                    for pcf in ('same', 'other', '1-elem'):
                        cfgs.append({'kind': 'hist', 'shape': shape, 'newshp': newshp,
                                     'offset': off, 'dtype': dtype, 'mode': mode, 'c': c,
                                     'pc_form': pcf})
    return cfgs


def _observe(op, X, Y, shape, newshp):
    """Everything C16 looks at, as one comparable value."""
    obs = {}
    obs['pad_const'] = complex(op.pad_const)
    obs['is_linear'] = bool(op.is_linear)
    obs['offset'] = tuple(int(o) for o in op.offset)
    obs['axes'] = tuple(op.axes)
    for nm, sp in (('domain', op.domain), ('range', op.range)):
        obs[nm] = (tuple(sp.shape), tuple(float(v) for v in sp.min_pt),
                   tuple(float(v) for v in sp.max_pt), str(sp.dtype))
    obs['forward'] = _op_matrix(op, X, shape).tolist()
    inv = op.inverse
    obs['inverse.pad_const'] = complex(inv.pad_const)
    obs['inverse.is_linear'] = bool(inv.is_linear)
    try:
        obs['inverse'] = _op_matrix(inv, Y, newshp).tolist()
    except ValueError as e:         # inadmissible padding in the opposite direction
        obs['inverse'] = 'ValueError'
    if op.is_linear:
        obs['adjoint'] = _op_matrix(op.adjoint, Y, newshp).tolist()
    else:
        obs['derivative'] = _op_matrix(op.derivative(op.domain.zero()), X, shape).tolist()
    # is_linear must agree with what the operator does to 0
    zero_out = np.asarray(obs['forward'][1])
    obs['maps_zero_to_zero'] = bool(np.all(zero_out == 0))
    return obs


def _run_hist(cfg):
    shape, newshp, off = tuple(cfg['shape']), tuple(cfg['newshp']), tuple(cfg['offset'])
    ndim = len(shape)
    mode, c = cfg['mode'], cfg['c']
    dt = np.dtype(cfg['dtype'])
    cplx = dt.kind == 'c'
    first = {}
    evals = 0
    head = ('ResizingOperator(uniform_discr(min_pt, max_pt, dom_shape, dtype=%s), ran_shp=%s, '
            'offset=%s, pad_mode=%s, pad_const=%s [%s]) with array-valued arguments'
            % (dt.name, list(newshp), list(off), mode, c, cfg['pc_form']))

    def report(site, sym, det):
        first.setdefault((site, sym), det)

    why = R.why_inadmissible(shape, newshp, off, mode)
    if why:
        return {'evals': 0, 'skipped': 1, 'sig': 'hist:inadmissible', 'trivial': True}
    ext = [_extent(ax, shape[ax], G0[ax], (0, 0)) for ax in range(ndim)]
    args = {
        'min_pt': np.array([e[0] for e in ext], dtype='float64'),
        'max_pt': np.array([e[1] for e in ext], dtype='float64'),
        'dom_shape': np.array(shape, dtype='int64'),
        'ran_shp': np.array(newshp, dtype='int64'),
        'offset': np.array(off, dtype='int64'),
    }
    other = {'float64': 'float32', 'float32': 'float64', 'complex128': 'complex64'}[dt.name]
    if cfg['pc_form'] == 'same':
        args['pad_const'] = np.array(c, dtype=dt)               # 0-d, exactly the range dtype
    elif cfg['pc_form'] == 'other':
        args['pad_const'] = np.array(c, dtype=other)            # 0-d, another dtype
    else:
        args['pad_const'] = np.array([c], dtype=dt)[0:1].reshape(())   # 0-d view of a buffer
    site0 = 'ResizingOperator[constructor]'
    try:
        dom = odl.uniform_discr(args['min_pt'], args['max_pt'], args['dom_shape'], dtype=dt)
        op = odl.ResizingOperator(dom, ran_shp=args['ran_shp'], offset=args['offset'],
                                  pad_mode=mode, pad_const=args['pad_const'])
    except Exception as e:
        return {'evals': 1, 'sig': 'hist:ctor-raises', 'viol': [
            {'site': site0, 'symptom': 'raises:' + type(e).__name__,
             'detail': head + ': %r' % (e,)}]}
    n_in, n_out = int(np.prod(shape)), int(np.prod(newshp))
    X, Y = _inputs(n_in, cplx), _inputs(n_out, cplx)
    try:
        obs0 = _observe(op, X, Y, shape, newshp)
    except Exception as e:
        return {'evals': 1, 'sig': 'hist:observe-raises', 'viol': [
            {'site': site0, 'symptom': _exc_symptom(e), 'detail': head + ': %r' % (e,)}]}
    evals += len(X) + 2 * len(Y)
    # the operator built from arrays must be the documented one in the first place
    M, cmask = R.matrix(shape, newshp, off, mode)
    EXP = X @ M.T.astype(X.dtype) + c * cmask[None, :]
    if not _same(np.array(obs0['forward']), EXP.astype(dt)):
        report(site0, 'forward_differs', head + ': rows %s, expected %s'
               % (_fmt(np.array(obs0['forward'])), _fmt(EXP)))
    lin = (mode != 'constant' or c == 0)
    if obs0['is_linear'] != lin or (lin and not obs0['maps_zero_to_zero']):
        report(site0, 'is_linear_flag_wrong', head + ': is_linear=%s, A(0)==0: %s'
               % (obs0['is_linear'], obs0['maps_zero_to_zero']))
    # now the caller re-uses its arrays
    new_vals = {'pad_const': 7, 'ran_shp': [n + 1 for n in newshp],
                'offset': [o + 1 for o in off], 'min_pt': args['min_pt'] + 10,
                'max_pt': args['max_pt'] + 20, 'dom_shape': [n + 1 for n in shape]}
    changed_sig = []
    for name in HIST_ARGS:
        before = args[name].copy()
        args[name][...] = new_vals[name]
        site = 'ResizingOperator[argument %s overwritten after construction]' % name
        try:
            obs = _observe(op, X, Y, shape, newshp)
            evals += len(X) + 2 * len(Y)
        except Exception as e:
            report(site, _exc_symptom(e), head + ': after %s[...] = %s: %r'
                   % (name, new_vals[name], e))
            continue
        diff = [k for k in obs0 if obs[k] != obs0[k]]
        if diff:
            k = diff[0]
            report(site, 'operator_changed', head + ': after the caller executed %s[...] = %s '
                   '(was %s) the existing operator changed in %s; first: %s was %s, is %s'
                   % (name, new_vals[name], before.tolist(), diff, k,
                      str(obs0[k])[:200], str(obs[k])[:200]))
            changed_sig.append(name)
        if obs['is_linear'] and not obs['maps_zero_to_zero']:
            report(site, 'is_linear_inconsistent', head + ': after %s[...] = %s: is_linear=True '
                   'but A(0) != 0' % (name, new_vals[name]))
        args[name][...] = before        # one argument at a time
    viol = [{'site': s, 'symptom': y, 'detail': d} for (s, y), d in sorted(first.items())]
    return {'evals': evals, 'viol': viol, 'skipped': 0, 'trivial': evals == 0,
            'sig': 'hist:%s:%s:%s' % (mode, 'lin' if lin else 'affine',
                                      ','.join(changed_sig) or 'stable')}


# ------------------------------------------------------------------------------------------
# kind 'xr': explicitly given ``range=`` whose partition deviates from the consistent one in
# exactly ONE axis -- a growing, a shrinking or an UNCHANGED one -- by the cell size or by a
# shift, in three magnitude regimes of the cell size (an absolute tolerance in the comparison is
# visible for tiny cells, a missing relative one for huge cells).
#
# Constructor docs: "Alternatively, the range of the operator can be provided directly.  This
# requires that the partitions match, i.e. that the cell sizes are the same and there is no
# shift"; class docs: "mapping between uniformly discretized DiscretizedSpace spaces with the
# same DiscretizedSpace.cell_sides".  Property: "the resizing operator's range covers the
# enlarged physical domain with unchanged cell sizes, and its adjoint satisfies the adjoint
# identity in the weighted inner products".  So a deviating range is either refused cleanly
# (ValueError -- what HEAD does for resized axes) or, if an operator is returned, that operator
# is judged by the property: its range must have the domain's cell sides and must lie on the
# domain's grid, in EVERY axis.  Nothing else is demanded.

XR_SCALES = {'unit': 1.0, 'tiny': 2.0 ** -30, 'huge': 2.0 ** 30}
# (name, class, parameter); cell factors are far from 1 on the scale of any sensible relative
# tolerance (>= 2**-10); factors closer to 1 are "the same cell size" for some tolerance and
# are not enumerated
XR_DEVS = [('none', 'consistent', None),
           ('cell*2 same first grid point', 'cell sides differ', (2.0, 'grid0')),
           ('cell/2 same first grid point', 'cell sides differ', (0.5, 'grid0')),
           ('cell*2 same min_pt', 'cell sides differ', (2.0, 'min')),
           ('cell/2 same min_pt', 'cell sides differ', (0.5, 'min')),
           ('cell*(1+2**-10) same first grid point', 'cell sides differ',
            (1 + 2.0 ** -10, 'grid0')),
           ('cell*(1-2**-10) same min_pt', 'cell sides differ', (1 - 2.0 ** -10, 'min')),
           ('shifted by +1/2 cell', 'shifted by a fraction of a cell', 0.5),
           ('shifted by +1/4 cell', 'shifted by a fraction of a cell', 0.25),
           ('shifted by -1/4 cell', 'shifted by a fraction of a cell', -0.25),
           ('shifted by +1 cell', 'shifted by whole cells', 1.0),
           ('shifted by -2 cells', 'shifted by whole cells', -2.0)]


def _xr_cfgs(tier):
    th = tier == 'thorough'
    blocks = [(range(1, 5), range(1, 8), 1), ([2, 3], range(1, 5), 2), ([2], [1, 2, 3], 3)]
    if th:
        blocks = [(range(1, 7), range(1, 11), 1), ([1, 2, 3], range(1, 6), 2),
                  ([1, 2], [1, 2, 3], 3)]
    cfgs = []
    for sizes, newsizes, ndim in blocks:
        pairs = []
        for shape in itertools.product(sizes, repeat=ndim):
            for newshp in itertools.product(newsizes, repeat=ndim):
                pairs.append((sum(shape) + sum(newshp), shape, newshp))
        pairs.sort()
        for scale in (('unit', 'tiny', 'huge') if th or ndim < 3 else ('unit',)):
            for _, shape, newshp in pairs:
                cfgs.append({'kind': 'xr', 'shape': list(shape), 'newshp': list(newshp),
                             'scale': scale})
    return cfgs


def _run_xr(cfg):
    shape, newshp = tuple(cfg['shape']), tuple(cfg['newshp'])
    ndim = len(shape)
    S = XR_SCALES[cfg['scale']]
    regime = '' if cfg['scale'] == 'unit' else ';%s cells' % cfg['scale']
    first = {}
    sigs = set()
    evals = 0
    skipped = 0

    def report(site, sym, det):
        first.setdefault((site, sym), det)

    cell = [CELL[ax] * S for ax in range(ndim)]
    los, his = zip(*[(G0[ax] * S - cell[ax] / 2, G0[ax] * S + (shape[ax] - 0.5) * cell[ax])
                     for ax in range(ndim)])
    dom = odl.uniform_discr(list(los), list(his), shape)
    n_in, n_out = int(np.prod(shape)), int(np.prod(newshp))
    x0 = _generic(n_in, False).reshape(shape)
    y0 = _generic(n_out, False)[::-1].reshape(newshp)

    def consequences(op):
        """What the accepted operator does to the two geometric clauses (for the detail)."""
        try:
            x, y = op.domain.element(x0), op.range.element(y0)
            lhs, rhs = op(x).inner(y), x.inner(op.adjoint(y))
            return ('range.cell_sides=%s domain.cell_sides=%s; range grid start %s, domain grid '
                    'start %s, op.offset=%s; <A x, y>_range = %r, <x, A^* y>_domain = %r'
                    % (_fmt(op.range.cell_sides), _fmt(op.domain.cell_sides),
                       _fmt(op.range.grid.min_pt), _fmt(op.domain.grid.min_pt),
                       tuple(op.offset), lhs, rhs))
        except Exception as e:
            return 'using the operator: %r' % (e,)

    for off in R.all_offsets(shape, newshp):
        g0 = [G0[ax] * S - _grow_left(shape[ax], newshp[ax], off[ax]) * cell[ax]
              for ax in range(ndim)]
        for ax in range(ndim):
            akind = ('growing' if newshp[ax] > shape[ax] else
                     'shrinking' if newshp[ax] < shape[ax] else 'unchanged')
            for dname, dclass, par in XR_DEVS:
                if dclass == 'consistent' and ax > 0:
                    continue
                if dclass == 'shifted by whole cells' and akind != 'unchanged':
                    # in a resized axis this is another offset: admissible while the block stays
                    # inside (kind 'op'), undocumented otherwise -- not enumerated
                    continue
                rlo, rhi = [], []
                for a in range(ndim):
                    c, m = cell[a], newshp[a]
                    lo, hi = g0[a] - c / 2, g0[a] + (m - 0.5) * c
                    if a == ax and dclass == 'cell sides differ':
                        c2 = par[0] * c
                        lo = g0[a] - c2 / 2 if par[1] == 'grid0' else lo
                        hi = lo + m * c2
                    elif a == ax and dclass.startswith('shifted'):
                        lo, hi = lo + par * c, hi + par * c
                    rlo.append(lo)
                    rhi.append(hi)
                ran = odl.uniform_discr(rlo, rhi, newshp)
                head = 'ResizingOperator(domain=%s, range=%s)  [range consistent with offset %s' \
                    % (_srepr(dom), _srepr(ran), list(off))
                head += (' in every axis]' if dclass == 'consistent' else
                         ' except in axis %d (%s): %s]' % (ax, akind, dname))
                evals += 1
                try:
                    op = odl.ResizingOperator(dom, ran)
                except ValueError:
                    if dclass == 'consistent':
                        report('ResizingOperator[range=;consistent%s]' % regime,
                               'raises:ValueError', head + ': an admissible range was refused')
                    sigs.add('xr:%s:%s:%s:refused' % (dclass, akind, cfg['scale']))
                    continue
                except Exception as e:
                    report('ResizingOperator[range=;%s;%s axis%s]' % (dclass, akind, regime),
                           'raises:' + type(e).__name__, head + ': %r' % (e,))
                    continue
                sigs.add('xr:%s:%s:%s:accepted' % (dclass, akind, cfg['scale']))
                if dclass == 'consistent':
                    # the admissible range in this magnitude regime: offset, values, adjoint
                    csite = 'ResizingOperator[range=;consistent%s]' % regime
                    exp_off = tuple(o if n != m else 0 for o, n, m in zip(off, shape, newshp))
                    if tuple(int(o) for o in op.offset) != exp_off:
                        report(csite, 'offset_differs', head + ': op.offset=%s, expected %s'
                               % (tuple(op.offset), exp_off))
                        continue
                    for mode in MODES:
                        if R.why_inadmissible(shape, newshp, off, mode):
                            continue
                        try:
                            opm = odl.ResizingOperator(dom, ran, pad_mode=mode)
                            got = opm(dom.element(x0)).asarray()
                            evals += 1
                            M, _ = R.matrix(shape, newshp, off, mode)
                            exp = (M @ x0.reshape(-1)).reshape(newshp)
                            if not _same(got, exp):
                                report(csite, 'forward_differs', head + ' pad_mode=%s input=%s '
                                       'expected=%s got=%s' % (mode, _fmt(x0), _fmt(exp),
                                                               _fmt(got)))
                            # equal cell volumes on both sides: the transpose is the adjoint
                            y = ran.element(y0)
                            lhs = opm(dom.element(x0)).inner(y)
                            rhs = dom.element(x0).inner(opm.adjoint(y))
                            evals += 1
                            if not _close(lhs, rhs):
                                report(csite, 'adjoint_identity_fails', head + ' pad_mode=%s: '
                                       '<A x, y>_range = %r, <x, A^* y>_domain = %r'
                                       % (mode, lhs, rhs))
                        except Exception as e:
                            report(csite, 'raises:' + type(e).__name__,
                                   head + ' pad_mode=%s: %r' % (mode, e))
                    continue
                # a deviating range was accepted: the operator is judged by the property
                site = 'ResizingOperator[range=;%s;%s axis%s]' % (dclass, akind, regime)
                if dclass == 'shifted by whole cells':
                    # In a resized axis a shift by whole cells is simply the offset, and the
                    # library's own refusal speaks of "a non-multiple of cell_sides"; whether
                    # "there is no shift" also excludes whole cells in an axis that is not
                    # resized (HEAD: accepted, op.offset 0 there, values copied as they are) is
                    # not arbitrated by the property -- counted, not judged
                    skipped += 1
                    continue
                if dclass.startswith('shifted') and akind == 'unchanged':
                    # the magnitude regime plays no role for this class (no tolerance involved)
                    site = 'ResizingOperator[range=;%s;%s axis]' % (dclass, akind)
                if dclass == 'cell sides differ':
                    report(site, 'range_cell_sides_differ_from_domain',
                           head + ': accepted without an error although the cell sides differ '
                           'by the factor %r in axis %d; %s' % (par[0], ax, consequences(op)))
                else:
                    report(site, 'range_shifted_relative_to_domain',
                           head + ': accepted without an error although the range grid is '
                           'shifted by %r cells against the domain grid in axis %d (documented '
                           'requirement: "there is no shift"; the values are copied unshifted); '
                           '%s' % (par, ax, consequences(op)))
    viol = [{'site': s, 'symptom': y, 'detail': d} for (s, y), d in sorted(first.items())]
    return {'evals': evals, 'viol': viol, 'sig': sorted(sigs) or ['xr:none'],
            'skipped': skipped, 'trivial': evals == 0}


# ------------------------------------------------------------------------------------------
# kind 'rej': argument combinations the documentation excludes must be refused cleanly

def _run_rej(cfg):
    name = cfg['name']
    dom = odl.uniform_discr(0, 2, 4)
    arr = np.arange(3.0)
    want = (ValueError, TypeError)
    doc = ''
    accept_ok = False
    try:
        if name == 'range_cell_sides_differ':
            doc = '"This requires that the partitions match, i.e. that the cell sizes are the same"'
            odl.ResizingOperator(dom, odl.uniform_discr(0, 6, 6))
        elif name == 'range_shifted_by_fraction':
            doc = '"... and there is no shift"'
            odl.ResizingOperator(dom, odl.uniform_discr(-0.75, 2.25, 6))
        elif name == 'offset_with_range':
            doc = '"This option is can only be used together with ``ran_shp``"'
            odl.ResizingOperator(dom, odl.uniform_discr(-0.5, 2.5, 6), offset=1)
        elif name == 'neither_range_nor_shape':
            doc = '"ran_shp ... is mandatory if ``range`` is ``None``"'
            odl.ResizingOperator(dom)
        elif name == 'both_range_and_shape':
            doc = '"This can be provided instead of ``range``"'
            odl.ResizingOperator(dom, odl.uniform_discr(-0.5, 2.5, 6), ran_shp=(6,))
        elif name == 'resize_nonuniform_axis':
            doc = 'class doc: "mapping between uniformly discretized DiscretizedSpace spaces"'
            part = odl.nonuniform_partition([0.0, 1.0, 3.0])
            sp = odl.DiscretizedSpace(part, odl.rn(3))
            odl.ResizingOperator(sp, ran_shp=(5,))
        elif name == 'bad_pad_mode_op':
            doc = 'pad_mode must be one of the five documented strings'
            odl.ResizingOperator(dom, ran_shp=(6,), pad_mode='reflect')
        elif name == 'bad_pad_mode_array':
            doc = 'pad_mode must be one of the five documented strings'
            NU.resize_array(arr, (5,), pad_mode='wrap')
        elif name == 'bad_direction':
            doc = "direction : {'forward', 'adjoint'}"
            NU.resize_array(arr, (5,), direction='backward')
        elif name == 'out_wrong_shape':
            doc = '"out ... Must have shape ``newshp``"'
            NU.resize_array(arr, (5,), out=np.zeros(4))
        elif name == 'ndim_mismatch':
            doc = 'newshp has another number of axes than arr'
            NU.resize_array(arr, (5, 5))
        elif name == 'ndim_mismatch_out':
            doc = 'out has another number of axes than arr'
            NU.resize_array(arr, (5, 5), out=np.zeros((5, 5)))
        elif name == 'domain_not_discretized':
            doc = '"domain : uniform `DiscretizedSpace`"'
            odl.ResizingOperator(odl.rn(3), ran_shp=(5,))
        elif name == 'newshp_not_sequence':
            doc = '"newshp : sequence of ints"'
            NU.resize_array(arr, 5)
        elif name == 'out_not_ndarray':
            doc = '"out : `numpy.ndarray`, optional"'
            NU.resize_array(arr, (5,), out=[0.0] * 5)
        elif name == 'nodes_on_bdry_wrong_length':
            doc = 'uniform_discr: "The length of the sequence must be ``len(shape)``"'
            odl.ResizingOperator(odl.uniform_discr([0, 0], [1, 1], (2, 2)), ran_shp=(3, 3),
                                 discr_kwargs={'nodes_on_bdry': [True, False, True]})
        elif name == 'pad_const_not_castable':
            # a non-integer constant for integer data: not documented; a clean refusal or a
            # result are both accepted, anything else is not
            doc = 'pad_const=1.5 for an int64 array'
            accept_ok = True
            NU.resize_array(np.arange(3), (5,), pad_const=1.5)
        else:
            raise KeyError(name)
    except want:
        return {'evals': 1, 'viol': [], 'sig': 'rej:%s:refused' % name}
    except Exception as e:
        return {'evals': 1, 'sig': 'rej:%s:unclean' % name,
                'viol': [{'site': 'reject[%s]' % name, 'symptom': 'raises:' + type(e).__name__,
                          'detail': '%s: expected ValueError/TypeError, got %r' % (doc, e)}]}
    if accept_ok:
        return {'evals': 1, 'viol': [], 'skipped': 1, 'sig': 'rej:%s:accepted' % name}
    return {'evals': 1, 'sig': 'rej:%s:accepted' % name,
            'viol': [{'site': 'reject[%s]' % name, 'symptom': 'not_rejected',
                      'detail': doc + ': the call succeeded'}]}


# ------------------------------------------------------------------------------------------

def run(cfg):
    if cfg['kind'] == 'arr':
        return _run_arr(cfg)
    if cfg['kind'] == 'arrx':
        return _run_arrx(cfg)
    if cfg['kind'] == 'op':
        return _run_op(cfg)
    if cfg['kind'] == 'hist':
        return _run_hist(cfg)
    if cfg['kind'] == 'xr':
        return _run_xr(cfg)
    return _run_rej(cfg)


def trace_functions():
    return [NU.resize_array, NU._intersection_slice_tuples, NU._assign_intersection,
            NU._padding_slices_outer, NU._padding_slices_inner, NU._apply_padding,
            DO.ResizingOperator.__init__, DO.ResizingOperator._call,
            DO.ResizingOperator.derivative, DO.ResizingOperator.adjoint,
            DO.ResizingOperator.inverse, DO.ResizingOperator.axes,
            DO._offset_from_spaces, DO._resize_discr]


def summarize(results):
    kinds = {}
    for cfg, res in results:
        k = cfg['kind'] if cfg['kind'] not in ('arr', 'arrx') else \
            '%s%dd' % (cfg['kind'], len(cfg['shape']))
        d = kinds.setdefault(k, {'states': 0, 'executions': 0})
        d['states'] += 1
        d['executions'] += res['evals']
    return {'per_kind': kinds}


def meta(tier):
    th = tier == 'thorough'
    return {
        'rule': 'one state = (shape, new shape, dtype/out/layout variant) of resize_array, or '
                '(domain, range given by ran_shp|range, offset, discr_kwargs) of '
                'ResizingOperator. Inside a resize_array state: every offset in '
                '[0, |new-old|] per axis x 5 pad modes x 2 directions x pad constants; for each, '
                '"all array contents" is decided by linearity: the response to every basis '
                'vector (and i*e_k for complex data), to 0 (affine constant mode) and to one '
                'generic vector (linearity itself) is compared exactly with the index-based '
                'reference (Kronecker product of per-axis matrices), with numpy.pad '
                '(constant/wrap/reflect/edge) in the forward direction, with the transpose in '
                'the adjoint direction; inadmissible paddings must raise ValueError. '
                'distinct = (ndim, grow/shrink pattern, mode, direction, outcome) x executed-line '
                'signature of the anchored functions.',
        'bounds': {
            'resize_array 1-d': 'shape 0..%d -> 0..%d, variants with <= %d deviations of '
                                '(dtype, out, layout)' % ((6, 12, 3) if th else (4, 7, 2)),
            'resize_array 2-d': ('shape {1..4}^2 -> {1..7}^2 with <= 1 deviation; {1,2,3}^2 -> '
                                 '{1..5}^2 with <= 2 deviations; {0,1,2}^2 -> {0..3}^2 base')
            if th else 'shape {1,2,3}^2 -> {1..5}^2, <= 1 deviation',
            'resize_array 3-d': ('shape {1,2,3}^3 -> {1..5}^3 base; {2,3}^3 -> {1..4}^3 with <= 1 '
                                 'deviation; 4-d {1,2}^4 -> {1,2,3}^4 base')
            if th else 'shape {2,3}^3 -> {1..4}^3, base variant',
            'dtypes': DTYPES, 'out': ['absent', 'C', 'F', 'strided view', 'wider dtype'],
            'exact-integer dtype pairs (input, out)': [list(map(str, p)) for p in XPAIRS],
            'exact-integer bounds': ('1-d 0..6 -> 0..12, 2-d {1,2,3}^2 -> {1..5}^2 all pairs, 3-d '
                                     '{2,3}^3 -> {1..4}^3 four pairs') if th else
            '1-d 0..4 -> 0..7 all pairs, 2-d {2,3}^2 -> {1..4}^2 four pairs',
            'exact-integer inputs': 'generic, 0, e_k, V-shaped ramp (base 2**60 for 64-bit), '
                                    'large flat (100 int8, 200 uint8, 2**63 uint64, 6e4 float16, '
                                    '2**24/1 float32)',
            'explicit range= (kind op)': 'hand-built range with the uniform_discr defaults, with '
                                         'its own nodes_on_bdry (T/L 1-d, T/LR 2-d; thorough: + R, '
                                         'RL and complex / nodes_on_bdry domains), with dtype '
                                         'float32 for a float64 domain, and for a domain with a '
                                         'non-uniform untouched axis (range carries the same '
                                         'non-uniform partition)',
            'deviating range= (kind xr)': ('1-d 1..6 -> 1..10, 2-d {1,2,3}^2 -> {1..5}^2, 3-d '
                                           '{1,2}^3 -> {1,2,3}^3' if th else
                                           '1-d 1..4 -> 1..7, 2-d {2,3}^2 -> {1..4}^2, 3-d {2}^3 -> '
                                           '{1,2,3}^3 (3-d: unit cells only)')
            + '; cell sizes x {1, 2**-30, 2**30}; every consistent offset x every axis x '
              + '%d deviations' % (len(XR_DEVS) - 1),
            'argument history': '%d operators x 6 overwritten constructor arguments'
                                % len(_hist_cfgs(tier)),
            'input layout': ['C', 'F', 'strided view', 'negative strides', 'nested list'],
            'pad_const': '0, 1.5 (float), 1+2j (complex), 2 (int)',
            'ResizingOperator': ('1-d n 1..5 -> 1..9, 2-d {1,2,3}^2 -> {1..5}^2, 3-d {2}^3 -> '
                                 '{1,2,3}^3; default offset and every explicit offset; domain '
                                 'nodes_on_bdry F/T/mixed, discr_kwargs nodes_on_bdry '
                                 'none/F/T/mixed, range weighting inherited / 3.0 / array, '
                                 'float64, complex128, float32, one non-uniform untouched axis')
            if th else ('1-d n 1..4 -> 1..7 (all offsets, nodes_on_bdry variants, range '
                        'weighting inherited / 3.0), 2-d {2,3}^2 -> {1..4}^2'),
        },
        'assumptions': [
            'offsets outside [0, |new - old|] (block not inside the larger array) are not '
            'documented and not enumerated. Non-zero offset entries on axes of UNCHANGED size '
            '(1, size-1, 2; as a sequence or as one integer for all axes) ARE enumerated, for '
            'resize_array (base variant) and for ResizingOperator(ran_shp=, offset=): nothing is '
            'added or removed there and resizing is documented not to shift, so the entry must '
            'not influence the values, the range must keep the domain\'s grid and extent in that '
            'axis and op.offset must be 0 there',
            'narrow / unsigned / mixed dtypes (kind arrx: int8, uint8, uint64, int64, float16, '
            'float32 inputs; out absent or int64/float64) are judged against an exact Python-'
            'integer reference, and only where the exact result is representable in the result '
            'dtype (out.dtype if out is given, else the input dtype) and, for floating results, '
            'every partial sum is exact too; wrap-around and rounding cases are counted under '
            'unspecified_skipped, as is the adjoint direction of order1 on unsigned results '
            '(its matrix has negative entries)',
            'kind hist: an operator is a value -- after the caller overwrites, in place, an array '
            'it passed to the constructor (pad_const 0-d of the range dtype / another dtype / a '
            'view, ran_shp, offset, and the domain\'s min_pt, max_pt, shape), every observation '
            'C16 makes of the operator built before must be unchanged',
            'kind xr: range= "requires that the partitions match, i.e. that the cell sizes are '
            'the same and there is no shift". A range that deviates in ONE axis (cell size by a '
            'factor 2, 1/2, 1 +- 2**-10 -- factors closer to 1 are not enumerated; shift by 1/2, '
            '1/4, -1/4 cell) must be refused with ValueError or, if an operator is returned, that '
            'operator is judged by the property (range has the domain\'s cell sides and lies on '
            'the domain\'s grid in every axis, also the unchanged ones); a shift by WHOLE cells in '
            'an unchanged axis is counted under unspecified_skipped when accepted (in a resized '
            'axis whole cells are the offset); ranges that are non-uniform where the domain is '
            'uniform are not enumerated. The consistent range must be accepted in every magnitude '
            'regime, with the right offset, forward values and adjoint identity',
            'a non-integer pad_const for integer data and a non-zero pad_const in the adjoint '
            'direction are unspecified (counted under unspecified_skipped, any clean outcome '
            'accepted)',
            'default offset when shrinking by an odd number of cells: the documentation '
            '("preference for left") fits both splits; both accepted, values are then judged '
            'against the offset the operator reports',
            'boundary placement of the range is judged against discr_kwargs["nodes_on_bdry"] '
            'when given; when not given and the domain has nodes on the boundary, both the '
            'uniform_discr default and the domain\'s placement are accepted',
            'weights of domain and range are measured from the spaces\' own inner products '
            '(diagonal; C02 validates them); geometry comparisons use 1e-12 relative tolerance, '
            'all value comparisons are exact',
        ],
    }
