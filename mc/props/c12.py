"""C12 - solvers decrease what they promise to decrease and converge to optimality.

Exploration (configuration space, invariants per iterate; nothing sampled):

 (a) linear solvers on ALL symmetric positive definite n x n matrices over {-1,0,1,2} (n=2,3),
     plain and made ill-conditioned by the dyadic congruence D S D, D = diag(2^-3,1,..), on
     unweighted / constant-weighted / array-weighted rn(n), and on full-rank rectangular
     matrices over the same alphabet; every right-hand side of V^m, start 0 and a pattern:
       conjugate_gradient        energy-norm error strictly decreasing, exact after n steps
       conjugate_gradient_normal residual non-increasing (+ exact after n steps, full col. rank)
       landweber                 residual non-increasing, omega in {1/2,1,1.9}/||A||^2, default
       kaczmarz                  distance to the generating solution non-increasing after every
                                 inner step, omega_i in {1/2,1,1.5,1.9}/||A_i||^2, both orders
       steepest_descent + BacktrackingLineSearch (and the line search itself: Armijo)
                                 objective non-increasing (quadratics, Rosenbrock)
 (b) non-smooth solvers on a pool of problems min f(x) + g(Lx) (+ h(x)) that is built
     BACKWARDS from a primal-dual pair: for every x* in V^n and every pattern of residuals /
     sub-gradient representatives the data (translation, linear term, right-hand side) is chosen
     so that the reference sub-differentials (mc/ref/optim_ref.py) contain the KKT pair
     (x*, y*) - this inclusion is re-checked by the reference model in every state.  Then
       (i)  fixed point: started at the solution the solver does not move (where the API lets the
            dual start be given, or the dual solution is the solver's fixed zero start);
       (ii) bounded liveness: within K iterations the iterate has KKT residual
            (natural residual of  y* in dg(Lx), -L*y* - grad h(x) in df(x)) <= 1e-6*scale and,
            where the solution is unique, ||x_K - x*|| <= 1e-5 (1 + ||x*||);
       (iii) Fejer / Lyapunov monotonicity is COUNTED as a diagnostic, never judged.
 (c) power_method_opnorm(op, xstart, maxiter) <= ||op|| (1 + 1e-12) for all pool matrices, all
     basis / alphabet start vectors, maxiter 2..20, weighted spaces, both arms of the code.
 (d) histories of ONE operator object: an earlier use (evaluation, another solver call, a coarse
     op.norm(estimate=True, xstart=.., maxiter=.., rtol=..) with every basis / alphabet / weakly
     aligned / noise start) followed by the default step rules on the SAME object: landweber
     (omega=None), pdhg_stepsize, douglas_rachford_pd_stepsize, and pdhg / douglas_rachford_pd run
     with default steps on the non-smooth pool - the defaults stay admissible w.r.t. the TRUE norm.
"""
import itertools
import zlib

import numpy as np
import odl

from mc import spaces as S
from mc.ref import optim_ref as R

PROPERTY = 'C12'
BUDGET = {'quick': 1500, 'thorough': 3600}
INF = float('inf')

MV = [-1, 0, 1, 2]                    # matrix entry alphabet
RV = [-1.0, 0.0, 1.0, 2.0]            # right-hand side alphabet
WARR = {2: [2.0, 0.5], 3: [1.0, 2.0, 0.5]}
X0PAT = [1.0, -2.0, 0.5]
SCALES = [2.0 ** -17, 2.0 ** -30]      # scaled right-hand sides (zero start)
WARM = 2.0 ** -20                       # warm starts x* + WARM * e_k


# ----------------------------------------------------------------------------------------------
# harness operator: a matrix between (weighted) tensor spaces with the EXACT adjoint
# (odl.MatrixOperator.adjoint is the plain transpose, which is the adjoint only for equal
# constant weights - that is C05's finding and must not leak into this property)

class WMat(odl.Operator):
    def __init__(self, A, dom, ran, selfadj=False, _adj=None):
        super(WMat, self).__init__(dom, ran, linear=True)
        self.A = np.asarray(A, float)
        self._selfadj = selfadj
        self._adj = _adj

    def _call(self, x):
        return self.range.element(self.A.dot(x.asarray()))

    @property
    def adjoint(self):
        if self._selfadj:
            return self
        if self._adj is None:
            B = R.adjoint_matrix(self.A, S.weights(self.domain), S.weights(self.range))
            self._adj = WMat(B, self.range, self.domain, _adj=self)
        return self._adj


def _rn(n, wk):
    if wk == 'plain':
        return odl.rn(n)
    if wk == 'w2':
        return odl.rn(n, weighting=2.0)
    if wk == 'wa':
        return odl.rn(n, weighting=WARR[n])
    raise KeyError(wk)


def _matop(A, wk, impl, dom=None):
    """Operator of matrix A between rn(n)[wk] and rn(m)[wk']; impl 'odl' = odl.MatrixOperator
    (only where its transpose IS the adjoint), 'ref' = WMat."""
    A = np.asarray(A, float)
    m, n = A.shape
    if dom is None:
        dom = _rn(n, wk)
    if wk == 'wa':
        ran = dom if m == n else (odl.rn(m, weighting=WARR[m]) if m in WARR else odl.rn(m))
    else:
        ran = _rn(m, wk)
    if impl == 'odl':
        return odl.MatrixOperator(A, domain=dom, range=ran)
    return WMat(A, dom, ran)


def _fullmat(op):
    n = S.flat_size(op.domain)
    cols = []
    for e in S.basis(op.domain)[:n]:
        cols.append(S.to_flat(op(S.from_flat(op.domain, e))))
    return np.array(cols).T


def adjoint_defect(op):
    """max |matrix(op.adjoint) - W_x^-1 A^T W_y| (0 for a true adjoint)."""
    A = _fullmat(op)
    B = _fullmat(op.adjoint)
    return float(np.abs(B - R.adjoint_matrix(A, S.weights(op.domain), S.weights(op.range))).max())


class Rec(object):
    """callback recording flat copies of the iterates"""

    def __init__(self):
        self.it = []

    def __call__(self, x):
        self.it.append(S.to_flat(x))


def _seed(cfg):
    np.random.seed(zlib.crc32(repr(sorted(cfg.items())).encode()) % (2 ** 31))


def _sym(n, t):
    A = np.zeros((n, n))
    idx = [(i, j) for i in range(n) for j in range(i, n)]
    for (i, j), v in zip(idx, t):
        A[i, j] = A[j, i] = v
    return A


def spd_pool(n):
    out = []
    for t in itertools.product(MV, repeat=n * (n + 1) // 2):
        A = _sym(n, t)
        if np.all(np.linalg.eigvalsh(A) > 1e-9):
            out.append([int(v) for v in t])
    out.sort(key=lambda t: (sum(abs(v) for v in t), t))
    return out


def rect_pool(shape, alph):
    out = []
    for t in itertools.product(alph, repeat=shape[0] * shape[1]):
        A = np.array(t, float).reshape(shape)
        if np.linalg.matrix_rank(A) == min(shape):
            out.append([int(v) for v in t])
    out.sort(key=lambda t: (sum(abs(v) for v in t), t))
    return out


def _scaled_spd(n, t, ill):
    Sm = _sym(n, t)
    if ill:
        D = np.ones(n)
        D[0] = 2.0 ** -3
        Sm = Sm * D[:, None] * D[None, :]
    return Sm


def _scaled_rect(shape, t, ill):
    A = np.array(t, float).reshape(shape)
    if ill:
        A = A.copy()
        A[0, :] *= 2.0 ** -6
    return A


def _first(dic, key, detail):
    if key not in dic:
        dic[key] = detail


def _viol(site, first):
    return [{'site': site, 'symptom': s, 'detail': d} for s, d in first.items()]


RV3 = [-1.0, 0.0, 2.0]


def _rhs_list(m, full=False):
    return [np.array(t) for t in itertools.product(RV if (m <= 2 or full) else RV3, repeat=m)]


# ----------------------------------------------------------------------------------------------
# (a) linear solvers

def run_cg(cfg):
    n, ill, wk = cfg['n'], cfg['ill'], cfg['w']
    Sm = _scaled_spd(n, cfg['mat'], ill)
    sp = _rn(n, wk)
    w = S.weights(sp)
    A = Sm / w[:, None]                 # self-adjoint in <.,.>_w  <=>  W A symmetric
    op = odl.MatrixOperator(A, domain=sp, range=sp)
    site = 'conjugate_gradient[%s,%s]' % ('ill-conditioned' if ill else 'well-conditioned',
                                          {'plain': 'unweighted', 'w2': 'const-weighted',
                                           'wa': 'array-weighted'}[wk])
    first, evals, sigs = {}, 0, set()
    niter = n + 2
    cases = []
    for b in _rhs_list(n, True):
        cases.append((b, np.zeros(n), 'unit'))
        cases.append((b, np.array(X0PAT[:n]), 'unit'))
        # the clauses are scale invariant: tiny right-hand sides and warm starts next to the
        # solution must satisfy them just the same (all powers of two: scaling is exact);
        # n = 3: on the sub-alphabet {-1, 0, 2}^3
        if n > 2 and not set(b.tolist()) <= set(RV3):
            continue
        for sc in SCALES:
            cases.append((b * sc, np.zeros(n), 'scaled'))
        xs = np.linalg.solve(A, b)
        for k in range(n):
            x0 = xs.copy()
            x0[k] += WARM
            cases.append((b, x0, 'warm'))
    for b, x0, tag in cases:
        xs = np.linalg.solve(A, b)
        x = sp.element(x0.copy())
        rec = Rec()
        try:
            odl.solvers.conjugate_gradient(op, x, sp.element(b), niter, callback=rec)
        except Exception as e:
            _first(first, 'raises:' + type(e).__name__,
                   'S=%s b=%s x0=%s: %r' % (Sm.tolist(), b.tolist(), x0.tolist(), e))
            continue
        evals += 1
        its = [x0] + rec.it
        E = [float((z - xs).dot(Sm.dot(z - xs))) for z in its]
        scale = (1.0 if tag == 'unit' else 0.0) + float(xs.dot(Sm.dot(xs))) + E[0]
        floor = 1e-18 * scale
        info = 'S=%s w=%s b=%r x0=%r x*=%r energy errors=%s' % (
            Sm.tolist(), w.tolist(), b.tolist(), x0.tolist(), xs.tolist(),
            ['%.3e' % e for e in E])
        for k in range(len(E) - 1):
            if E[k] > floor and not E[k + 1] < E[k]:
                _first(first, 'energy_error_not_decreasing', 'step %d: %s' % (k + 1, info))
            if E[k] <= floor and E[k + 1] > 100 * floor:
                _first(first, 'energy_error_not_decreasing',
                       'leaves the solution at step %d: %s' % (k + 1, info))
        if not np.array_equal(S.to_flat(x), its[-1]):
            _first(first, 'result_is_not_last_iterate', info)
        # exact after n steps (early return only allowed with a zero residual); relative to the
        # size of the instance, never looser than 1e-9 (1 + |x*|)
        xn = its[n] if len(its) > n else its[-1]
        tol = 1e-9 * (1.0 + np.abs(xs).max())
        if tag != 'unit':
            tol = min(tol, 1e-9 * max(np.abs(xs).max(), np.abs(x0 - xs).max()))
        if np.abs(xn - xs).max() > tol:
            _first(first, 'not_exact_after_n_steps',
                   '|x_n - x*| = %.3e > %.3e: x_n=%r %s' % (np.abs(xn - xs).max(), tol,
                                                            xn.tolist(), info))
        sigs.add('cg:%s:%d:%d' % (tag, len(rec.it), sum(1 for e in E if e > floor)))
    return {'evals': evals, 'viol': _viol(site, first), 'sig': sorted(sigs)}


def _linop(cfg):
    shape = tuple(cfg['shape'])
    A = _scaled_rect(shape, cfg['mat'], cfg['ill']) * cfg.get('ascale', 1.0)
    wk = cfg['w']
    impl = 'ref' if wk == 'wa' else cfg.get('impl', 'odl')
    op = _matop(A, wk, impl)
    return A, op, S.weights(op.domain), S.weights(op.range)


_WN = {'plain': 'unweighted', 'w2': 'const-weighted', 'wa': 'array-weighted'}


def run_cgn(cfg):
    A, op, wx, wy = _linop(cfg)
    m, n = A.shape
    cond = 'ill-conditioned' if cfg['ill'] else 'well-conditioned'
    site = 'conjugate_gradient_normal[%s,%s]' % (cond, _WN[cfg['w']])
    if adjoint_defect(op) > 1e-12:
        return {'evals': 0, 'skipped': 1, 'trivial': True, 'sig': 'adjoint-inexact'}
    first, evals, sigs = {}, 0, set()
    niter = n + 2
    Aadj = R.adjoint_matrix(A, wx, wy)
    def _ls(b):
        # least-squares solution (minimal norm in the weighted space if under-determined)
        if m >= n:
            return np.linalg.solve(Aadj.dot(A), Aadj.dot(b))
        return Aadj.dot(np.linalg.solve(A.dot(Aadj), b))

    cases = []
    for b in _rhs_list(m):
        cases.append((b, np.zeros(n), 'unit'))
        cases.append((b, np.array(X0PAT[:n]), 'unit'))
        for sc in SCALES:               # scale invariance: tiny right-hand sides, warm starts
            cases.append((b * sc, np.zeros(n), 'scaled'))
        for k in (0, n - 1):
            x0 = _ls(b)
            x0[k] += WARM
            cases.append((b, x0, 'warm'))
    for b, x0, tag in cases:
        if True:
            x = op.domain.element(x0.copy())
            rec = Rec()
            try:
                odl.solvers.conjugate_gradient_normal(op, x, op.range.element(b), niter,
                                                      callback=rec)
            except Exception as e:
                _first(first, 'raises:' + type(e).__name__,
                       'A=%s b=%s x0=%s: %r' % (A.tolist(), b.tolist(), x0.tolist(), e))
                continue
            evals += 1
            its = [x0] + rec.it
            res = [R.wnorm(A.dot(z) - b, wy) for z in its]
            tol = 1e-12 * ((1.0 if tag == 'unit' else 0.0) + R.wnorm(b, wy) + max(res))
            info = 'A=%s wx=%s wy=%s b=%r x0=%r residuals=%s' % (
                A.tolist(), wx.tolist(), wy.tolist(), b.tolist(), x0.tolist(),
                ['%.6e' % r for r in res])
            for k in range(len(res) - 1):
                if res[k + 1] > res[k] + tol:
                    _first(first, 'residual_increases', 'step %d: %s' % (k + 1, info))
            if not np.array_equal(S.to_flat(x), its[-1]):
                _first(first, 'result_is_not_last_iterate', info)
            if m >= n and not cfg['ill']:
                # CG on A*A x = A*b with A*A positive definite: exact after n steps
                xs = np.linalg.solve(Aadj.dot(A), Aadj.dot(b))
                xn = its[n] if len(its) > n else its[-1]
                etol = 1e-8 * (1.0 + np.abs(xs).max())
                if tag != 'unit':
                    etol = min(etol, 1e-8 * max(np.abs(xs).max(), np.abs(x0 - xs).max()))
                if np.abs(xn - xs).max() > etol:
                    _first(first, 'not_exact_after_n_steps',
                           '|x_n - x*| = %.3e > %.3e: x_n=%r x*=%r %s' % (
                               np.abs(xn - xs).max(), etol, xn.tolist(), xs.tolist(), info))
            sigs.add('cgn:%s:%d:%s' % (tag, len(rec.it), res[-1] > tol))
    return {'evals': evals, 'viol': _viol(site, first), 'sig': sorted(sigs)}


LW_OMEGA = [0.5, 1.0, 1.9]


def run_landweber(cfg):
    A, op, wx, wy = _linop(cfg)
    m, n = A.shape
    cond = 'ill-conditioned' if cfg['ill'] else 'well-conditioned'
    site = 'landweber[%s,%s]' % (cond, _WN[cfg['w']])
    if adjoint_defect(op) > 1e-12:
        return {'evals': 0, 'skipped': 1, 'trivial': True, 'sig': 'adjoint-inexact'}
    nrm = R.opnorm(A, wx, wy)
    first, evals, sigs, skipped = {}, 0, set(), 0
    niter = 8
    Aadj = R.adjoint_matrix(A, wx, wy)
    cases = []
    for b in _rhs_list(m):
        cases.append((b, np.zeros(n), 'unit'))
        cases.append((b, np.array(X0PAT[:n]), 'unit'))
        cases.append((b * SCALES[0], np.zeros(n), 'scaled'))
        cases.append((b * SCALES[1], np.zeros(n), 'scaled'))
        x0 = (np.linalg.solve(Aadj.dot(A), Aadj.dot(b)) if m >= n
              else Aadj.dot(np.linalg.solve(A.dot(Aadj), b)))
        x0[0] += WARM
        cases.append((b, x0, 'warm'))
    for b, x0, tag in cases:
        if True:
            for om in LW_OMEGA + ['default']:
                if (x0.any() and om != 1.0) or (tag == 'scaled' and om not in (1.0, 1.9)):
                    continue
                x = op.domain.element(x0.copy())
                rec = Rec()
                if om == 'default':
                    # documented default 1 / op.norm(estimate=True) ** 2: the estimate starts
                    # from random noise; the stream is owned by the configuration
                    _seed(cfg)
                    omega_eff = None          # observed from the first step below
                    kw = {}
                else:
                    omega_eff = om / nrm ** 2
                    kw = {'omega': omega_eff}
                try:
                    odl.solvers.landweber(op, x, op.range.element(b), niter, callback=rec, **kw)
                except Exception as e:
                    _first(first, 'raises:' + type(e).__name__,
                           'A=%s b=%s x0=%s omega=%s: %r' % (A.tolist(), b.tolist(),
                                                             x0.tolist(), om, e))
                    continue
                evals += 1
                its = [x0] + rec.it
                if omega_eff is None:
                    # the step the solver really took: x1 = x0 - omega A*(A x0 - b)
                    g = Aadj.dot(A.dot(x0) - b)
                    if not np.any(g):
                        continue
                    omega_eff = float(np.sum(wx * (x0 - its[1]) * g) / np.sum(wx * g * g))
                    _seed(cfg)
                    est = _matop(A, cfg['w'], 'ref' if cfg['w'] == 'wa' else
                                 cfg.get('impl', 'odl')).norm(estimate=True)
                    if not 0 < omega_eff * nrm ** 2 < 2.0 and est < EST_OK * nrm:
                        skipped += 1          # poor power-method estimate: counted, not judged
                        continue
                    if not 0 < omega_eff * nrm ** 2 < 2.0:
                        # docstring: 0 < omega < 2/||A||^2 guarantees convergence, default
                        # 1/||A||^2 (estimate): the default must lie inside that interval
                        _first(first, 'default_omega_violates_documented_condition',
                               'A=%s wx=%s wy=%s b=%r x0=%r: default omega=%r, omega*||A||^2=%r '
                               'not in (0, 2) (||A||=%r)' % (
                                   A.tolist(), wx.tolist(), wy.tolist(), b.tolist(), x0.tolist(),
                                   omega_eff, omega_eff * nrm ** 2, nrm))
                        continue
                res = [R.wnorm(A.dot(z) - b, wy) for z in its]
                tol = 1e-12 * ((1.0 if tag == 'unit' else 0.0) + R.wnorm(b, wy) + max(res))
                info = 'A=%s wx=%s wy=%s b=%r x0=%r omega=%r (=%s*||A||^-2) residuals=%s' % (
                    A.tolist(), wx.tolist(), wy.tolist(), b.tolist(), x0.tolist(), omega_eff,
                    omega_eff * nrm ** 2, ['%.6e' % r for r in res])
                for k in range(len(res) - 1):
                    if res[k + 1] > res[k] + tol:
                        _first(first, 'residual_increases', 'step %d: %s' % (k + 1, info))
                if len(rec.it) != niter or not np.array_equal(S.to_flat(x), its[-1]):
                    _first(first, 'result_is_not_last_iterate', info)
                sigs.add('lw:%s:%s:%s' % (tag, om, res[-1] < 0.5 * res[0]))
    return {'evals': evals, 'viol': _viol(site, first), 'sig': sorted(sigs), 'skipped': skipped}


KZ_OMEGA = [0.5, 1.0, 1.5, 1.9]


def run_kaczmarz(cfg):
    shape = tuple(cfg['shape'])
    A = _scaled_rect(shape, cfg['mat'], cfg['ill'])
    m, n = A.shape
    wk = cfg['w']
    cond = 'ill-conditioned' if cfg['ill'] else 'well-conditioned'
    site = 'kaczmarz[%s,%s,blocks=%s]' % (cond, _WN[wk], cfg['blocks'])
    if cfg['blocks'] == 'rows':
        parts = [[i] for i in range(m)]
    else:                                # first two rows together, the rest single
        parts = [[0, 1]] + [[i] for i in range(2, m)]
    if cfg['order'] == 'reversed':
        parts = parts[::-1]
    dom = _rn(n, wk)
    ops = []
    for p in parts:
        Ai = A[p, :]
        ran = odl.rn(len(p)) if wk != 'w2' else odl.rn(len(p), weighting=2.0)
        if wk == 'wa':
            ops.append(WMat(Ai, dom, ran))
        else:
            ops.append(odl.MatrixOperator(Ai, domain=dom, range=ran))
    if any(adjoint_defect(o) > 1e-12 for o in ops):
        return {'evals': 0, 'skipped': 1, 'trivial': True, 'sig': 'adjoint-inexact'}
    wx = S.weights(dom)
    norms = [R.opnorm(A[p, :], wx, S.weights(o.range)) for p, o in zip(parts, ops)]
    if min(norms) == 0:
        return {'evals': 0, 'skipped': 1, 'trivial': True, 'sig': 'zero-row'}
    first, evals, sigs = {}, 0, set()
    nsweep = 3
    for xt in _rhs_list(n):
        rhs = [o.range.element(A[p, :].dot(xt)) for p, o in zip(parts, ops)]
        for x0 in (np.zeros(n), np.array(X0PAT[:n])):
            for om in KZ_OMEGA:
                omega = [om / nr ** 2 for nr in norms]
                for loop in ('inner', 'outer'):
                    if (x0.any() and om != 1.5) or (loop == 'outer' and om != 1.0):
                        continue
                    x = dom.element(x0.copy())
                    rec = Rec()
                    try:
                        odl.solvers.kaczmarz(ops, x, rhs, nsweep, omega=omega, random=False,
                                             callback=rec, callback_loop=loop)
                    except Exception as e:
                        _first(first, 'raises:' + type(e).__name__,
                               'A=%s x_true=%s x0=%s: %r' % (A.tolist(), xt.tolist(),
                                                             x0.tolist(), e))
                        continue
                    evals += 1
                    its = [x0] + rec.it
                    d = [R.wnorm(z - xt, wx) for z in its]
                    tol = 1e-12 * (1.0 + max(d))
                    info = ('A=%s blocks=%s wx=%s x_true=%s x0=%s omega_i*||A_i||^2=%s '
                            'callback_loop=%s distances=%s'
                            % (A.tolist(), parts, wx.tolist(), xt.tolist(), x0.tolist(), om, loop,
                               ['%.6e' % v for v in d]))
                    for k in range(len(d) - 1):
                        if d[k + 1] > d[k] + tol:
                            _first(first, 'distance_to_solution_increases',
                                   'step %d: %s' % (k + 1, info))
                    nexp = nsweep * (len(ops) if loop == 'inner' else 1)
                    if len(rec.it) != nexp or not np.array_equal(S.to_flat(x), its[-1]):
                        _first(first, 'result_is_not_last_iterate', info)
                    sigs.add('kz:%s:%s:%s' % (om, loop, d[-1] < 0.5 * d[0]))
        # random=True: the order of the operators is permuted in every sweep (numpy.random,
        # stream owned by the configuration); every inner step is still a relaxed projection with
        # the step of ITS operator, so the distance cannot increase whatever the order
        for om in (1.5, 1.9):
            omega = [om / nr ** 2 for nr in norms]
            x0 = np.zeros(n)
            x = dom.element(x0.copy())
            rec = Rec()
            _seed(cfg)
            try:
                odl.solvers.kaczmarz(ops, x, rhs, nsweep + 1, omega=omega, random=True,
                                     callback=rec, callback_loop='inner')
            except Exception as e:
                _first(first, 'raises:' + type(e).__name__,
                       'A=%s x_true=%s random=True: %r' % (A.tolist(), xt.tolist(), e))
                continue
            evals += 1
            its = [x0] + rec.it
            d = [R.wnorm(z - xt, wx) for z in its]
            tol = 1e-12 * (1.0 + max(d))
            for k in range(len(d) - 1):
                if d[k + 1] > d[k] + tol:
                    _first(first, 'distance_to_solution_increases',
                           'step %d: A=%s blocks=%s wx=%s x_true=%s x0=%s omega_i*||A_i||^2=%s '
                           'random=True (numpy.random.seed(%d)) callback_loop=inner '
                           'distances=%s' % (k + 1, A.tolist(), parts, wx.tolist(), xt.tolist(),
                                             x0.tolist(), om,
                                             zlib.crc32(repr(sorted(cfg.items())).encode())
                                             % (2 ** 31), ['%.6e' % v for v in d]))
                    break
            if len(rec.it) != (nsweep + 1) * len(ops) or \
                    not np.array_equal(S.to_flat(x), its[-1]):
                _first(first, 'result_is_not_last_iterate', 'random=True x_true=%s' % xt.tolist())
            sigs.add('kz:random:%s:%s' % (om, d[-1] < 0.5 * d[0]))
    return {'evals': evals, 'viol': _viol(site, first), 'sig': sorted(sigs)}


# ---- smooth objectives with reference values --------------------------------------------------

def _objective(cfg):
    """-> (odl functional, reference value on flat arrays, reference gradient, space)"""
    kind = cfg['obj']
    if kind == 'rosenbrock':
        n, c = cfg['n'], cfg['scale']
        sp = odl.rn(n)
        f = odl.solvers.RosenbrockFunctional(sp, scale=c)

        def val(z):
            z = np.asarray(z, float)
            return float(np.sum(c * (z[1:] - z[:-1] ** 2) ** 2 + (1 - z[:-1]) ** 2))

        def grad(z):
            z = np.asarray(z, float)
            g = np.zeros(n)
            g[:-1] += -4 * c * z[:-1] * (z[1:] - z[:-1] ** 2) - 2 * (1 - z[:-1])
            g[1:] += 2 * c * (z[1:] - z[:-1] ** 2)
            return g
        return f, val, grad, sp
    if kind == 'lsq':
        # f(x) = ||A x - b||^2 (least squares), weighted space
        shape = tuple(cfg['shape'])
        A = _scaled_rect(shape, cfg['mat'], cfg['ill'])
        op = _matop(A, cfg['w'], 'odl')
        b = np.array((X0PAT * 2)[:shape[0]]) * 2
        f = odl.solvers.L2NormSquared(op.range).translated(op.range.element(b)) * op
        wx, wy = S.weights(op.domain), S.weights(op.range)
        q = R.QuadData(wx, A, b, wy)
        def val(z):
            return q.value(z)
        val.lip = q.lip
        return f, val, q.grad, op.domain
    if kind == 'quadform':
        # f(x) = <x, A x> + <v, x> + c  with A self-adjoint positive definite
        n = cfg['n']
        Sm = _scaled_spd(n, cfg['mat'], cfg['ill'])
        sp = _rn(n, cfg['w'])
        w = S.weights(sp)
        A = Sm / w[:, None]
        # (array weights: odl.MatrixOperator.adjoint is the transpose, so QuadraticForm.gradient
        # would not be the gradient there - C05/C09 matter; the harness operator is used)
        op = WMat(A, sp, sp, selfadj=True) if cfg['w'] == 'wa' else \
            odl.MatrixOperator(A, domain=sp, range=sp)
        v = np.array(X0PAT[:n])
        f = odl.solvers.QuadraticForm(op, sp.element(v), 3.0)

        def val(z):
            z = np.asarray(z, float)
            return float(np.sum(w * z * A.dot(z)) + np.sum(w * v * z) + 3.0)

        def grad(z):
            return 2 * A.dot(np.asarray(z, float)) + v
        val.lip = 2 * R.opnorm(A, w, w)
        return f, val, grad, sp
    raise KeyError(kind)


LS_OPTS = [{'tau': 0.5, 'discount': 0.01, 'estimate_step': False},
           {'tau': 0.8, 'discount': 0.5, 'estimate_step': False},
           {'tau': 0.5, 'discount': 0.01, 'estimate_step': True},
           {'tau': 0.25, 'discount': 0.1, 'estimate_step': True},
           {'tau': 0.5, 'discount': 0.01, 'estimate_step': True, 'alpha': 4.0},
           {'tau': 0.5, 'discount': 0.1, 'estimate_step': False, 'max_num_iter': 6}]
SMOOTH = ['steepest_descent', 'conjugate_gradient_nonlinear[FR]',
          'conjugate_gradient_nonlinear[PR]', 'conjugate_gradient_nonlinear[HS]',
          'conjugate_gradient_nonlinear[DY]', 'newtons_method', 'bfgs_method',
          'broydens_method[first]', 'broydens_method[second]']


def _call_smooth(name, f, x, ls, maxiter, cb):
    if name == 'steepest_descent':
        return odl.solvers.steepest_descent(f, x, line_search=ls, maxiter=maxiter, callback=cb)
    if name.startswith('conjugate_gradient_nonlinear'):
        return odl.solvers.conjugate_gradient_nonlinear(
            f, x, line_search=ls, maxiter=maxiter, beta_method=name[-3:-1], callback=cb)
    if name == 'newtons_method':
        return odl.solvers.newtons_method(f, x, line_search=ls, maxiter=maxiter, callback=cb)
    if name == 'bfgs_method':
        return odl.solvers.bfgs_method(f, x, line_search=ls, maxiter=maxiter, callback=cb)
    if name.startswith('broydens_method'):
        return odl.solvers.broydens_method(f, x, line_search=ls, maxiter=maxiter,
                                           impl=name[16:-1], callback=cb)
    raise KeyError(name)


def _starts(n):
    return [np.array(t) for t in itertools.product([-1.0, 0.5, 2.0], repeat=n)]


def run_smooth(cfg):
    """objective never increases along the iterates when the step comes from
    BacktrackingLineSearch (the line search returns only after f(x + a d) < f(x))."""
    f, val, grad, sp = _objective(cfg)
    name = cfg['solver']
    horizon = cfg['horizon']
    site = '%s[BacktrackingLineSearch]' % name
    n = sp.size
    first, evals, sigs, skipped = {}, 0, set(), 0
    maxiter = 25 if horizon == 'short' else 1500
    judged_exc = name == 'steepest_descent'       # the solver the property names
    if cfg.get('ls') == 'fixed':
        return _run_fixed_steps(cfg, f, val, grad, sp)
    jobs = []
    for lo in (LS_OPTS if horizon == 'short' else LS_OPTS[:2]):
        starts = _starts(n) if horizon == 'short' else _starts(n)[:3]
        if 'alpha' in lo or 'max_num_iter' in lo:
            starts = starts[::3]        # the rarer options on a third of the starts
        for x0 in starts:
            jobs.append((lo, x0, None))
        if horizon == 'short' and lo['estimate_step']:
            # ONE line-search object reused across several solver calls (it remembers its last
            # step): every call must still only take steps that decrease the objective
            shared = odl.solvers.BacktrackingLineSearch(f, **lo)
            for x0 in starts[:9:3] if len(starts) >= 9 else starts:
                jobs.append((lo, x0, shared))
    for lo, x0, shared in jobs:
        if True:
            if np.linalg.norm(grad(x0)) == 0:
                continue
            x = sp.element(x0.copy())
            rec = Rec()
            ls = shared if shared is not None else odl.solvers.BacktrackingLineSearch(f, **lo)
            exc = None
            try:
                _call_smooth(name, f, x, ls, maxiter, rec)
            except Exception as e:
                exc = e
            its = [x0] + rec.it
            vals = [val(z) for z in its]
            info = 'objective=%s line_search=%s%s x0=%s' % (
                dict((k, v) for k, v in cfg.items() if k not in ('kind', 'solver')), lo,
                ' (object reused from the previous starts)' if shared is not None else '',
                x0.tolist())
            if exc is not None:
                gn = float(np.linalg.norm(grad(S.to_flat(x))))
                msg = '%s after %d iterations, |grad f(x)|=%.3e, f=%r: %r' % (
                    info, len(rec.it), gn, val(S.to_flat(x)), exc)
                if not judged_exc or (isinstance(exc, ValueError) and
                                      'exceeded maximum' in str(exc)):
                    # 'exceeded maximum' is the documented failure mode of the line search
                    # (max_num_iter); break-downs of the quasi-Newton updates are not this
                    # property's business - the objective along the iterates still is
                    skipped += 1
                else:
                    # an exception once the gradient has collapsed (floating-point resolution of
                    # the objective reached) is kept apart from one far away from a minimiser
                    g0 = float(np.linalg.norm(grad(x0)))
                    where = '_at_convergence' if gn <= 1e-6 * (1.0 + g0) else ''
                    _first(first, 'raises:' + type(exc).__name__ + where, msg)
            evals += 1
            bad = [k for k in range(len(vals) - 1)
                   if not vals[k + 1] <= vals[k] + 1e-12 * (1.0 + abs(vals[k]))]
            if bad:
                k = bad[0]
                _first(first, 'objective_increases',
                       '%s step %d: f %r -> %r' % (info, k + 1, vals[k], vals[k + 1]))
            sigs.add('%s:%s:%s:%s:%s' % (name, lo['estimate_step'], shared is not None,
                                         type(exc).__name__ if exc else 'ok',
                                         min(len(rec.it), 3)))
    return {'evals': evals, 'viol': _viol(site, first), 'sig': sorted(sigs), 'skipped': skipped}


def _run_fixed_steps(cfg, f, val, grad, sp):
    """steepest_descent with ConstantLineSearch / a float / LineSearchFromIterNum and steps in
    (0, 2/Lip) on quadratic objectives: f(x - s grad f) <= f(x) - s (1 - s Lip / 2) |grad f|^2,
    so the objective cannot increase."""
    lip = val.lip
    n = sp.size
    site = 'steepest_descent[fixed-steps<2/Lip]'
    first, evals, sigs = {}, 0, set()
    kinds = [('ConstantLineSearch', 1.0), ('ConstantLineSearch', 1.9), ('float', 0.5),
             ('LineSearchFromIterNum', 'alternating 0.5/Lip, 1.5/Lip')]
    for kind, c in kinds:
        for x0 in _starts(n):
            if kind == 'ConstantLineSearch':
                ls = odl.solvers.ConstantLineSearch(c / lip)
            elif kind == 'float':
                ls = c / lip
            else:
                ls = odl.solvers.LineSearchFromIterNum(lambda k: (1.5 if k % 2 else 0.5) / lip)
            x = sp.element(x0.copy())
            rec = Rec()
            try:
                odl.solvers.steepest_descent(f, x, line_search=ls, maxiter=25, callback=rec)
            except Exception as e:
                _first(first, 'raises:' + type(e).__name__, '%s %s x0=%s: %r' % (
                    kind, c, x0.tolist(), e))
                continue
            evals += 1
            vals = [val(z) for z in [x0] + rec.it]
            for k in range(len(vals) - 1):
                if not vals[k + 1] <= vals[k] + 1e-12 * (1.0 + abs(vals[k])):
                    _first(first, 'objective_increases',
                           'objective=%s line_search=%s(%s, Lip=%r) x0=%s step %d: f %r -> %r' % (
                               dict((a, b) for a, b in cfg.items()
                                    if a not in ('kind', 'solver', 'ls', 'horizon')),
                               kind, c, lip, x0.tolist(), k + 1, vals[k], vals[k + 1]))
                    break
            if rec.it and not np.array_equal(S.to_flat(x), rec.it[-1]):
                _first(first, 'result_is_not_last_iterate', '%s x0=%s' % (kind, x0.tolist()))
            sigs.add('fixed:%s:%s:%d' % (kind, c, min(len(rec.it), 3)))
    return {'evals': evals, 'viol': _viol(site, first), 'sig': sorted(sigs)}


def run_linesearch(cfg):
    """BacktrackingLineSearch returns a step fulfilling the Armijo condition
    f(x + a d) <= f(x) - discount * |a * f'(x; d)|  (docstring: 'fulfilling the
    Armijo-Goldstein condition'; for ascent directions the step is negative)."""
    f, val, grad, sp = _objective(cfg)
    n = sp.size
    w = S.weights(sp)
    site = 'BacktrackingLineSearch.__call__'
    first, evals, sigs, skipped = {}, 0, set(), 0
    dirs = [np.array(t) for t in itertools.product([-1.0, 0.0, 0.5], repeat=n) if any(t)]
    shared = {}
    for lo in LS_OPTS:
        for x0 in _starts(n):
            for d in dirs:
                dd = float(np.sum(w * grad(x0) * d))
                if dd == 0:
                    continue
                for give in (True, False, 'shared'):
                    if give == 'shared':
                        if not lo['estimate_step']:
                            continue
                        # one object for ALL (x, d) of this option set: history dependent
                        ls = shared.setdefault(id(lo), odl.solvers.BacktrackingLineSearch(f, **lo))
                    else:
                        ls = odl.solvers.BacktrackingLineSearch(f, **lo)
                    for rep in range(2 if lo['estimate_step'] else 1):
                        try:
                            a = ls(sp.element(x0), sp.element(d), dd if give else None)
                        except ValueError as e:
                            if 'exceeded maximum' in str(e):
                                skipped += 1
                                break
                            _first(first, 'raises:ValueError', '%r' % e)
                            break
                        except Exception as e:
                            _first(first, 'raises:' + type(e).__name__,
                                   'x=%s d=%s opts=%s: %r' % (x0.tolist(), d.tolist(), lo, e))
                            break
                        evals += 1
                        f0, f1 = val(x0), val(x0 + a * d)
                        slack = 1e-12 * (1.0 + abs(f0))
                        if not f1 <= f0 - lo['discount'] * abs(a * dd) + slack:
                            _first(first, 'armijo_condition_violated',
                                   'obj=%s x=%s d=%s dir_derivative=%r (%s) opts=%s: step %r, '
                                   'f(x)=%r f(x+step*d)=%r' % (
                                       cfg, x0.tolist(), d.tolist(), dd,
                                       'given' if give else 'computed', lo, a, f0, f1))
                        if (a > 0) != (dd < 0):
                            _first(first, 'step_sign_wrong',
                                   'x=%s d=%s dir_derivative=%r step=%r' % (
                                       x0.tolist(), d.tolist(), dd, a))
                        sigs.add('ls:%s:%s:%s' % (a == 1.0, a > 0, rep))
    return {'evals': evals, 'viol': _viol(site, first), 'sig': sorted(sigs), 'skipped': skipped}


# ----------------------------------------------------------------------------------------------
# (c) power method

def run_power(cfg):
    shape = tuple(cfg['shape'])
    wk = cfg['w']
    if cfg['arm'] == 'selfadjoint':
        # `op.adjoint is op`: reached by a self-adjoint operator that returns itself
        n = shape[0]
        Sm = _scaled_spd(n, cfg['mat'], cfg['ill']) if cfg['pool'] == 'spd' else \
            _sym(n, cfg['mat'])
        sp = _rn(n, wk)
        w = S.weights(sp)
        A = Sm / w[:, None]
        op = WMat(A, sp, sp, selfadj=True)
        maxiters = [1, 2, 3, 4, 5, 8, 13, 20] if cfg.get('deep') else [1, 2, 5, 20]
    else:
        if cfg['pool'] == 'spd':
            n = shape[0]
            A = _scaled_spd(n, cfg['mat'], cfg['ill'])
        else:
            A = _scaled_rect(shape, cfg['mat'], cfg['ill'])
        op = _matop(A, wk, 'ref' if wk == 'wa' else cfg.get('impl', 'odl'))
        maxiters = [2, 4, 6, 8, 10, 14, 20] if cfg.get('deep') else [2, 4, 10, 20]
    site = 'power_method_opnorm[%s,%s]' % (cfg['arm'], _WN[wk])
    if cfg['arm'] != 'selfadjoint' and adjoint_defect(op) > 1e-12:
        return {'evals': 0, 'skipped': 1, 'trivial': True, 'sig': 'adjoint-inexact'}
    wx, wy = S.weights(op.domain), S.weights(op.range)
    true = R.opnorm(A, wx, wy)
    n = A.shape[1]
    starts = [e for e in S.basis(op.domain)[:n]] + \
             [np.array(t) for t in itertools.product([-1.0, 0.5, 2.0], repeat=n)]
    first, evals, sigs, skipped = {}, 0, set(), 0
    from odl.operator.oputils import power_method_opnorm
    # default start: noise from numpy.random, stream owned by the configuration
    for mi in (4, 20):
        _seed(cfg)
        try:
            est = power_method_opnorm(op, maxiter=mi)
            evals += 1
            if not est <= true * (1 + 1e-12):
                _first(first, 'estimate_exceeds_norm',
                       'A=%s wx=%s wy=%s default (random, seeded) start maxiter=%d: estimate %r > '
                       'true norm %r' % (A.tolist(), wx.tolist(), wy.tolist(), mi, est, true))
        except Exception as e:
            _first(first, 'raises:' + type(e).__name__, 'A=%s default start: %r' % (A.tolist(), e))
    for xs in starts:
        for mi in maxiters:
            for rtol in (1e-5, 0.0):
                if rtol == 0.0 and not cfg.get('deep') and mi != 20:
                    continue
                x_in = op.domain.element(xs.copy())
                try:
                    est = power_method_opnorm(op, xstart=x_in, maxiter=mi, rtol=rtol,
                                              atol=1e-8 if rtol else 0.0)
                except ValueError as e:
                    if 'reached ``x=0``' in str(e):
                        skipped += 1          # start vector in the kernel: no estimate at all
                        continue
                    _first(first, 'raises:ValueError', 'A=%s xstart=%s maxiter=%d: %r' % (
                        A.tolist(), xs.tolist(), mi, e))
                    continue
                except Exception as e:
                    _first(first, 'raises:' + type(e).__name__,
                           'A=%s xstart=%s maxiter=%d: %r' % (A.tolist(), xs.tolist(), mi, e))
                    continue
                evals += 1
                if not est <= true * (1 + 1e-12):
                    _first(first, 'estimate_exceeds_norm',
                           'A=%s wx=%s wy=%s xstart=%s maxiter=%d rtol=%s: estimate %r > true '
                           'norm %r' % (A.tolist(), wx.tolist(), wy.tolist(), xs.tolist(), mi,
                                        rtol, est, true))
                if not np.array_equal(S.to_flat(x_in), xs):
                    _first(first, 'xstart_modified', 'xstart=%s' % xs.tolist())
                sigs.add('pm:%s:%s' % (cfg['arm'], est >= true * (1 - 1e-3)))
    return {'evals': evals, 'viol': _viol(site, first), 'sig': sorted(sigs), 'skipped': skipped}



WV = [-0.5, 0.25, 2.0]          # multiplicand alphabet (|w| < 1 and > 1)


def run_power_ref(cfg):
    """Operators that REFER to an element (MultiplyOperator(w), A * MultiplyOperator(w)) started
    at that very element: the documented contract ('copy to ensure xstart is not modified' /
    xstart : element-like starting point) makes the call read-only on xstart, so the operator
    is the same before and after and the estimate is bounded by its norm."""
    from odl.operator.oputils import power_method_opnorm
    name = cfg['space']
    sp = _xspace(name) if name in XSPACES else S.build(name)
    n = S.flat_size(sp)
    wx = S.weights(sp)
    site = 'power_method_opnorm[%s,xstart=own-multiplicand,%s]' % (
        cfg['op'], 'unweighted' if np.all(wx == 1) else 'weighted')
    first, evals, sigs = {}, 0, set()
    for wv in itertools.product(WV, repeat=n):
        wv = np.array(wv)
        for mi in (2, 4, 10, 20):
            w_el = S.from_flat(sp, wv.copy())
            mult = odl.MultiplyOperator(w_el, domain=sp, range=sp)
            if cfg['op'] == 'MultiplyOperator':
                op = mult
                Amat = np.diag(wv)
                wy = wx
            else:
                _, nn, wk = XSPACES[name]
                B = np.array(MATS['M'][nn])
                Bop = _matop(B, wk, 'ref' if wk == 'wa' else 'odl', dom=sp)
                op = Bop * mult
                Amat = B.dot(np.diag(wv))
                wy = S.weights(Bop.range)
            true = R.opnorm(Amat, wx, wy)       # norm of the operator that is passed in
            try:
                est = power_method_opnorm(op, xstart=w_el, maxiter=mi)
            except Exception as e:
                _first(first, 'raises:' + type(e).__name__, 'w=%s maxiter=%d: %r' % (
                    wv.tolist(), mi, e))
                continue
            evals += 1
            after = S.to_flat(w_el)
            if not np.array_equal(after, wv):
                _first(first, 'xstart_modified',
                       'w=%s maxiter=%d: xstart (the multiplicand of the operator) after the '
                       'call: %s' % (wv.tolist(), mi, after.tolist()))
            if not est <= true * (1 + 1e-12):
                _first(first, 'estimate_exceeds_norm',
                       '%s with multiplicand w=%s on %s, xstart=w (the same element) maxiter=%d: '
                       'estimate %r > true norm %r' % (cfg['op'], wv.tolist(), name, mi, est,
                                                       true))
            sigs.add('pmref:%s:%s' % (cfg['op'], est >= true * (1 - 1e-3)))
    return {'evals': evals, 'viol': _viol(site, first), 'sig': sorted(sigs)}


# ---- the default step-size rules are functions: judged directly against their docstrings ------

RULE_BASE = [[[0.8, 0.6], [-0.6, 0.8]], [[1.0, 0.0], [0.0, 0.5]], [[0.0, 1.0], [-1.0, 0.0]]]
RULE_NORMS = [0.25, 0.5, 1.0, 2.0, 8.0]
RULE_BLOCKS = [[1.0, 1.0], [1.0, 1.125], [0.25, 8.0], [2.0, 2.0], [0.5, 0.25],
               [1.0, 1.0, 1.0], [1.0, 1.125, 0.875], [0.25, 1.0, 8.0], [0.5, 0.5, 0.5],
               [1.0, 1.0, 1.0, 1.0], [2.0, 1.875, 2.125, 2.0], [0.25, 0.5, 2.0, 8.0]]


def run_steprule(cfg):
    """pdhg_stepsize / douglas_rachford_pd_stepsize: for every combination of given / not given
    tau, sigma the returned steps satisfy the condition the docstrings state
    (tau sigma ||L||^2 < 1, resp. tau sum_i sigma_i ||L_i||^2 < 4; both given: returned as is),
    with the norms computed exactly from the assembled matrices."""
    norms = cfg['norms']
    X = odl.rn(2)
    ops = [odl.MatrixOperator(c * np.array(RULE_BASE[i % 3]), domain=X, range=odl.rn(2))
           for i, c in enumerate(norms)]
    st = cfg['struct']
    if st == 'single':
        L = ops[0]
    elif st == 'broadcast':
        L = odl.BroadcastOperator(*ops)
    elif st == 'reduction':
        L = odl.ReductionOperator(*ops)
    else:
        L = odl.DiagonalOperator(*ops)
    A = _fullmat(L)
    true = float(np.linalg.svd(A, compute_uv=False)[0])
    bn = [float(np.linalg.svd(_fullmat(o), compute_uv=False)[0]) for o in ops]
    first, evals, sigs, skipped = {}, 0, set(), 0
    site = 'pdhg_stepsize[%s]' % st
    for tau_in, sig_in in [(None, None), (0.3 / true, None), (None, 0.3 / true),
                           (3.0 / true, None), (None, 3.0 / true), (0.7, 0.2)]:
        for as_float in (False, True):
            _seed(cfg)
            try:
                tau, sig = odl.solvers.pdhg_stepsize(true if as_float else L, tau_in, sig_in)
            except Exception as e:
                _first(first, 'raises:' + type(e).__name__, 'norms=%s tau=%r sigma=%r: %r' % (
                    norms, tau_in, sig_in, e))
                continue
            evals += 1
            poor = False
            if not as_float:
                _seed(cfg)
                poor = L.norm(estimate=True) < EST_OK * true
            info = '%s of blocks with norms %s (||L|| = %r, L passed as %s), tau=%r sigma=%r ' \
                   'given: returned tau=%r sigma=%r' % (st, norms, true,
                                                        'float' if as_float else 'operator',
                                                        tau_in, sig_in, tau, sig)
            if tau_in is not None and sig_in is not None:
                if (tau, sig) != (tau_in, sig_in):
                    _first(first, 'given_steps_not_returned_as_is', info)
            else:
                if (tau_in is not None and tau != tau_in) or \
                        (sig_in is not None and sig != sig_in):
                    _first(first, 'given_steps_not_returned_as_is', info)
                if not (tau > 0 and sig > 0 and tau * sig * true ** 2 < 1.0) and poor:
                    skipped += 1      # estimate of the power method > 2.5 % low: see run_ns
                elif not (tau > 0 and sig > 0 and tau * sig * true ** 2 < 1.0):
                    _first(first, 'steps_violate_documented_condition',
                           '%s: tau*sigma*||L||^2 = %r, must be < 1' % (info,
                                                                         tau * sig * true ** 2))
            sigs.add('rule:pdhg:%s:%s:%s' % (st, tau_in is None, sig_in is None))
    viol = _viol(site, first)
    if st == 'broadcast' or st == 'single':
        first = {}
        site = 'douglas_rachford_pd_stepsize[%d operators]' % (len(ops) if st != 'single' else 1)
        Ls = ops if st != 'single' else ops[:1]
        nb = bn[:len(Ls)]
        sig_given = [0.5 / c ** 2 for c in nb]
        for tau_in, sig_in in [(None, None), (0.5 / sum(nb), None), (None, sig_given),
                               (4.0 / sum(nb), None), (0.7, sig_given)]:
            for as_float in (False, True):
                _seed(cfg)
                try:
                    tau, sig = odl.solvers.douglas_rachford_pd_stepsize(
                        nb if as_float else Ls, tau_in, sig_in)
                except Exception as e:
                    _first(first, 'raises:' + type(e).__name__, 'norms=%s: %r' % (norms, e))
                    continue
                evals += 1
                val = tau * sum(s_ * c ** 2 for s_, c in zip(sig, nb))
                info = '%d operators with norms %s (passed as %s), tau=%r sigma=%r given: ' \
                       'returned tau=%r sigma=%r' % (len(Ls), nb, 'floats' if as_float else
                                                     'operators', tau_in, sig_in, tau, sig)
                if tau_in is not None and sig_in is not None:
                    if tau != tau_in or list(sig) != list(sig_in):
                        _first(first, 'given_steps_not_returned_as_is', info)
                elif not (tau > 0 and all(s_ > 0 for s_ in sig) and len(sig) == len(Ls)
                          and val < 4.0):
                    _seed(cfg)
                    if not as_float and any(o.norm(estimate=True) < EST_OK * c
                                            for o, c in zip(Ls, nb)):
                        skipped += 1
                        continue
                    _first(first, 'steps_violate_documented_condition',
                           '%s: tau*sum(sigma_i ||L_i||^2) = %r, must be < 4' % (info, val))
                sigs.add('rule:dr:%d:%s:%s' % (len(Ls), tau_in is None, sig_in is None))
        viol += _viol(site, first)
    return {'evals': evals, 'viol': viol, 'sig': sorted(sigs), 'skipped': skipped}


# ---- histories of ONE operator object -----------------------------------------------------------
# The default step rules (landweber omega=None, pdhg_stepsize, douglas_rachford_pd_stepsize) ask
# the operator OBJECT for Operator.norm(estimate=True).  The object may have been used before:
# evaluated, handed to another solver, or asked for a norm estimate with the caller's own
# arguments (Operator.norm: "kwargs: If estimate is True, pass these arguments to the
# power_method_opnorm call" - few iterations / an own start vector / a coarse tolerance are
# legitimate there, the power method may under-estimate).  Whatever happened to the object
# before, the defaults are documented as admissible ("0 < omega < 2/||A||^2 ... Default
# 1/||A||^2", "tau sigma ||L||^2 < 1", "tau sum sigma_i ||L_i||^2 < 4"), judged against the TRUE
# norm, and Landweber with its default relaxation must not increase the residual.

def _fresh_estimate(op):
    """What Operator.norm(estimate=True) gives for an operator object without a past (the base
    class documents it as power_method_opnorm(op); classes that override norm know it exactly)."""
    if type(op).norm is not odl.Operator.norm:
        return op.norm(estimate=True)
    from odl.operator.oputils import power_method_opnorm
    return power_method_opnorm(op)


def _coarse_kwargs(op, pre, A, wx, wy):
    """keyword arguments of the earlier, coarse norm request `pre` (a short name)"""
    even = op.adjoint is not op             # "maxiter needs to be an even number"
    n = A.shape[1]
    short = 2 if even else 1
    if pre.startswith('e'):                  # e<k>: basis vector, shortest admissible run
        return {'xstart': op.domain.element(np.eye(n)[int(pre[1:])]), 'maxiter': short}
    if pre.startswith('a'):                  # a<i>: i-th vector of {-1, 1/2, 2}^n
        t = _alph_starts(n)[int(pre[1:])]
        return {'xstart': op.domain.element(np.array(t)), 'maxiter': short}
    if pre == 'weak':                        # start (almost) orthogonal to the dominant direction
        return {'xstart': op.domain.element(R.weak_start(A, wx, wy)), 'maxiter': short}
    if pre == 'weak-list':                   # the same as a plain list ("element-like")
        return {'xstart': R.weak_start(A, wx, wy).tolist(), 'maxiter': short}
    if pre == 'weak4':
        return {'xstart': op.domain.element(R.weak_start(A, wx, wy)), 'maxiter': 2 * short}
    if pre == 'weak-rtol':                   # many iterations allowed, coarse stopping tolerance
        return {'xstart': op.domain.element(R.weak_start(A, wx, wy, 2.0 ** -4)), 'maxiter': 20,
                'rtol': 0.5}
    if pre == 'noise':                       # default start (seeded), shortest admissible run
        return {'maxiter': short}
    raise KeyError(pre)


def _alph_starts(n):
    # {-1, 1/2, 2}^n (n = 3: the 9 palindromic members)
    return [t for t in itertools.product([-1.0, 0.5, 2.0], repeat=n) if n < 3 or t[0] == t[-1]]


def _history_pres(n):
    return (['none', 'evaluated', 'solver-before'] + ['e%d' % k for k in range(n)] +
            ['a%d' % i for i in range(len(_alph_starts(n)))] +
            ['weak', 'weak-list', 'weak4', 'weak-rtol', 'noise'])


def run_history(cfg):
    n_ = cfg['shape'][1]
    wk = cfg['w']
    if cfg['arm'] == 'selfadjoint':
        Sm = _scaled_spd(n_, cfg['mat'], cfg['ill'])
        w_ = S.weights(_rn(n_, wk))
        A = Sm / w_[:, None] * cfg.get('ascale', 1.0)

        def make():
            sp = _rn(n_, wk)
            return WMat(A, sp, sp, selfadj=True)
    else:
        A = _scaled_rect(tuple(cfg['shape']), cfg['mat'], cfg['ill']) * cfg.get('ascale', 1.0)

        def make():
            return _matop(A, wk, 'ref' if wk == 'wa' else 'odl')
    op = make()
    if cfg['arm'] != 'selfadjoint' and adjoint_defect(op) > 1e-12:
        return {'evals': 0, 'skipped': 1, 'trivial': True, 'sig': 'adjoint-inexact'}
    wx, wy = S.weights(op.domain), S.weights(op.range)
    m, n = A.shape
    nrm = R.opnorm(A, wx, wy)
    Aadj = R.adjoint_matrix(A, wx, wy)
    tag = '%s,%s' % (cfg['arm'], _WN[wk])
    first, evals, sigs, skipped = {}, 0, set(), 0
    nstale = 0
    # without a past the estimate (seeded noise start) must be good enough for a verdict, exactly
    # as in run_landweber / run_steprule
    _seed(cfg)
    if _fresh_estimate(make()) < EST_OK * nrm:
        return {'evals': 0, 'skipped': 1, 'trivial': True, 'sig': 'hist:fresh-estimate-poor'}
    b = None
    for cand in ([1.0, -1.0, 2.0], [2.0, 0.0, -1.0], [0.0, 1.0, 1.0]):
        if np.any(Aadj.dot(np.array(cand[:m]))):
            b = np.array(cand[:m])
            break
    for pre in _history_pres(n):
        op = make()                          # ONE object for the whole history
        what = 'none'
        coarse = None
        # ---- the past of the object
        try:
            if pre == 'evaluated':
                what = 'op(x), op.adjoint(y), op.adjoint.norm(estimate=True, maxiter=2)'
                op(op.domain.one())
                op.adjoint(op.range.one())
                _seed(cfg)
                op.adjoint.norm(estimate=True, maxiter=2)
            elif pre == 'solver-before':
                what = 'landweber(op, 0, rhs, 2) and pdhg_stepsize(op)'
                _seed(cfg)
                odl.solvers.landweber(op, op.domain.zero(), op.range.one(), 2)
                odl.solvers.pdhg_stepsize(op)
            elif pre != 'none':
                kw = _coarse_kwargs(op, pre, A, wx, wy)
                what = 'op.norm(estimate=True, %s)' % ', '.join(
                    '%s=%s' % (k, S.to_flat(v).tolist() if hasattr(v, 'space') else v)
                    for k, v in sorted(kw.items()))
                _seed(cfg)
                coarse = op.norm(estimate=True, **kw)
                evals += 1
                # the property's clause on the estimate holds for this entry point as well
                if not coarse <= nrm * (1 + 1e-12):
                    _first(first, ('Operator.norm[estimate,%s]' % tag, 'estimate_exceeds_norm'),
                           'A=%s wx=%s wy=%s: %s = %r > true norm %r' % (
                               A.tolist(), wx.tolist(), wy.tolist(), what, coarse, nrm))
        except ValueError as e:
            if 'reached ``x=0``' in str(e):
                skipped += 1                 # start vector in the kernel: documented failure
                continue
            _first(first, ('Operator.norm[estimate,%s]' % tag, 'raises:ValueError'),
                   'A=%s %s: %r' % (A.tolist(), what, e))
            continue
        except Exception as e:
            _first(first, ('Operator.norm[estimate,%s]' % tag, 'raises:' + type(e).__name__),
                   'A=%s %s: %r' % (A.tolist(), what, e))
            continue
        armed = coarse is not None and coarse < nrm / np.sqrt(2.0)
        past = 'fresh-operator' if pre == 'none' else 'after-earlier-use-of-the-operator'
        info = 'A=%s wx=%s wy=%s (||A||=%r); earlier on the SAME operator object: %s%s' % (
            A.tolist(), wx.tolist(), wy.tolist(), nrm, what,
            '' if coarse is None else ' = %r' % coarse)
        # diagnostic (counted, not judged): a later request with other arguments is answered
        # with the old value
        if coarse is not None:
            e0 = op.domain.element(np.eye(n)[0])
            try:
                again = op.norm(estimate=True, xstart=e0, maxiter=20, rtol=0.0, atol=0.0)
                evals += 1
                if not again <= nrm * (1 + 1e-12):
                    _first(first, ('Operator.norm[estimate,%s]' % tag, 'estimate_exceeds_norm'),
                           '%s; then op.norm(estimate=True, xstart=e_0, maxiter=20, rtol=0, '
                           'atol=0) = %r' % (info, again))
                from odl.operator.oputils import power_method_opnorm
                if again != power_method_opnorm(op, xstart=e0, maxiter=20, rtol=0.0, atol=0.0):
                    nstale += 1
            except ValueError:
                pass
        # ---- landweber with the default relaxation
        site = 'landweber[default-omega,%s]' % past
        if b is not None:
            x0 = np.zeros(n)
            x = op.domain.element(x0.copy())
            rec = Rec()
            _seed(cfg)
            try:
                odl.solvers.landweber(op, x, op.range.element(b), 8, callback=rec)
                evals += 1
                g = Aadj.dot(A.dot(x0) - b)
                om = float(np.sum(wx * (x0 - rec.it[0]) * g) / np.sum(wx * g * g))
                if not 0 < om * nrm ** 2 < 2.0:
                    _first(first, (site, 'default_omega_violates_documented_condition'),
                           '%s; then landweber(op, 0, %s, 8): default omega=%r, omega*||A||^2=%r '
                           'not in (0, 2)' % (info, b.tolist(), om, om * nrm ** 2))
                else:
                    res = [R.wnorm(A.dot(z) - b, wy) for z in [x0] + rec.it]
                    tol = 1e-12 * (1.0 + R.wnorm(b, wy) + max(res))
                    for k in range(len(res) - 1):
                        if res[k + 1] > res[k] + tol:
                            _first(first, (site, 'residual_increases'),
                                   '%s; then landweber(op, 0, %s, 8) default omega=%r: step %d, '
                                   'residuals=%s' % (info, b.tolist(), om, k + 1,
                                                     ['%.6e' % r for r in res]))
                            break
                sigs.add('hist:lw:%s:%s:%s' % (pre.rstrip('0123456789'), armed,
                                               0 < om * nrm ** 2 < 2.0))
            except Exception as e:
                _first(first, (site, 'raises:' + type(e).__name__), '%s: %r' % (info, e))
        # ---- the step-size rules
        site = 'pdhg_stepsize[%s]' % past
        for tau_in, sig_in in [(None, None), (0.3 / nrm, None), (None, 3.0 / nrm)]:
            _seed(cfg)
            try:
                tau, sig = odl.solvers.pdhg_stepsize(op, tau_in, sig_in)
            except Exception as e:
                _first(first, (site, 'raises:' + type(e).__name__), '%s: %r' % (info, e))
                continue
            evals += 1
            ok = tau > 0 and sig > 0 and tau * sig * nrm ** 2 < 1.0
            if not ok:
                _first(first, (site, 'steps_violate_documented_condition'),
                       '%s; then pdhg_stepsize(op, tau=%r, sigma=%r) = (%r, %r): tau*sigma*||L||^2 '
                       '= %r, must be < 1' % (info, tau_in, sig_in, tau, sig,
                                              tau * sig * nrm ** 2))
            sigs.add('hist:pdhg:%s:%s:%s' % (pre.rstrip('0123456789'), armed, ok))
        site = 'douglas_rachford_pd_stepsize[%s]' % past
        for Ls, tau_in, sig_in in [([op], None, None), ([op, op], None, None),
                                   ([op], 0.5 / nrm, None), ([op], None, [0.5 / nrm ** 2])]:
            _seed(cfg)
            try:
                tau, sig = odl.solvers.douglas_rachford_pd_stepsize(Ls, tau_in, sig_in)
            except Exception as e:
                _first(first, (site, 'raises:' + type(e).__name__), '%s: %r' % (info, e))
                continue
            evals += 1
            val = tau * sum(s_ * nrm ** 2 for s_ in sig)
            ok = tau > 0 and all(s_ > 0 for s_ in sig) and len(sig) == len(Ls) and val < 4.0
            if not ok:
                _first(first, (site, 'steps_violate_documented_condition'),
                       '%s; then douglas_rachford_pd_stepsize([op]*%d, tau=%r, sigma=%r) = (%r, %r)'
                       ': tau*sum(sigma_i ||L_i||^2) = %r, must be < 4' % (
                           info, len(Ls), tau_in, sig_in, tau, list(sig), val))
            sigs.add('hist:dr:%s:%s:%s' % (pre.rstrip('0123456789'), armed, ok))
    viol = [{'site': k[0], 'symptom': k[1], 'detail': v} for k, v in first.items()]
    return {'evals': evals, 'viol': viol, 'sig': sorted(sigs), 'skipped': skipped,
            'stale': nstale}

# ----------------------------------------------------------------------------------------------
# (b) non-smooth solvers: problem pool built backwards from a primal-dual pair

XV = [-1.0, 0.0, 2.0]          # x* alphabet: lower bound of the box / zero of |.| / upper bound
XVP = [0.5, 1.0, 2.0]          # positive alphabet (Kullback-Leibler)
XVN = [0.0, 1.0, 2.0]          # non-negativity constraint: active / inactive
TH = [0.5, -0.5, 0.0, 0.25, -0.75]      # interior sub-gradient representatives (strict compl.)
TH_BOX = [0.5, 1.0, 0.25, 2.0, 0.75]    # multipliers of active bounds (non-zero)
TH_DEG = [1.0, -1.0, 0.0, 1.0, -1.0]    # boundary representatives (no strict complementarity)
RP = [0.0, 1.0, -0.5, 0.0, 2.0]         # residual pattern  L x* - b
RHO = [1.0, 0.5, 2.0]                   # prior / (L x*) for Kullback-Leibler data

MATS = {
    'D': {3: [[-1.0, 1.0, 0.0], [0.0, -1.0, 1.0]], 2: [[-1.0, 1.0]]},
    'M': {3: [[2.0, 1.0, 0.0], [0.0, 2.0, -1.0], [1.0, 0.0, 2.0]], 2: [[2.0, 1.0], [0.0, 1.0]]},
    'P': {3: [[1.0, 0.5, 0.0], [0.0, 1.0, 0.5], [0.5, 0.0, 1.0]], 2: [[1.0, 0.5], [0.5, 1.0]]},
    'W': {3: [[1.0, 2.0, 0.0], [0.0, 1.0, -1.0]], 2: [[1.0, 2.0]]},
    'Q': {3: [[1.0, 1.0, 0.0], [1.0, -1.0, 0.0], [0.0, 0.0, 1.0]], 2: [[1.0, 1.0], [1.0, -1.0]]},
}
DIAG = [1.0, 2.0, 0.5, 1.5]

XSPACES = {
    'rn3': ('rn', 3, 'plain'), 'rn3w2': ('rn', 3, 'w2'), 'rn3wa': ('rn', 3, 'wa'),
    'rn2': ('rn', 2, 'plain'), 'rn2wa': ('rn', 2, 'wa'),
    'ud3': ('ud', 3, None), 'ud4': ('ud', 4, None), 'ud2x2v': ('ud', 4, None),
}


def _xspace(name):
    k = XSPACES[name]
    if k[0] == 'rn':
        return _rn(k[1], k[2])
    return S.build(name)


def _mk_L(kind, X, xname):
    """odl operator of the given kind on X."""
    if kind == 'I':
        return odl.IdentityOperator(X)
    if kind == 'diag':
        return odl.MultiplyOperator(S.from_flat(X, np.array(DIAG[:S.flat_size(X)])),
                                    domain=X, range=X)
    if kind == 'grad':
        return odl.Gradient(X)
    if kind == 'grad_sym':
        return odl.Gradient(X, pad_mode='symmetric')
    if kind == 'pderiv':            # domain == range; its in-place evaluation is not alias-safe
        return odl.PartialDerivative(X, axis=0, method='forward', pad_mode='constant')
    if kind == 'pderiv_b':
        return odl.PartialDerivative(X, axis=0, method='backward', pad_mode='constant')
    if kind in MATS:
        _, n, wk = XSPACES[xname]
        A = np.array(MATS[kind][n])
        return _matop(A, wk, 'ref' if wk == 'wa' else 'odl', dom=X)
    raise KeyError(kind)


def _sel(lst, j, pat):
    return lst[(j + pat) % len(lst)]


class Prob(object):
    pass


def _gterm(kind, par, w, k):
    if kind == 'l1':
        return R.L1(w, par)
    if kind == 'l2':
        return R.L2(w, par)
    if kind == 'l2sq':
        return R.L2Sq(w, par)
    if kind == 'groupl1':
        return R.GroupL1(w, k, par)
    if kind == 'indzero':
        return R.IndPoint(w)
    raise KeyError(kind)


def _godl(kind, par, Y):
    if kind == 'l1':
        return par * odl.solvers.L1Norm(Y)
    if kind == 'l2':
        return par * odl.solvers.L2Norm(Y)
    if kind == 'l2sq':
        return par * odl.solvers.L2NormSquared(Y)
    if kind == 'groupl1':
        return par * odl.solvers.GroupL1Norm(Y, 2)
    if kind == 'indzero':
        return odl.solvers.IndicatorZero(Y)
    raise KeyError(kind)


def build_problem(rec):
    """rec = {'fam', 'X', 'xs', 'pat', 'deg'} -> Prob with odl objects and the reference model.
    Everything numeric about the solution comes from the recipe (x*, patterns) and the reference
    sub-differentials; odl only supplies the objects handed to the solver."""
    fam = FAMS[rec['fam']]
    xname = rec['X']
    X = _xspace(xname)
    n = S.flat_size(X)
    wx = S.weights(X)
    xs = np.array(rec['xs'], float)
    pat = rec['pat']
    zero_dual = pat == 'z'
    p = 0 if zero_dual else int(pat)
    deg = bool(rec.get('deg'))
    th_int = TH_DEG if deg else TH
    th_box = [0.0] * 5 if deg else TH_BOX
    if zero_dual:
        th_int = [0.0] * 5
        th_box = [0.0] * 5

    P = Prob()
    P.X, P.xs, P.wx = X, xs, wx
    # ---- blocks
    Ls, Lmats, gs_odl, gs_ref, ys, wys = [], [], [], [], [], []
    ls_odl, l_lips = [], []
    data_block = None
    for bi, blk in enumerate(fam['blocks']):
        gk, par, lk, mode = blk[:4]
        lc = blk[4] if len(blk) > 4 else None      # l_i = lc * ||.||^2 (infimal convolution)
        Lop = _mk_L(lk, X, xname)
        if adjoint_defect(Lop) > 1e-12:
            raise NotImplementedError('adjoint of %s inexact' % lk)
        A = _fullmat(Lop)
        Y = Lop.range
        wy = S.weights(Y)
        m = wy.size
        z = A.dot(xs)
        k = len(Y) if S.is_pspace(Y) else 1
        theta = np.array([_sel(th_int, j + bi, p) for j in range(m)])
        if mode == 'data':
            data_block = bi
            Ls.append(Lop), Lmats.append(A), wys.append(wy)
            gs_odl.append(None), gs_ref.append(None), ys.append(None)
            continue
        if gk == 'box':
            lo, hi = par
            r = np.array([_sel([lo, 0.5 * (lo + hi), hi], j + bi, p) for j in range(m)])
            if zero_dual:
                r = np.full(m, 0.5 * (lo + hi))
            b = z - r
            tref = R.Box(wy, lo + b, hi + b)
            godl = odl.solvers.IndicatorBox(Y, S.from_flat(Y, lo + b), S.from_flat(Y, hi + b))
            theta = np.array([_sel(th_box, j + bi, p) for j in range(m)])
        elif gk == 'kl':
            if np.any(z <= 0):
                raise NotImplementedError('KL data needs L x* > 0')
            rho = np.array([1.0 if zero_dual else _sel(RHO, j + bi, p) for j in range(m)])
            prior = z * rho
            tref = R.KL(wy, prior)
            godl = odl.solvers.KullbackLeibler(Y, S.from_flat(Y, prior))
        else:
            if mode == 'nat':
                b = np.zeros(m)
            elif mode == 'fit':            # right-hand side hit exactly (indicator of a point)
                b = z.copy()
            else:
                r = np.array([0.0 if zero_dual else _sel(RP, j + bi, p) for j in range(m)])
                b = z - r
            base = _gterm(gk, par, wy, k)
            tref = R.Shift(base, a=b) if np.any(b) else base
            godl = _godl(gk, par, Y)
            if np.any(b):
                godl = godl.translated(S.from_flat(Y, b))
        if lc is not None:
            # the term of the problem is (g_i box l_i), l_i = lc ||.||^2: smooth, its gradient at
            # L x* is the dual solution; the solver gets g_i and l_i separately
            tref = R.Envelope(tref, lc)
            ls_odl.append(lc * odl.solvers.L2NormSquared(Y))
            l_lips.append(1.0 / (2 * lc))          # Lipschitz constant of grad l_i^*
        y = tref.pick(z, theta)
        Ls.append(Lop), Lmats.append(A), wys.append(wy)
        gs_odl.append(godl), gs_ref.append(tref), ys.append(y)

    def q_blocks(skip=None):
        q = np.zeros(n)
        for i in range(len(Ls)):
            if i != skip:
                q += R.adjoint_matrix(Lmats[i], wx, wys[i]).dot(ys[i])
        return q

    # ---- f and h
    fk = fam['f']
    thf = np.array([_sel(th_box if fk[0] == 'box' else th_int, j + 2, p) for j in range(n)])
    if fk[0] == 'l2sq':
        f0_ref, f0_odl = R.L2Sq(wx, fk[1]), fk[1] * odl.solvers.L2NormSquared(X)
    elif fk[0] == 'l1':
        f0_ref, f0_odl = R.L1(wx, fk[1]), fk[1] * odl.solvers.L1Norm(X)
    elif fk[0] == 'box':
        lo = -INF if fk[1] is None else fk[1]
        hi = INF if fk[2] is None else fk[2]
        f0_ref = R.Box(wx, lo, hi)
        f0_odl = (odl.solvers.IndicatorNonnegativity(X) if (fk[1] == 0 and fk[2] is None)
                  else odl.solvers.IndicatorBox(X, fk[1], fk[2]))
    elif fk[0] == 'zero':
        f0_ref, f0_odl = R.Zero(wx), odl.solvers.ZeroFunctional(X)
    else:
        raise KeyError(fk)
    if f0_ref.value(xs) == INF:
        raise NotImplementedError('x* outside dom f')
    s = f0_ref.pick(xs, thf)

    hk = fam.get('h')
    h_ref = h_odl = None
    absorb = fam['absorb']
    if hk is not None and hk[0] == 'lsq':
        Mop = _mk_L(hk[2], X, xname)
        if adjoint_defect(Mop) > 1e-12:
            raise NotImplementedError('adjoint inexact')
        Mm = _fullmat(Mop)
        wm = S.weights(Mop.range)
    if absorb == 'f_shift':
        assert fk[0] == 'l2sq' and hk is None
        a = xs + q_blocks() / (2 * fk[1])
        f_ref = R.Shift(f0_ref, a=a)
        f_odl = f0_odl.translated(S.from_flat(X, a))
    elif absorb == 'f_lin':
        assert hk is None
        c = -q_blocks() - s
        f_ref = R.Shift(f0_ref, c=c)
        f_odl = odl.solvers.FunctionalQuadraticPerturb(f0_odl, linear_term=S.from_flat(X, c)) \
            if np.any(c) else f0_odl
    elif absorb == 'g_data':
        bi = data_block
        gk, par, lk, mode = fam['blocks'][bi][:4]
        assert gk == 'l2sq'
        Aadj = R.adjoint_matrix(Lmats[bi], wx, wys[bi])
        y = np.linalg.solve(Aadj, -(s + q_blocks(skip=bi)))
        r = y / (2 * par)
        b = Lmats[bi].dot(xs) - r
        gs_ref[bi] = R.Shift(R.L2Sq(wys[bi], par), a=b)
        gs_odl[bi] = _godl('l2sq', par, Ls[bi].range).translated(S.from_flat(Ls[bi].range, b))
        ys[bi] = y
        f_ref, f_odl = f0_ref, f0_odl
    elif absorb == 'h_shift':
        c = hk[1]
        a = xs + (q_blocks() + s) / (2 * c)
        h_ref = R.QuadData(wx, np.eye(n), a, wx, c)
        h_odl = c * odl.solvers.L2NormSquared(X).translated(S.from_flat(X, a))
        f_ref, f_odl = f0_ref, f0_odl
    elif absorb == 'h_data':
        c = hk[1]
        Madj = R.adjoint_matrix(Mm, wx, wm)
        rho = np.linalg.solve(Madj, -(q_blocks() + s) / (2 * c))
        b = Mm.dot(xs) - rho
        h_ref = R.QuadData(wx, Mm, b, wm, c)
        h_odl = (c * odl.solvers.L2NormSquared(Mop.range)).translated(
            S.from_flat(Mop.range, b)) * Mop
        f_ref, f_odl = f0_ref, f0_odl
    elif absorb == 'none':
        # the recipe itself guarantees 0 in df(x*) + sum L* y  (e.g. f = 0, y* = 0)
        f_ref, f_odl = f0_ref, f0_odl
    else:
        raise KeyError(absorb)

    P.f, P.h, P.g_list, P.L_list = f_odl, h_odl, gs_odl, Ls
    P.Lmats, P.wys, P.ys_list = Lmats, wys, ys
    assert len(ls_odl) in (0, len(Ls))
    P.l_list, P.l_lips = (ls_odl or None), l_lips
    if Ls:
        Lstack = np.vstack(Lmats)
        wy = np.concatenate(wys)
        g_ref = R.Blocks(gs_ref) if len(gs_ref) > 1 else gs_ref[0]
        P.ys = np.concatenate(ys)
    else:
        Lstack = np.zeros((1, n))
        wy = np.ones(1)
        g_ref = R.Zero(wy)
        P.ys = np.zeros(1)
    P.ref = R.Problem(f_ref, g_ref, Lstack, wx, wy, h_ref)
    P.norms = [R.opnorm(A, wx, w_) for A, w_ in zip(Lmats, wys)]
    P.lip_h = 0.0 if h_ref is None else h_ref.lip
    strict_g = any(fam['blocks'][i][0] in ('l2sq', 'kl') and
                   np.linalg.matrix_rank(Lmats[i]) == n for i in range(len(Ls)))
    P.unique = bool(f_ref.strong > 0 or (h_ref is not None and h_ref.strong > 0) or strict_g
                    or fam.get('unique')) and not fam.get('nonunique')
    P.deg = deg
    return P


def _combined(P):
    """single (g, L) for pdhg / admm (ONE BroadcastOperator object per problem, as a user who
    assembles the problem once and then calls step rule and solver would have)"""
    if len(P.L_list) == 1:
        return P.g_list[0], P.L_list[0]
    if getattr(P, '_comb', None) is None:
        P._comb = (odl.solvers.SeparableSum(*P.g_list), odl.BroadcastOperator(*P.L_list))
    return P._comb


PDHG = 'pdhg'
DR = 'douglas_rachford_pd'
FBPD = 'forward_backward_pd'
ADMM = 'admm_linearized'
PG = 'proximal_gradient'
APG = 'accelerated_proximal_gradient'
PD4 = [PDHG, DR, FBPD, ADMM]

FAMS = {
    # TV denoising (ROF) in 1d: ||x - a||^2 + ||grad x||_1 on uniform_discr (cell-volume weights)
    'rof1d': dict(X=['ud4', 'ud3'], f=('l2sq', 1.0), absorb='f_shift',
                  blocks=[('l1', 0.25, 'grad', 'nat')], xv=XV, solvers=PD4),
    # 1d TV with L = PartialDerivative: an operator with domain == range (a solver that shares a
    # temporary between both sides calls it aliased, which finite differences do not survive)
    'rof_pd': dict(X=['ud4', 'ud3'], f=('l2sq', 1.0), absorb='f_shift',
                   blocks=[('l1', 0.25, 'pderiv', 'nat')], xv=XV, solvers=PD4),
    # forward and backward differences: two such operators with EQUAL ranges
    'rof_pd2': dict(X=['ud3'], f=('l2sq', 1.0), absorb='f_shift',
                    blocks=[('l1', 0.25, 'pderiv', 'nat'), ('l1', 0.125, 'pderiv_b', 'pat')],
                    xv=XV, solvers=PD4),
    # the same with Neumann boundary (kernel = constants) and a shifted difference target
    'rof1d_sym': dict(X=['ud4'], f=('l2sq', 1.0), absorb='f_shift',
                      blocks=[('l1', 0.25, 'grad_sym', 'nat')], xv=XV, solvers=PD4),
    # sparse fused lasso, two blocks: 1/2||x-a||^2 + ||Dx||_1 + 1/2||x||_1
    'fused': dict(X=['rn3', 'rn3w2', 'rn3wa'], f=('l2sq', 0.5), absorb='f_shift',
                  blocks=[('l1', 1.0, 'D', 'nat'), ('l1', 0.5, 'I', 'nat')], xv=XV,
                  solvers=PD4),
    # the same with two operators of EQUAL range (rn3 -> rn3 twice) and different g_i
    'fused_eq': dict(X=['rn3', 'rn3w2'], f=('l2sq', 1.0), absorb='f_shift',
                     blocks=[('l1', 1.0, 'Q', 'nat'), ('l1', 0.5, 'I', 'pat')], xv=XV,
                     solvers=PD4),
    # ridge regression: 1/2||x-a||^2 + ||Mx-b||^2: f AND g^* strongly convex, both proximals
    # depend on their step (accelerated pdhg on either side)
    'ridge': dict(X=['rn3', 'rn3wa'], f=('l2sq', 0.5), absorb='f_shift',
                  blocks=[('l2sq', 1.0, 'M', 'pat')], xv=XV, solvers=PD4),
    # infimal convolutions (g_i box l_i)(L_i x), l_i = 1/2||.||^2 (the Huber-type envelope of the
    # L1 norm), passed to the solvers through their `l` keyword
    'env_tv': dict(X=['rn3', 'rn3w2'], f=('l2sq', 0.5), absorb='f_shift',
                   blocks=[('l1', 1.0, 'D', 'nat', 0.5)], xv=XV, solvers=[FBPD, DR]),
    'env_two': dict(X=['rn3'], f=('l2sq', 0.5), absorb='f_shift',
                    blocks=[('l1', 1.0, 'D', 'nat', 0.5), ('l1', 0.5, 'I', 'pat', 0.5)], xv=XV,
                    solvers=[FBPD, DR], thorough_only=True),
    # the same as three-term problem: box constraint + envelope + smooth 1/2||x-a||^2
    'env_h': dict(X=['rn3'], f=('box', -1.0, 2.0), absorb='h_shift', h=('l2sq', 0.5),
                  blocks=[('l1', 1.0, 'D', 'nat', 0.5)], xv=XV, solvers=[FBPD]),
    # three / four operators with quadratic data terms (unbounded duals): the default step rules
    # of pdhg (BroadcastOperator of blocks with comparable norms) and douglas_rachford_pd (n >= 3)
    'multi3': dict(X=['rn3'], f=('l2sq', 1.0), absorb='f_shift',
                   blocks=[('l2sq', 0.25, 'Q', 'pat'), ('l2sq', 0.25, 'P', 'pat'),
                           ('l2sq', 0.25, 'I', 'nat')], xv=XV, solvers=PD4, no_accel=True),
    'multi4': dict(X=['rn3'], f=('l2sq', 1.0), absorb='f_shift',
                   blocks=[('l2sq', 0.25, 'Q', 'pat'), ('l2sq', 0.25, 'P', 'pat'),
                           ('l2sq', 0.25, 'I', 'nat'), ('l1', 0.5, 'I', 'pat')], xv=XV,
                   solvers=PD4, no_accel=True, thorough_only=True),
    # lasso with the data term behind the operator: ||x||_1 + ||Mx - b||^2
    'lasso_g': dict(X=['rn3', 'rn3wa'], f=('l1', 1.0), absorb='g_data',
                    blocks=[('l2sq', 1.0, 'M', 'data')], xv=XV, solvers=PD4),
    # lasso with the data term as smooth part
    'lasso_h': dict(X=['rn3', 'rn3wa'], f=('l1', 1.0), absorb='h_data', h=('lsq', 1.0, 'M'),
                    blocks=[], xv=XV, solvers=[PG, APG, FBPD]),
    # non-negative least squares
    'nnls_h': dict(X=['rn3', 'rn3w2'], f=('box', 0, None), absorb='h_data',
                   h=('lsq', 0.5, 'M'), blocks=[], xv=XVN, solvers=[PG, APG, FBPD]),
    # box-constrained TV denoising, quadratic term behind the identity
    'boxtv_g': dict(X=['ud4'], f=('box', -1.0, 2.0), absorb='g_data',
                    blocks=[('l1', 0.125, 'grad_sym', 'nat'), ('l2sq', 1.0, 'I', 'data')],
                    xv=XV, solvers=PD4),
    # box-constrained TV denoising, quadratic term as smooth h (three-term splitting)
    'boxtv_h': dict(X=['ud4'], f=('box', -1.0, 2.0), absorb='h_shift', h=('l2sq', 1.0),
                    blocks=[('l1', 0.125, 'grad_sym', 'nat')], xv=XV, solvers=[FBPD]),
    # Tikhonov-regularised Poisson data fit: 1/2||x-a||^2 + KL(Px; b)
    'klfit': dict(X=['rn3', 'rn3wa'], f=('l2sq', 0.5), absorb='f_shift',
                  blocks=[('kl', None, 'P', 'rho')], xv=XVP, solvers=PD4),
    'klfit_ud': dict(X=['ud3'], f=('l2sq', 0.5), absorb='f_shift',
                     blocks=[('kl', None, 'diag', 'rho')], xv=XVP, solvers=PD4),
    # un-squared L2 data term: 1/2||x-a||^2 + 2||Mx - b||_2
    'l2fit': dict(X=['rn3', 'rn3wa'], f=('l2sq', 0.5), absorb='f_shift',
                  blocks=[('l2', 2.0, 'M', 'pat')], xv=XV, solvers=PD4),
    # isotropic TV in 2d (group L1 on the gradient)
    'rof2d': dict(X=['ud2x2v'], f=('l2sq', 1.0), absorb='f_shift',
                  blocks=[('groupl1', 0.25, 'grad', 'nat')], xv=XV, solvers=PD4),
    # constraint behind an operator: 1/2||x-a||^2 + ind{-1 <= Dx - b <= 1}
    'diffbox': dict(X=['rn3', 'rn3w2'], f=('l2sq', 0.5), absorb='f_shift',
                    blocks=[('box', (-1.0, 1.0), 'D', 'pat')], xv=XV, solvers=PD4),
    # linear feasibility: find x with Mx = b  (f = 0, g = indicator of {b}; dual solution 0)
    'feas': dict(X=['rn2', 'rn3'], f=('zero',), absorb='none',
                 blocks=[('indzero', None, 'Q', 'fit')], xv=XV, solvers=PD4, unique=True,
                 zero_dual_only=True),
    # under-determined feasibility (2 x 3): a whole line of solutions, only the sub-gradient
    # inclusion of the limit is judged
    'feas_wide': dict(X=['rn3'], f=('zero',), absorb='none',
                      blocks=[('indzero', None, 'W', 'fit')], xv=XV, solvers=PD4,
                      nonunique=True, zero_dual_only=True),
    # l1 + linear constraint (Q invertible, so the solution is the feasible point)
    'l1eq': dict(X=['rn2', 'rn3'], f=('l1', 1.0), absorb='f_lin',
                 blocks=[('indzero', None, 'Q', 'fit')], xv=XV, solvers=PD4, unique=True),
}


# ---- running the solvers ----------------------------------------------------------------------

class _Stop(Exception):
    pass


class _Diverged(Exception):
    pass


class Watch(object):
    """callback: distance to x* and KKT residual of every iterate; stops the run (by raising)
    once both are three orders of magnitude below the judged tolerances."""

    def __init__(self, P, yobj=None, diag=None, loose=1.0, early=1e-3):
        self.P = P
        self.loose = loose       # factor on the judged tolerances (accelerated pdhg: O(1/N) rate)
        self.early = early
        self.k = 0
        self.last = None
        self.nx = R.wnorm(P.xs, P.wx)
        self.scale = 1.0 + self.nx + R.wnorm(P.ys, P.ref.wy)
        self.dist = INF
        self.res = INF
        self.yobj = yobj
        self.diag = diag
        self.nonmono = 0
        self.prev = None

    def measure(self, z):
        self.dist = R.wnorm(z - self.P.xs, self.P.wx)
        self.res = self.P.ref.residual(z, self.P.ys)

    def ok(self, f=1.0):
        f = f * self.loose
        if not self.P.unique:           # solution set not a singleton: sub-gradient inclusion only
            return self.res <= f * 1e-6 * self.scale
        return (self.dist <= f * 1e-5 * (1.0 + self.nx) and self.res <= f * 1e-6 * self.scale)

    def __call__(self, x):
        self.k += 1
        z = S.to_flat(x)
        self.last = z
        if self.diag is not None:
            v = self.diag(self, z)
            if v is not None:
                if self.prev is not None and v > self.prev + 1e-12 * (1.0 + abs(self.prev)):
                    self.nonmono += 1
                self.prev = v
        self.dist = R.wnorm(z - self.P.xs, self.P.wx)
        if not np.isfinite(self.dist):
            raise _Diverged()           # NaN / inf iterate: no point in running on
        if self.dist <= self.loose * 1e-5 * (1.0 + self.nx) or not self.P.unique:
            self.res = self.P.ref.residual(z, self.P.ys)
            if self.ok(self.early):
                raise _Stop()


def _zero_h(P):
    return P.h if P.h is not None else odl.solvers.ZeroFunctional(P.X)


def _grids(solver, P, tier):
    """Admissible step-size settings (documented conditions, evaluated with the TRUE operator
    norms in the spaces' own inner products)."""
    thorough = tier == 'thorough'
    nrm = P.ref.Lnorm
    out = []
    if solver == PDHG:
        for p, rho in [(0.9, 1.0), (0.5, 4.0), (0.99, 0.25)][:3 if thorough else 1]:
            out.append({'tau': np.sqrt(p * rho) / nrm, 'sigma': np.sqrt(p / rho) / nrm,
                        'tag': 'tau*sigma*|L|^2=%s,tau/sigma=%s' % (p, rho)})
        out.append({'tau': None, 'sigma': None, 'tag': 'default'})
        if thorough:
            out.append({'tau': 0.5 / nrm, 'sigma': None, 'tag': 'tau-only'})
            out.append({'tau': None, 'sigma': 2.0 / nrm, 'tag': 'sigma-only'})
        # acceleration (variable theta, tau, sigma): documented as admissible for gamma_primal up
        # to the strong-convexity modulus of f, resp. gamma_dual up to the modulus of g^*
        # (= 1 / Lipschitz constant of grad g); moduli in the spaces' own norms from the reference
        mu_f = P.ref.f.strong
        lip_g = P.ref.g.lip
        mu_gc = 1.0 / lip_g if 0 < lip_g < INF else 0.0
        acc = []
        if mu_f > 0:
            acc += [('gamma_primal', mu_f, 0.9, 1.0), ('gamma_primal', 0.5 * mu_f, 0.5, 4.0)]
        if mu_gc > 0:
            acc += [('gamma_dual', mu_gc, 0.9, 1.0), ('gamma_dual', 0.5 * mu_gc, 0.5, 0.25)]
        for i, (key, gam, p, rho) in enumerate(acc):
            if not thorough and i % 2:
                continue
            out.append({'tau': np.sqrt(p * rho) / nrm, 'sigma': np.sqrt(p / rho) / nrm,
                        'acc': {key: gam}, 'acc_live': bool(mu_f > 0 and mu_gc > 0),
                        'tag': 'accelerated,%s=%s*modulus,tau*sigma*|L|^2=%s,tau/sigma=%s' % (
                            key, 1.0 if i % 2 == 0 else 0.5, p, rho)})
    elif solver == DR:
        m = len(P.norms)
        s1 = sum(P.norms)
        for p, rho, lam in [(2.0, 1.0, 1.0), (3.6, 0.5, 1.5), (1.0, 2.0, 0.5)][:3 if thorough
                                                                              else 1]:
            tau = rho * m / s1
            sigma = [p / (m * tau * nr ** 2) for nr in P.norms]
            out.append({'tau': tau, 'sigma': sigma, 'lam': lam,
                        'tag': 'tau*sum(sigma_i|L_i|^2)=%s,lam=%s' % (p, lam)})
        out.append({'tau': None, 'sigma': None, 'lam': 1.0, 'tag': 'default'})
        if thorough:
            out.append({'tau': 1.0 / s1, 'sigma': None, 'lam': 1.0, 'tag': 'tau-only'})
            out.append({'tau': None, 'sigma': [1.0 / nr for nr in P.norms], 'lam': 1.0,
                        'tag': 'sigma-only'})
    elif solver == FBPD and P.l_list:
        # with the l_i terms: dual steps sigma != 1 on purpose; tau from tau*sum(sigma|L|^2) = p,
        # then shrunk until the step condition holds under EVERY reading of the docstring / of
        # [BC2015]: constants eta = 1/Lip(grad h), nu_i in {Lip(grad l_i^*), 1/Lip(grad l_i^*)},
        # factor min(sqrt(1-p), 1-sqrt(p))
        s2 = sum(nr ** 2 for nr in P.norms)
        m = len(P.norms)
        consts = [c for lp in P.l_lips for c in (lp, 1.0 / lp)]
        if P.lip_h > 0:
            consts.append(1.0 / P.lip_h)
        for sig, p in [(0.5, 0.5), (1.25, 0.09)][:2]:
            tau = p / (sig * s2)
            for _ in range(40):
                pp = tau * sig * s2
                cond = 2.0 * min(1.0 / tau, 1.0 / sig) * min(consts) * \
                    min(np.sqrt(1.0 - pp), 1.0 - np.sqrt(pp))
                if cond > 1.05:
                    break
                tau *= 0.8
            else:
                continue
            out.append({'tau': tau, 'sigma': [sig] * m,
                        'tag': 'with-l,sigma=%s,tau*sum(sigma|L|^2)=%.3g' % (sig, pp)})
    elif solver == FBPD:
        beta = P.lip_h
        m = len(P.norms)
        s2 = sum(nr ** 2 for nr in P.norms)
        for p, rho in [(0.9, 1.0), (0.5, 4.0), (0.5, 0.25)][:3 if thorough else 2]:
            if m:
                c = p / s2
                tau, sig = np.sqrt(c * rho), np.sqrt(c / rho)
            else:
                tau, sig = rho, 1.0
            if beta > 0:
                # documented: 2 min(1/tau, 1/sigma_i) * (1/beta) * sqrt(1 - tau sum sigma|L|^2) > 1
                bound = 0.9 * 2.0 * np.sqrt(1.0 - (p if m else 0.0)) / beta
                fac = min(1.0, bound / max(tau, sig if m else tau))
                tau, sig = tau * fac, sig * fac
            pp = tau * sig * s2
            cond = INF if beta == 0 else \
                2.0 * min([1.0 / tau] + [1.0 / sig] * m) / beta * np.sqrt(1.0 - pp)
            assert pp < 1 and cond > 1
            out.append({'tau': tau, 'sigma': [sig] * m,
                        'tag': 'tau*sum(sigma|L|^2)<=%s,tau/sigma=%s' % (p, rho)})
    elif solver == ADMM:
        # same parametrisation as pdhg (1/sigma plays the role of the dual step)
        for p, rho in [(0.9, 1.0), (0.5, 4.0), (0.99, 0.25)][:3 if thorough else 2]:
            out.append({'tau': np.sqrt(p * rho) / nrm, 'sigma': nrm / np.sqrt(p / rho),
                        'tag': 'tau|L|^2/sigma=%s,tau*sigma=%s' % (p, rho)})
    elif solver == PG:
        # relaxation lam: constants and callables; admissible in the sense of the averaged-
        # operator theory behind the docstring (sum lam_k (delta - lam_k) = inf with
        # delta = min{1, beta/gamma} + 1/2; for gamma <= beta every lam_k in [eps, 3/2 - eps]).
        # 'harmonic' (1/(k+1)) is admissible but too slow for a horizon: fixed point only.
        grid = [(1.0, 1.0), (1.9, 1.0), (1.0, 0.5), (1.0, 1.25), (1.0, 'decay'), (1.0, 'harmonic'),
                (0.5, 1.0), (0.5, 1.25), (1.9, 0.5)]
        for c, lam in grid[:9 if thorough else 6]:
            out.append({'gamma': c / P.lip_h, 'lam': lam, 'tag': 'gamma*Lip=%s,lam=%s' % (c, lam)})
    elif solver == APG:
        for c in [1.0, 0.5][:2 if thorough else 1]:
            out.append({'gamma': c / P.lip_h, 'tag': 'gamma*Lip=%s' % c})
    return out


def _call_ns(solver, P, st, x, niter, cb, inject=None):
    """one call of the real solver; `inject` = (y, x_relax) elements for pdhg"""
    if solver == PDHG:
        g, L = _combined(P)
        kw = dict(st.get('acc') or {})
        if inject is not None:
            kw.update({'y': inject[0], 'x_relax': inject[1]})
        return odl.solvers.pdhg(x, P.f, g, L, niter, tau=st['tau'], sigma=st['sigma'],
                                callback=cb, **kw)
    if solver == DR:
        kw = {'l': P.l_list} if P.l_list else {}
        return odl.solvers.douglas_rachford_pd(x, P.f, P.g_list, P.L_list, niter, tau=st['tau'],
                                               sigma=st['sigma'], callback=cb, lam=st['lam'],
                                               **kw)
    if solver == FBPD:
        kw = {'l': P.l_list} if P.l_list else {}
        return odl.solvers.forward_backward_pd(x, P.f, P.g_list, P.L_list, _zero_h(P), st['tau'],
                                               st['sigma'], niter, callback=cb, **kw)
    if solver == ADMM:
        g, L = _combined(P)
        return odl.solvers.admm_linearized(x, P.f, g, L, st['tau'], st['sigma'], niter,
                                           callback=cb)
    if solver == PG:
        lam = st['lam']
        if lam == 'decay':
            lam = lambda k: 0.5 + 0.5 / (k + 1)
        elif lam == 'harmonic':
            lam = lambda k: 1.0 / (k + 1)
        return odl.solvers.proximal_gradient(x, P.f, P.h, st['gamma'], niter, callback=cb,
                                             lam=lam)
    if solver == APG:
        return odl.solvers.accelerated_proximal_gradient(x, P.f, P.h, st['gamma'], niter,
                                                         callback=cb)
    raise KeyError(solver)


def _effective_steps(solver, P, st, cfg):
    """Resolve the documented default step rules (they call Operator.norm(estimate=True), i.e. the
    power method from a random start: the stream is seeded from the configuration) and return
    (steps with numbers, admissible?)."""
    if solver == PDHG and (st['tau'] is None or st['sigma'] is None):
        _, L = _combined(P)
        _seed(cfg)
        tau, sigma = odl.solvers.pdhg_stepsize(L, st['tau'], st['sigma'])
        _seed(cfg)
        est = _fresh_estimate(L)
        _seed(cfg)
        if tau * sigma * P.ref.Lnorm ** 2 < 1.0:
            return (tau, sigma), True
        # inadmissible: the rule's fault unless the power-method estimate itself is poor
        return (tau, sigma), (None if est < EST_OK * P.ref.Lnorm else False)
    if solver == DR and (st['tau'] is None or st['sigma'] is None):
        _seed(cfg)
        tau, sigma = odl.solvers.douglas_rachford_pd_stepsize(P.L_list, st['tau'], st['sigma'])
        _seed(cfg)
        ests = [_fresh_estimate(Li) for Li in P.L_list]
        _seed(cfg)
        if tau * sum(s * nr ** 2 for s, nr in zip(sigma, P.norms)) < 4.0:
            return (tau, sigma), True
        poor = any(e < EST_OK * nr for e, nr in zip(ests, P.norms))
        return (tau, sigma), (None if poor else False)
    return None, True


def _fixed_point_applicable(solver, P):
    """Can the solver be started AT the primal-dual solution through its API?"""
    if solver in (PDHG, PG, APG):
        return True                     # pdhg takes y and x_relax; (A)PG have no dual state
    dual0 = not np.any(P.ys)
    if solver == FBPD:
        return dual0                    # dual variables start at 0 and cannot be passed
    # DR and linearized ADMM additionally start their range-side variables (z, p2) at 0
    return dual0 and not np.any(P.ref.L.dot(P.xs))


def _x0(P, which, fam):
    n = P.xs.size
    if which == 'zero':
        return np.zeros(n) if fam['xv'] is not XVP else np.ones(n)
    return np.array(([1.0, 3.0, 0.5, 2.0] if fam['xv'] is XVP else [1.0, -2.0, 0.5, 3.0])[:n])


def _pdhg_lyapunov(P, st):
    """Diagnostic only.  odl updates the dual first, so (x_k, y_{k+1}) is the iterate of the
    primal-first Chambolle-Pock scheme = proximal point method in the metric
    [[1/tau, -L*], [-L, 1/sigma]]; the squared distance to (x*, y*) in it cannot increase."""
    tau, sigma = st['tau'], st['sigma']
    state = {}

    def diag(w, z):
        y = S.to_flat(w.yobj)
        v = None
        if 'x' in state:
            dx = state['x'] - P.xs
            dy = y - P.ys
            v = (np.sum(P.wx * dx * dx) / tau + np.sum(P.ref.wy * dy * dy) / sigma
                 - 2 * np.sum(P.ref.wy * P.ref.L.dot(dx) * dy))
        state['x'] = z
        return v
    return diag


def _pg_objective(P):
    def diag(w, z):
        return P.ref.objective(z)
    return diag


def _ns_history(P, cfg):
    """Ask every operator object of the problem for a coarse norm estimate (start vector
    cfg['pre']: 'e0' / 'elast' = first / last basis vector, 'weak' = almost orthogonal to the
    dominant direction; shortest admissible run).  -> description for the report."""
    done = []
    ops = [(Li, A, wy) for Li, A, wy in zip(P.L_list, P.Lmats, P.wys)]
    if len(P.L_list) > 1:
        ops.append((_combined(P)[1], P.ref.L, P.ref.wy))
    seen = set()
    for Li, A, wy in ops:
        if id(Li) in seen:
            continue
        seen.add(id(Li))
        n = A.shape[1]
        if cfg['pre'] == 'weak':
            v = R.weak_start(A, P.wx, wy)
        else:
            v = np.eye(n)[0 if cfg['pre'] == 'e0' else n - 1]
        kw = {'xstart': S.from_flat(P.X, v), 'maxiter': 1 if Li.adjoint is Li else 2}
        try:
            est = Li.norm(estimate=True, **kw)
        except ValueError as e:             # "reached x=0": start vector in the kernel
            est = 'ValueError(%s)' % e
        done.append('%s.norm(estimate=True, xstart=%s, maxiter=%d) = %s [true %r]' % (
            type(Li).__name__, v.tolist(), kw['maxiter'], est,
            R.opnorm(A, P.wx, wy)))
    return '; earlier on the SAME operator objects: ' + ', '.join(done)


def run_ns(cfg):
    fam = FAMS[cfg['fam']]
    solver = cfg['solver']
    tier = cfg['tier']
    site0 = '%s[%s' % (solver, cfg['fam'])
    try:
        P = build_problem(cfg)
    except NotImplementedError:
        return {'evals': 0, 'skipped': 1, 'trivial': True, 'sig': 'not-buildable'}
    # the reference model certifies the solution: sub-gradient inclusion at (x*, y*)
    d1, d2 = P.ref.kkt_exact(P.xs, P.ys)
    assert max(d1, d2) <= 1e-12 * (1.0 + R.wnorm(P.ys, P.ref.wy)), 'recipe is not a KKT point'
    K = cfg['K']
    first, evals, sigs, skipped = {}, 0, set(), 0
    diag_nonmono = 0
    diag_runs = 0
    nfp = 0
    iters = []
    acc_iters = []
    live = not cfg.get('deg')
    grid = _grids(solver, P, tier)
    past = ''
    if cfg.get('pre'):
        # history of the operator objects (see run_history): every L_i, and the assembled
        # BroadcastOperator, has earlier been asked for a coarse norm estimate with the caller's
        # own arguments; the solver is then run with its DEFAULT steps on the same objects
        past = _ns_history(P, cfg)
        grid = [st for st in grid if st['tag'] == 'default']
        if solver == PDHG:
            grid += [{'tau': 0.5 / P.ref.Lnorm, 'sigma': None, 'tag': 'tau-only'},
                     {'tau': None, 'sigma': 2.0 / P.ref.Lnorm, 'tag': 'sigma-only'}]
        elif solver == DR:
            grid += [{'tau': 1.0 / sum(P.norms), 'sigma': None, 'lam': 1.0, 'tag': 'tau-only'},
                     {'tau': None, 'sigma': [1.0 / nr for nr in P.norms], 'lam': 1.0,
                      'tag': 'sigma-only'}]
    for st in grid:
        accel = bool(st.get('acc'))
        if accel and fam.get('no_accel'):
            continue
        site = '%s,%s]' % (site0, ('default-steps' + (',after-earlier-norm-estimate' if past
                                                      else ''))
                           if st['tag'] in ('default', 'tau-only', 'sigma-only')
                           else ('accelerated-steps' if accel else 'explicit-steps'))
        info = 'problem=%s steps={%s}%s' % (
            dict((k, v) for k, v in cfg.items() if k not in ('kind', 'tier', 'K')), st['tag'],
            past)
        eff, adm = _effective_steps(solver, P, st, cfg)
        if past:
            sigs.add('%s:history:%s:%s' % (solver, cfg['pre'], adm))
        if adm is None:
            # power-method estimate more than 2.5 % below the true norm (random start, early
            # stop on a plateau): the 10 % margin of the rule cannot absorb it; the property
            # only bounds the estimate from above, so this is counted, not judged
            skipped += 1
            sigs.add('%s:default-estimate-poor' % solver)
            continue
        if not adm:
            # the default rule returned steps outside the condition its own docstring states
            # ("Default: Sufficient for convergence"; the rule leaves a 10 % margin for the
            # power-method estimate, which is within 1e-5 on these operators)
            sigs.add('%s:default-inadmissible' % solver)
            _first(first, ('rule', site), (
                'default_steps_violate_documented_condition',
                '%s: default rule returned tau=%r sigma=%r; with the exact norms %s' % (
                    info, eff[0], eff[1],
                    'tau*sigma*|L|^2 = %r (must be < 1)' % (eff[0] * eff[1] * P.ref.Lnorm ** 2)
                    if solver == PDHG else
                    'tau*sum(sigma_i |L_i|^2) = %r (must be < 4)' % (
                        eff[0] * sum(s_ * nr ** 2 for s_, nr in zip(eff[1], P.norms))))))
            continue
        try:
            # ---- (i) fixed point
            if _fixed_point_applicable(solver, P):
                for nit in ((1, 3, 10) if accel else (1, 3)):
                    x = S.from_flat(P.X, P.xs.copy())
                    inject = None
                    if solver == PDHG:
                        _, L = _combined(P)
                        inject = (S.from_flat(L.range, P.ys.copy()), x.copy())
                    _seed(cfg)
                    _call_ns(solver, P, st, x, nit, None, inject)
                    evals += 1
                    dx = R.wnorm(S.to_flat(x) - P.xs, P.wx)
                    if not dx <= 1e-10 * (1.0 + R.wnorm(P.xs, P.wx)):
                        _first(first, ('fp', site), (
                            'solution_is_not_a_fixed_point',
                            '%s: started at x*=%s (y*=%s), after %d iteration(s) x=%s, '
                            '|x-x*|=%.3e' % (info, P.xs.tolist(), P.ys.tolist(), nit,
                                             S.to_flat(x).tolist(), dx)))
                    if inject is not None:
                        dy = R.wnorm(S.to_flat(inject[0]) - P.ys, P.ref.wy)
                        if not dy <= 1e-10 * (1.0 + R.wnorm(P.ys, P.ref.wy)):
                            _first(first, ('fpd', site), (
                                'solution_is_not_a_fixed_point',
                                '%s: dual variable moved from y*=%s to %s' % (
                                    info, P.ys.tolist(), S.to_flat(inject[0]).tolist())))
                sigs.add('%s:fp' % solver)
                nfp += 1
            # ---- result of a short run is the last iterate handed to the callback
            x0 = _x0(P, 'pattern', fam)
            x = S.from_flat(P.X, x0.copy())
            rec = Rec()
            _seed(cfg)
            _call_ns(solver, P, st, x, 5, rec)
            evals += 1
            if len(rec.it) != 5 or not np.array_equal(S.to_flat(x), rec.it[-1], equal_nan=True):
                _first(first, ('last', site), (
                    'result_is_not_last_iterate',
                    '%s x0=%s niter=5: %d callbacks, x after the call %s, last callback iterate '
                    '%s' % (info, x0.tolist(), len(rec.it), S.to_flat(x).tolist(),
                            rec.it[-1].tolist() if rec.it else None)))
            if not live or ('live', site) in first or st['tag'] in ('tau-only', 'sigma-only'):
                continue
            if cfg['pat'] == 'z' and not fam.get('zero_dual_only'):
                continue      # the zero-dual variants exist for the fixed-point clause
            if st.get('lam') == 'harmonic':
                continue
            if accel and not st['acc_live']:
                # accelerated pdhg is O(1/N) in |x_N - x*| in general (1e-3 after ~1500
                # iterations on ROF / KL members): no horizon with a margin exists, so bounded
                # liveness is judged only where f AND g^* are strongly convex; the fixed-point
                # clause above needs no rate and is judged everywhere
                continue
            # ---- (ii) bounded liveness (+ diagnostics), from every start
            for which in (['zero', 'pattern'] if (tier == 'thorough' and cfg['pat'] == 0)
                          else ['zero']):
                if ('live', site) in first:
                    break
                x0 = _x0(P, which, fam)
                x = S.from_flat(P.X, x0.copy())
                inject = None
                diag = None
                if solver == PDHG and eff is None and not accel:
                    _, L = _combined(P)
                    inject = (L.range.zero(), x.copy())
                    diag = _pdhg_lyapunov(P, st)
                if solver == PG and st['gamma'] * P.lip_h <= 1.0 and st['lam'] == 1.0:
                    diag = _pg_objective(P)
                if accel:
                    # the accelerated scheme converges like O(1/N): a shorter horizon and 100x
                    # looser tolerances (|x-x*| <= 1e-3 (1+|x*|), residual <= 1e-4 scale)
                    w = Watch(P, loose=100.0, early=0.1)
                    Krun = K_ACC
                else:
                    w = Watch(P, yobj=None if inject is None else inject[0], diag=diag)
                    Krun = K
                stopped = False
                _seed(cfg)
                try:
                    _call_ns(solver, P, st, x, Krun, w, inject)
                except _Stop:
                    stopped = True
                except _Diverged:
                    _first(first, ('live', site), (
                        'no_convergence_within_horizon',
                        '%s x0=%s: iterate %d is not finite: %s (x*=%s)' % (
                            info, x0.tolist(), w.k, w.last.tolist(), P.xs.tolist())))
                    evals += 1
                    continue
                evals += 1
                if diag is not None:
                    diag_runs += 1
                    diag_nonmono += w.nonmono
                if not stopped:
                    z = S.to_flat(x)
                    if w.last is None or not np.array_equal(z, w.last, equal_nan=True):
                        _first(first, ('last', site), (
                            'result_is_not_last_iterate',
                            '%s x0=%s: x after the call %s, last callback iterate %s' % (
                                info, x0.tolist(), z.tolist(),
                                None if w.last is None else w.last.tolist())))
                    w.measure(z)
                    if not w.ok():
                        _first(first, ('live', site), (
                            'no_convergence_within_horizon',
                            '%s x0=%s: after K=%d iterations x=%s, x*=%s%s, |x-x*|=%.3e '
                            '(tolerance %.1e), KKT residual %.3e (tolerance %.1e)' % (
                                info, x0.tolist(), Krun, z.tolist(), P.xs.tolist(),
                                '' if P.unique else ' (one of many solutions, not judged)',
                                w.dist, w.loose * 1e-5 * (1 + w.nx), w.res,
                                w.loose * 1e-6 * w.scale)))
                if not accel:
                    iters.append(w.k)
                else:
                    acc_iters.append(w.k)
                sigs.add('%s:%s:%s' % (solver, 'conv' if (stopped or w.ok()) else 'noconv',
                                       int(np.log2(max(w.k, 1)))))
        except _Stop:
            raise
        except Exception as e:
            _first(first, ('exc', site), ('raises:' + type(e).__name__, '%s: %r' % (info, e)))
    viol = [{'site': k[1], 'symptom': v[0], 'detail': v[1]} for k, v in first.items()]
    return {'evals': evals, 'viol': viol, 'sig': sorted(sigs), 'skipped': skipped,
            'trivial': evals == 0,
            'diag': [diag_runs, diag_nonmono], 'iters': [max(iters)] if iters else [],
            'nfp': nfp, 'acc_iters': [max(acc_iters)] if acc_iters else []}


# ----------------------------------------------------------------------------------------------
# configuration space

def _canonical(shape, t):
    """Symmetry reduction for the rectangular pool: permuting the equations and flipping the sign
    of an unknown map a run of cgn / landweber onto a run with permuted right-hand side / negated
    unknown (the alphabets V^m are closed under both), so one representative per orbit (the
    lexicographically smallest) is kept."""
    A = np.array(t).reshape(shape)
    best = None
    for perm in itertools.permutations(range(shape[0])):
        for signs in itertools.product([1, -1], repeat=shape[1]):
            B = A[list(perm), :] * np.array(signs)[None, :]
            key = tuple(B.ravel().tolist())
            if best is None or key < best:
                best = key
    return tuple(t) == best


_POOLS = {}


def _pool(shape, alph):
    key = (tuple(shape), tuple(alph))
    if key not in _POOLS:
        _POOLS[key] = [t for t in rect_pool(shape, alph) if _canonical(shape, t)]
    return _POOLS[key]


K_LIVE = 4000
EST_OK = 0.975       # quality of Operator.norm(estimate=True) needed to judge a default rule
K_ACC = 1500          # horizon of the accelerated pdhg runs (looser tolerances)
COMBOS = [(0, 'plain'), (1, 'plain'), (0, 'w2'), (0, 'wa'), (1, 'wa'), (1, 'w2')]


def configs(tier):
    thorough = tier == 'thorough'
    cfgs = []
    spd = {2: spd_pool(2), 3: spd_pool(3)}
    # ---- (a) conjugate gradient: all SPD matrices
    for n in (2, 3):
        for i, t in enumerate(spd[n]):
            for ci, (ill, wk) in enumerate(COMBOS):
                if not thorough and ci > 0 and not (n == 2 or i % 12 == ci):
                    continue
                cfgs.append({'kind': 'cg', 'n': n, 'mat': t, 'ill': ill, 'w': wk})
    # ---- (a) cgn / landweber / kaczmarz: full-rank rectangular matrices
    small = [-1, 0, 1]
    for shape in ([2, 2], [3, 2], [2, 3], [3, 3]):
        full = _pool(shape, MV) if shape != [3, 3] else _pool(shape, small)
        red = _pool(shape, small)
        if shape == [3, 3]:
            red = red[::8]
            if not thorough:
                full = red
        for ci, (ill, wk) in enumerate(COMBOS):
            if ci == 0:
                pool = full if (thorough or shape == [2, 2]) else red
            else:
                pool = red if thorough else red[ci::5]
            for t in pool:
                base = {'shape': shape, 'mat': t, 'ill': ill, 'w': wk}
                cfgs.append(dict(base, kind='cgn'))
                cfgs.append(dict(base, kind='landweber'))
                if t in red[:12 if thorough else 4]:
                    # operators of small / large norm (default step rule)
                    for asc in (0.25, 0.0625, 4.0):
                        cfgs.append(dict(base, kind='landweber', ascale=asc))
                if not thorough and ci > 0:
                    cfgs.append(dict(base, kind='kaczmarz', blocks='rows', order='given'))
                    continue
                for order in ('given', 'reversed'):
                    cfgs.append(dict(base, kind='kaczmarz', blocks='rows', order=order))
                    if shape[0] == 3:
                        cfgs.append(dict(base, kind='kaczmarz', blocks='pair', order=order))
    # ---- (a) smooth solvers with backtracking line search
    objs = [{'obj': 'rosenbrock', 'n': 2, 'scale': 1.0},
            {'obj': 'rosenbrock', 'n': 2, 'scale': 100.0},
            {'obj': 'quadform', 'n': 2, 'mat': [2, 1, 2], 'ill': 0, 'w': 'plain'},
            {'obj': 'quadform', 'n': 2, 'mat': [2, 1, 2], 'ill': 1, 'w': 'wa'},
            {'obj': 'lsq', 'shape': [3, 2], 'mat': [1, 0, 1, 1, 0, 2], 'ill': 0, 'w': 'plain'},
            {'obj': 'lsq', 'shape': [3, 2], 'mat': [1, 0, 1, 1, 0, 2], 'ill': 0, 'w': 'w2'}]
    if thorough:
        objs += [{'obj': 'rosenbrock', 'n': 3, 'scale': 10.0},
                 {'obj': 'quadform', 'n': 3, 'mat': [2, 1, 1, 2, 1, 2], 'ill': 0, 'w': 'w2'},
                 {'obj': 'quadform', 'n': 3, 'mat': [2, -1, 0, 2, 1, 2], 'ill': 1, 'w': 'plain'},
                 {'obj': 'lsq', 'shape': [3, 2], 'mat': [1, 0, 1, 1, 0, 2], 'ill': 1,
                  'w': 'plain'},
                 {'obj': 'lsq', 'shape': [2, 2], 'mat': [2, 1, -1, 1], 'ill': 0, 'w': 'plain'}]
    for o in objs:
        cfgs.append(dict(o, kind='linesearch'))
        for sv in SMOOTH:
            cfgs.append(dict(o, kind='smooth', solver=sv, horizon='short'))
        if thorough or o['obj'] != 'lsq':
            cfgs.append(dict(o, kind='smooth', solver='steepest_descent', horizon='long'))
        if o['obj'] != 'rosenbrock':
            cfgs.append(dict(o, kind='smooth', solver='steepest_descent', horizon='short',
                             ls='fixed'))
    # ---- (c) power method
    sym2 = [list(t) for t in itertools.product(MV, repeat=3) if any(t)]
    for wk in ('plain', 'w2', 'wa'):
        for n in (2, 3):
            for i, t in enumerate(spd[n]):
                if not thorough and n == 3 and i % 8:
                    continue
                for ill in (0, 1):
                    for arm in ('selfadjoint', 'normal'):
                        cfgs.append({'kind': 'power', 'pool': 'spd', 'shape': [n, n], 'mat': t,
                                     'ill': ill, 'w': wk, 'arm': arm, 'deep': int(thorough)})
        for t in sym2:                  # symmetric, possibly indefinite / singular
            cfgs.append({'kind': 'power', 'pool': 'sym', 'shape': [2, 2], 'mat': t, 'ill': 0,
                         'w': wk, 'arm': 'selfadjoint', 'deep': int(thorough)})
        for shape in ([2, 2], [3, 2], [2, 3]):
            pool = _pool(shape, MV) if thorough else _pool(shape, small)
            for t in pool:
                for ill in (0, 1):
                    cfgs.append({'kind': 'power', 'pool': 'rect', 'shape': shape, 'mat': t,
                                 'ill': ill, 'w': wk, 'arm': 'normal', 'deep': int(thorough)})
    for c in RULE_NORMS:
        cfgs.append({'kind': 'steprule', 'struct': 'single', 'norms': [c]})
    for nb in RULE_BLOCKS:
        for stt in ('broadcast', 'reduction', 'diagonal'):
            cfgs.append({'kind': 'steprule', 'struct': stt, 'norms': nb})
    # ---- histories of one operator object: earlier uses x default step rules afterwards
    for shape in ([2, 2], [3, 2], [2, 3], [3, 3]):
        red = _pool(shape, small)
        if shape == [3, 3]:
            red = red[::8]
        for ci, (ill, wk) in enumerate(COMBOS):
            pool = red if thorough else (red[::2] if ci == 0 else red[ci::5])
            for t in pool:
                base = {'kind': 'history', 'arm': 'normal', 'shape': shape, 'mat': t, 'ill': ill,
                        'w': wk}
                cfgs.append(base)
                if t in red[:2]:
                    for asc in (0.0625, 4.0):       # operators of small / large norm
                        cfgs.append(dict(base, ascale=asc))
    for wk in ('plain', 'wa', 'w2'):
        for n in (2, 3):
            for i, t in enumerate(spd[n]):
                if n == 3 and (i % 8 if thorough else i % 24):
                    continue
                for ill in (0, 1):
                    cfgs.append({'kind': 'history', 'arm': 'selfadjoint', 'shape': [n, n],
                                 'mat': t, 'ill': ill, 'w': wk})
    for spn in ('rn3', 'rn3w2', 'rn3wa', 'ud3', 'rn2'):
        cfgs.append({'kind': 'power_ref', 'space': spn, 'op': 'MultiplyOperator'})
        if spn in XSPACES and XSPACES[spn][0] == 'rn':
            cfgs.append({'kind': 'power_ref', 'space': spn, 'op': 'OperatorComp'})
    # ---- (b) non-smooth solvers (per family simplest first; the families are then interleaved
    # round-robin so that the expensive members are spread over the work shards)
    per_fam = []
    for fam, F in FAMS.items():
        lst = []
        per_fam.append(lst)
        if F.get('thorough_only') and not thorough:
            continue
        for xi, X in enumerate(F['X']):
            if not thorough and xi > 0 and fam not in ('fused',):
                continue
            n = S.flat_size(_xspace(X))
            pts = list(itertools.product(F['xv'], repeat=n))
            if not thorough:
                # quick: the palindromic patterns (3 for n=2, 9 for n=3,4)
                pts = [t for t in pts if t == t[::-1]]
                if F.get('zero_dual_only'):
                    pts = pts[:4]
            elif n == 4 and fam != 'rof1d':
                pts = [t for t in pts if t[3] == t[0]]       # 27 of 81 (all 81 for rof1d)
            if F.get('zero_dual_only'):
                pats = [('z', 0)]
            elif thorough:
                pats = [(0, 0), (1, 0), ('z', 0), (0, 1)]
            else:
                pats = [(0, 0), ('z', 0), (0, 1)]
            for pat, deg in pats:
                for xs in pts:
                    for sv in F['solvers']:
                        c = {'kind': 'ns', 'fam': fam, 'X': X, 'xs': list(xs), 'pat': pat,
                             'solver': sv, 'tier': tier, 'K': K_LIVE}
                        if deg:
                            c['deg'] = 1
                        lst.append(c)
    # the same solvers run with DEFAULT steps on operator objects with a past (coarse norm
    # estimate requested earlier): one x* per family and space, every start of the coarse request
    for fam, F in FAMS.items():
        lst = []
        per_fam.append(lst)
        if F.get('thorough_only') and not thorough:
            continue
        for xi, X in enumerate(F['X']):
            if not thorough and xi > 0 and fam not in ('fused',):
                continue
            n = S.flat_size(_xspace(X))
            pts = [t for t in itertools.product(F['xv'], repeat=n) if t == t[::-1]]
            xs = pts[min(5, len(pts) - 1)]
            for sv in F['solvers']:
                if sv not in (PDHG, DR):
                    continue
                for pre in ('weak', 'e0', 'elast'):
                    lst.append({'kind': 'ns', 'fam': fam, 'X': X, 'xs': list(xs),
                                'pat': 'z' if F.get('zero_dual_only') else 0, 'solver': sv,
                                'tier': tier, 'K': K_LIVE, 'pre': pre})
    for grp in itertools.zip_longest(*per_fam):
        cfgs.extend(c for c in grp if c is not None)
    if thorough:
        # breadth first: what the quick tier visits comes first, the deepest variants (second
        # residual pattern, degenerate sub-gradients, non-palindromic x*, sub-pools under extra
        # weightings) last, so that a run cut by the time budget loses only those
        def norm(c):
            return repr(sorted((k, v) for k, v in c.items() if k not in ('tier', 'deep', 'K')))
        shallow = set(norm(c) for c in configs('quick'))

        def depth(c):
            if norm(c) in shallow:
                return 0
            d = 1
            if c['kind'] == 'ns':
                d += (c['pat'] == 1) + bool(c.get('deg')) + (tuple(c['xs']) != tuple(c['xs'][::-1]))
            elif c.get('ill') or c.get('w') not in (None, 'plain'):
                d += 1
            return d
        cfgs.sort(key=depth)            # stable: simplest-first order kept inside a level
    return cfgs


_RUN = {'history': run_history, 'steprule': run_steprule, 'power_ref': run_power_ref, 'cg': run_cg, 'cgn': run_cgn, 'landweber': run_landweber, 'kaczmarz': run_kaczmarz,
        'smooth': run_smooth, 'linesearch': run_linesearch, 'power': run_power, 'ns': run_ns}


def run(cfg):
    return _RUN[cfg['kind']](cfg)


def trace_functions():
    from odl.solvers.iterative import iterative as IT
    from odl.solvers.nonsmooth import (primal_dual_hybrid_gradient as PD, douglas_rachford as DRM,
                                       forward_backward as FB, proximal_gradient_solvers as PGS,
                                       admm as AD)
    from odl.solvers.smooth import gradient as GR
    from odl.solvers.util import steplen as SL
    from odl.operator import oputils as OU
    return [IT.landweber, IT.conjugate_gradient, IT.conjugate_gradient_normal, IT.kaczmarz,
            PD.pdhg, PD.pdhg_stepsize, DRM.douglas_rachford_pd, DRM.douglas_rachford_pd_stepsize,
            FB.forward_backward_pd, PGS.proximal_gradient, PGS.accelerated_proximal_gradient,
            AD.admm_linearized, GR.steepest_descent, SL.BacktrackingLineSearch.__call__,
            OU.power_method_opnorm, odl.Operator.norm]


def summarize(results):
    diag_runs = diag_non = 0
    worst = {}
    worst_acc = {}
    inadm = 0
    fp = {}
    stale = hist = 0
    for cfg, res in results:
        if cfg.get('kind') == 'history':
            hist += 1
            stale += res.get('stale') or 0
        if cfg.get('kind') != 'ns':
            continue
        d = res.get('diag') or [0, 0]
        diag_runs += d[0]
        diag_non += d[1]
        for k in res.get('iters') or []:
            key = '%s/%s' % (cfg['solver'], cfg['fam'])
            worst[key] = max(worst.get(key, 0), k)
        for k in res.get('acc_iters') or []:
            key = '%s/%s' % (cfg['solver'], cfg['fam'])
            worst_acc[key] = max(worst_acc.get(key, 0), k)
        inadm += sum(1 for s in res['sig'] if 'default-inadmissible' in s)
        fp[cfg['solver']] = fp.get(cfg['solver'], 0) + (res.get('nfp') or 0)
    return {'diagnostic_lyapunov_runs': diag_runs,
            'diagnostic_nonmonotone': diag_non,
            'default_step_rule_inadmissible_states': inadm,
            'operator_history_states': hist,
            'diagnostic_norm_request_answered_with_earlier_value': stale,
            'fixed_point_step_settings_checked': dict(sorted(fp.items())),
            'max_iterations_to_converge': dict(sorted(worst.items())),
            'max_iterations_accelerated_pdhg': dict(sorted(worst_acc.items())),
            'liveness_horizon': K_LIVE, 'liveness_horizon_accelerated': K_ACC}


def meta(tier):
    thorough = tier == 'thorough'
    return {
        'rule': 'one state = (solver, problem recipe); inside a state every right-hand side of '
                'V^m x start {0, pattern} x admissible step size of the grid is executed and '
                'every callback iterate is compared with the invariant computed by the NumPy '
                'reference (energy-norm error, residual, distance, objective, KKT residual of '
                'mc/ref/optim_ref.py).  "For all problems" is discharged by small scope: ALL '
                'symmetric positive definite matrices over {-1,0,1,2} (n=2,3), all full-rank '
                'rectangular matrices over the alphabet modulo permutation of equations / sign of '
                'unknowns, all x* in V^n x residual / sub-gradient patterns for the non-smooth '
                'pool (built backwards from a KKT pair that the reference sub-differentials '
                're-certify in every state).  distinct = distinct (solver, outcome class, '
                'iteration-count class, executed-line signature of the anchored solver functions).',
        'bounds': {
            'matrix_alphabet': MV, 'rhs_alphabet': [RV, RV3],
            'x_star_alphabets': {'general': XV, 'kullback_leibler': XVP, 'nonnegativity': XVN},
            'x_star_patterns': 'all of V^n (n<=3), V^4 for rof1d, 27 of V^4 otherwise'
                               if thorough else 'palindromic members of V^n (3 / 9 per family)',
            'spd': 'all 10 (n=2) + 96 (n=3), x {well, ill (D S D, D_00=2^-3)} x '
                   '{unweighted, const 2, array weights}' + ('' if thorough else
                                                             ' (n=3: 1 combination in 12 beyond '
                                                             'the unweighted well-conditioned one)'),
            'rect': ('canonical full rank 2x2 (8), 3x2 (44), 2x3 (68) over {-1,0,1,2}, 33 of the '
                     '3x3 over {-1,0,1}' if thorough else
                     'canonical full rank 2x2 over {-1,0,1,2}, 3x2 2x3 over {-1,0,1}, 33 3x3') +
                    '; ill = first row * 2^-6; other weightings on the {-1,0,1} sub-pool',
            'scaled_instances': 'cg / cgn / landweber: rhs * 2^-17 and * 2^-30 with zero start, warm '
                                'starts x* + 2^-20 e_k (tolerances relative to the instance)',
            'power_method_self_reference': 'MultiplyOperator(w) and M * MultiplyOperator(w), w in '
                                           '{-1/2, 1/4, 2}^n, started at the element w itself; '
                                           'xstart must be bit-identical afterwards',
            'infimal_convolution_families': 'env_tv / env_two / env_h: l_i = 1/2||.||^2 passed as '
                                            '`l` to forward_backward_pd (sigma in {0.5, 1.25}, tau '
                                            'shrunk until the step condition holds under every '
                                            'reading of the docstring) and douglas_rachford_pd',
            'proximal_gradient_lam': [1.0, 0.5, 1.25, 'k -> 1/2 + 1/(2(k+1))',
                                      'k -> 1/(k+1) (fixed point only)'],
            'line_search_lattice': 'BacktrackingLineSearch options x all smooth solvers, fresh '
                                   'object per call and ONE object reused across starts '
                                   '(estimate_step=True); ConstantLineSearch / float / '
                                   'LineSearchFromIterNum with steps in (0, 2/Lip) for '
                                   'steepest_descent on the quadratic objectives',
            'default_step_rules': 'pdhg_stepsize / douglas_rachford_pd_stepsize judged directly: single '
                                  'operators of norm {1/4,1/2,1,2,8}, Broadcast / Reduction / '
                                  'Diagonal operators of 2-4 blocks (equal, similar, very '
                                  'different norms), every given / not given combination of tau, '
                                  'sigma, operators and floats; landweber default omega observed '
                                  'from the first step on operators scaled by {1/4, 1/16, 4}; a '
                                  'verdict needs Operator.norm(estimate=True) >= 0.975 ||L|| '
                                  '(otherwise counted as unspecified)',
            'operator_histories': 'per matrix operator (rect pool over {-1,0,1}, SPD pool as '
                                  'self-adjoint operator; ill / weighted / scaled by 1/16, 4): past '
                                  'in {none, evaluated (+ adjoint.norm), solver before, '
                                  'op.norm(estimate=True, xstart in basis + {-1,1/2,2}^n + weakly '
                                  'aligned (v_min + 2^-10 v_max; element and list), maxiter in '
                                  '{shortest, 2 x shortest}; maxiter=20 with rtol=1/2; noise start)} '
                                  'x then {landweber default omega, pdhg_stepsize (none / tau / '
                                  'sigma given), douglas_rachford_pd_stepsize ([op], [op, op], tau / '
                                  'sigma given)} on the same object; non-smooth pool: one x* per '
                                  'family and space, coarse request from {weak, e_0, e_last} on '
                                  'every L_i and the assembled BroadcastOperator, then pdhg / '
                                  'douglas_rachford_pd with default / tau-only / sigma-only steps',
            'cg_iterations': 'n + 2', 'cgn_iterations': 'n + 2', 'landweber_iterations': 8,
            'kaczmarz_sweeps': 3,
            'landweber_omega*|A|^2': LW_OMEGA + ['default'],
            'kaczmarz_omega_i*|A_i|^2': KZ_OMEGA,
            'line_search_options': LS_OPTS,
            'smooth_horizons': {'short': 25, 'long': 1500},
            'nonsmooth_families': sorted(FAMS),
            'step_grids': 'pdhg/admm: tau*sigma|L|^2 in {0.9, 0.5, 0.99} x ratio {1, 4, 1/4}; '
                          'DR: tau*sum(sigma_i|L_i|^2) in {2, 3.6, 1} with lam {1, 1.5, 0.5}; '
                          'FBPD: the documented inequality evaluated explicitly; PG gamma*Lip in '
                          '{1, 1.9, 0.5} (lam 1) and (1, lam 0.5); APG gamma*Lip in {1, 0.5}; '
                          'default / tau-only / sigma-only rules of pdhg and DR; accelerated '
                          'pdhg with gamma_primal / gamma_dual in {1, 1/2} x modulus'
                          + ('' if thorough else ' (quick: first setting of each + default)'),
            'liveness_horizon_K': K_LIVE,
            'liveness_tolerances': '|x_K-x*| <= 1e-5 (1+|x*|) (unique solutions), KKT residual <= '
                                   '1e-6 (1+|x*|+|y*|)',
            'fixed_point_tolerance': '1e-10 (1+|x*|) after 1 and 3 iterations',
            'power_method_maxiter': [1, 2, 3, 4, 5, 8, 13, 20, 6, 10, 14] if thorough
            else [1, 2, 5, 20, 4, 10],
            'power_method_starts': 'basis vectors, {-1, 1/2, 2}^n, seeded default noise',
            'tier': tier},
        'assumptions': [
            'convergence is a limit statement: only the horizon K=%d is decided (every solver '
            'that is not reported needs < K/3 iterations on every pool member); a run is left '
            'early once the iterate is 1000x inside the tolerances' % K_LIVE,
            'pool problems are built backwards from (x*, y*); the KKT inclusion of that pair is '
            're-verified by the reference sub-differentials in every state (assert), so x* is a '
            'certified solution, not a stored answer of the library; the KKT residual of an '
            'iterate x is the natural residual of  y* in dg(Lx), -L*y* - grad h(x) in df(x)',
            'ill-conditioned / degenerate members (boundary sub-gradients, zero multipliers of '
            'active bounds) assert the fixed point only, not bounded liveness',
            'operators whose .adjoint is not the exact adjoint in the weighted inner products '
            '(odl.MatrixOperator between differently weighted spaces: C05) are replaced by a '
            'harness operator with the exact adjoint; states with an inexact adjoint are skipped',
            'fixed point (i) for douglas_rachford_pd / forward_backward_pd / admm_linearized only '
            'where the dual solution is 0 (and L x* = 0 for DR / ADMM): their dual start is '
            'hard-wired to 0 and cannot be passed',
            'default step rules use the power method from a random start; numpy.random is seeded '
            'from the configuration; if the resulting steps violate the documented condition '
            '(estimate below the true norm) the run is counted, not judged',
            'operator histories: Operator.norm documents "kwargs: If estimate is True, pass these '
            'arguments to the power_method_opnorm call", so a coarse request (few iterations, own '
            'start) is a legitimate earlier use; the default steps taken afterwards are judged '
            'against the true norm like everywhere else; the quality gate of the estimate (>= '
            '0.975 ||L||) is evaluated on an operator object WITHOUT a past (power_method_opnorm '
            'directly, same seeded noise).  Whether a later norm request with other arguments is '
            'answered with the earlier value is counted '
            '(coverage.diagnostic_norm_request_answered_with_earlier_value), not judged.  '
            'Operator.norm: the branch that returns a stored estimate is dead code in the pinned '
            'tree (the attribute is stored name-mangled and looked up unmangled) - its line is '
            'listed as unreached',
            'accelerated_proximal_gradient is run with gamma <= 1/Lip only (its docstring names '
            '0 < gamma < 2/Lip as necessary, FISTA theory needs gamma <= 1/Lip)',
            'exceptions of newton / bfgs / broyden / nonlinear CG (not named by the property) and '
            'the documented ValueError of the line search (max_num_iter) are counted as '
            'unspecified; their objective values along the iterates are judged',
            'power method: a start vector in the kernel (ValueError "reached x=0") yields no '
            'estimate and is counted as unspecified',
            'accelerated pdhg (gamma_primal = {1, 1/2} x strong-convexity modulus of f, gamma_dual '
            '= {1, 1/2} x modulus of g^*, wherever the modulus is positive): the fixed point '
            '(1, 3, 10 iterations from the certified KKT pair) is judged on every such member; '
            'bounded liveness (K=%d, |x_K-x*| <= 1e-3 (1+|x*|), residual <= 1e-4 scale) only '
            'where f AND g^* are strongly convex - elsewhere the scheme is O(1/N) and no horizon '
            'with a margin exists' % K_ACC,
            'kaczmarz random=True: numpy.random seeded from the configuration; the invariant '
            'holds for every order of the operators',
            'the thorough configurations are ordered breadth first (the quick set, then deeper '
            'variants), so a run cut by the time budget (reported under caps_hit, exhaustive '
            'false) loses only the deepest variants',
            'unreached anchor lines: argument validation raises, DR without operators, callable '
            'lam of DR, projection= of landweber/kaczmarz/steepest_descent, '
            'maxiter=None / callback of the power method, NaN / non-finite guards of the line '
            'search',
            'Lyapunov / Fejer monotonicity (pdhg metric, proximal-gradient objective) is a '
            'diagnostic: counted in coverage.diagnostic_nonmonotone, never a violation'],
    }
