"""C05 - every exposed adjoint satisfies <Ax, y> = <x, A*y> in the spaces' own inner products.

K-part: every linear registry instance that returns an adjoint (class x option set: weightings,
complex dtypes, axes, shapes, padding modes, field-valued domains/ranges), closed under
``.adjoint`` (depth 2).  P-part: all linear expression trees (BFS, depth 2; depth 3 thorough on a
sub-pool) over sum, composition, scalar and vector multiples (complex scalars/vectors on cn),
``.adjoint``, and block operators.

Decision for ALL x, y: the identity is sesquilinear, so it is decided on the full real basis
(e_k, and i e_k on complex spaces) of domain and range - every pair - through the spaces' own
``inner`` (validated by C02): l = <A x, y>_ran, r = <x, A* y>_dom; l == r (real parts only when
one of the two spaces is real, as the property states).
"""
import itertools

import numpy as np
import odl

from mc import spaces as S
from mc.registry import operators as OR

PROPERTY = 'C05'
BUDGET = {'quick': 1500, 'thorough': 5400}
MAXDIM = 48


def configs(tier):
    thorough = tier == 'thorough'
    cfgs = []
    for spec in OR.SPECS:
        if spec.name.startswith(('functional', 'proximal', 'ufunc_functional')) and \
                not spec.name.startswith('functional-derived'):
            pass
        for i in range(len(spec.opts)):
            cfgs.append({'kind': 'inst', 'spec': spec.name, 'i': i})
    for space in ('rn3', 'cn2', 'rn3wa', 'ud3', 'cn2w2'):
        n1 = _expr_count(space, 1)
        for j in range(n1):
            cfgs.append({'kind': 'expr', 'space': space, 'depth': 1, 'j': j})
    for space in (('rn3', 'cn2') if not thorough else ('rn3', 'cn2', 'rn3wa', 'ud3', 'cn2w2')):
        n1 = _expr_count(space, 1)
        for j in range(n1):
            cfgs.append({'kind': 'expr2', 'space': space, 'j': j, 'deep': thorough})
    for j in range(len(_BLOCKS)):
        for space in ('rn2', 'cn2', 'ud2', 'rn2wa'):
            cfgs.append({'kind': 'block', 'space': space, 'j': j})
    return cfgs


# ------------------------------------------------------------------------------------------
# expression pool

LEAVES = ['I', 'S2', 'M', 'A', 'Z']


def _leaves(space):
    sp = OR._sp(space)
    out = []
    for n in LEAVES:
        if n == 'A' and S.is_complex(sp):
            n = 'Ac'
        if n in ('A', 'Ac') and not _uniform(sp):
            # MatrixOperator between non-uniformly weighted spaces is covered by its own spec
            continue
        out.append((n, OR._leaf(n, sp)))
    return sp, out


def _uniform(sp):
    try:
        w = S.weights(sp)
        return bool(np.all(w == w[0]))
    except Exception:
        return False


def _scalars(sp):
    return [2.0, -0.5] + ([1j, 1.0 - 2.0j, 2.0 + 2.0 ** -30 * 1j] if S.is_complex(sp) else [])


def _unary(sp):
    v = OR.el(sp, 2)
    ops = []
    for a in _scalars(sp):
        ops.append(('%s*X' % a, (lambda a: (lambda X: a * X))(a)))
        ops.append(('X*%s' % a, (lambda a: (lambda X: X * a))(a)))
    ops.append(('v*X', lambda X: v * X))
    ops.append(('X*v', lambda X: X * v))
    ops.append(('-X', lambda X: -X))
    ops.append(('X.adjoint', lambda X: X.adjoint))
    ops.append(('X/2', lambda X: X / 2.0))
    return ops


def _binary():
    return [('X+Y', lambda X, Y: X + Y), ('X-Y', lambda X, Y: X - Y), ('X*Y', lambda X, Y: X * Y)]


def _depth1(space):
    sp, leaves = _leaves(space)
    out = []
    for (n, X) in leaves:
        out.append((n, (lambda X: (lambda: X))(X)))
    for (un, u) in _unary(sp):
        for (n, X) in leaves:
            out.append(('(%s)[X=%s]' % (un, n), (lambda u, X: (lambda: u(X)))(u, X)))
    for (bn, b) in _binary():
        for (n, X), (m, Y) in itertools.product(leaves, repeat=2):
            out.append(('(%s)[X=%s,Y=%s]' % (bn, n, m),
                        (lambda b, X, Y: (lambda: b(X, Y)))(b, X, Y)))
    return sp, out


_D1 = {}


def _d1(space):
    if space not in _D1:
        _D1[space] = _depth1(space)
    return _D1[space]


def _expr_count(space, depth):
    return len(_d1(space)[1])


_BLOCKS = [
    ('ProductSpaceOperator[[X,None],[Y,X]]', lambda X, Y: odl.ProductSpaceOperator([[X, None], [Y, X]])),
    ('ProductSpaceOperator[[X,Y,None]]', lambda X, Y: odl.ProductSpaceOperator([[X, Y, None]])),
    ('ProductSpaceOperator[[None,X],[Y,None],[X,Y]]',
     lambda X, Y: odl.ProductSpaceOperator([[None, X], [Y, None], [X, Y]])),
    ('BroadcastOperator(X,Y)', lambda X, Y: odl.BroadcastOperator(X, Y)),
    ('ReductionOperator(X,Y)', lambda X, Y: odl.ReductionOperator(X, Y)),
    ('DiagonalOperator(X,Y)', lambda X, Y: odl.DiagonalOperator(X, Y)),
    ('DiagonalOperator(X,3)', lambda X, Y: odl.DiagonalOperator(X, 3)),
    ('BroadcastOperator(X,Y)*Z', lambda X, Y: odl.BroadcastOperator(X, Y) * Y),
    ('ReductionOperator(X,Y)*Broadcast(Y,X)',
     lambda X, Y: odl.ReductionOperator(X, Y) * odl.BroadcastOperator(Y, X)),
    ('nested Diagonal(Broadcast(X,Y),X)',
     lambda X, Y: odl.DiagonalOperator(odl.BroadcastOperator(X, Y), X)),
    ('ComponentProjection(X^3,[0,2])*Broadcast(X,Y,X)',
     lambda X, Y: odl.ComponentProjection(X.range ** 3, [0, 2]) * odl.BroadcastOperator(X, Y, X)),
    ('2j-or-2 * ProductSpaceOperator', lambda X, Y: (2j if S.is_complex(X.domain) else 2.0) *
     odl.ProductSpaceOperator([[X, Y], [None, X]])),
]


# ------------------------------------------------------------------------------------------

def _inner(space, a, b):
    if S.is_field(space):
        return complex(a * np.conj(b))
    return complex(space.inner(a, b))


def _tol(op):
    t = 1e-11
    for sp in (op.domain, op.range):
        if S.dtype_of(sp) in (np.dtype('float32'), np.dtype('complex64')):
            t = 2e-5
    return t


def check_adjoint(op, site, first, stats, depth=2, approx=False, data=()):
    """All clauses of C05 for one linear operator."""
    dom, ran = op.domain, op.range
    n, m = S.flat_size(dom), S.flat_size(ran)
    if n > MAXDIM or m > MAXDIM:
        stats['skipped'] += 1
        return
    # history: the operator as it acts BEFORE its adjoint is requested for the first time
    pre = None
    if depth == 2:
        try:
            pre = [S.to_flat(op(S.from_flat(dom, e))) for e in S.basis(dom)]
            stats['evals'] += len(pre)
        except Exception:
            pre = None
    try:
        adj = op.adjoint
    except (NotImplementedError, odl.OpNotImplementedError):
        stats['noadj'] += 1
        return
    except Exception as e:
        first.setdefault((site, 'adjoint_raises:' + type(e).__name__), repr(e)[:300])
        stats['evals'] += 1
        return
    if not isinstance(adj, odl.Operator):
        first.setdefault((site, 'adjoint_is_not_an_operator'), repr(adj)[:200])
        return
    if adj.domain != ran or adj.range != dom:
        first.setdefault((site, 'adjoint_domain_range_mismatch'),
                         'op: %r -> %r but adjoint: %r -> %r' % (dom, ran, adj.domain, adj.range))
    ex = [S.from_flat(dom, e) for e in S.basis(dom)]
    ey = [S.from_flat(ran, e) for e in S.basis(ran)]
    try:
        z = op(S.from_flat(dom, np.zeros(n, dtype=S.dtype_of(dom))))
        stats['evals'] += 1
        if np.any(S.to_flat(z) != 0):
            first.setdefault((site, 'declared_linear_but_op(0)_nonzero'),
                             'op(0) = %s' % S.to_flat(z).tolist())
            return
        Ax = [op(x) for x in ex]
    except Exception as e:
        first.setdefault((site, 'call_raises:' + type(e).__name__), repr(e)[:300])
        stats['evals'] += 1
        return
    try:
        # the adjoint is applied to elements of op.range (its documented domain)
        By = [adj(y) for y in ey]
    except Exception as e:
        first.setdefault((site, 'adjoint_call_raises:' + type(e).__name__), repr(e)[:300])
        stats['evals'] += 1
        return
    stats['evals'] += len(ex) + len(ey)
    if approx:
        stats['approx'] += 1
        return
    real_only = (not S.is_complex(dom)) or (not S.is_complex(ran))
    tol = _tol(op)
    Lm = np.zeros((len(ey), len(ex)), dtype=complex)
    Rm = np.zeros((len(ey), len(ex)), dtype=complex)
    try:
        for i, y in enumerate(ey):
            for j, x in enumerate(ex):
                Lm[i, j] = _inner(ran, Ax[j], y)
                Rm[i, j] = _inner(dom, x, By[i])
    except Exception as e:
        first.setdefault((site, 'inner_raises:' + type(e).__name__),
                         'adjoint returns %r for input in %r: %r' % (adj.range, ran, e))
        return
    stats['evals'] += Lm.size
    if real_only:
        Lm, Rm = Lm.real, Rm.real
    scale = 1.0 + max(np.abs(Lm).max(), np.abs(Rm).max())
    D = np.abs(Lm - Rm)
    if D.max() > tol * scale:
        i, j = np.unravel_index(np.argmax(D), D.shape)
        first.setdefault((site, 'adjoint_identity_fails'),
                         '<A x, y> = %r but <x, A* y> = %r for x = basis vector %d of %r, y = basis '
                         'vector %d of %r (max defect %.3g over %d pairs)'
                         % (Lm[i, j], Rm[i, j], j, dom, i, ran, D.max(), D.size))
    # the same identity for inputs that wrap Fortran-ordered arrays (same elements of the space,
    # other memory layout): <A x_F, y> against <x, A* y> and <A x, y> against <x, A* y_F>
    if (site, 'adjoint_identity_fails') not in first and (S.has_layout(dom) or S.has_layout(ran)):
        try:
            worst, where = 0.0, None
            if S.has_layout(dom):
                for j, e in enumerate(S.basis(dom)):
                    axf = op(S.from_flat_F(dom, e))
                    stats['evals'] += 1
                    for i, y in enumerate(ey):
                        v = _inner(ran, axf, y)
                        v = v.real if real_only else v
                        if abs(v - Rm[i, j]) > worst:
                            worst, where = abs(v - Rm[i, j]), ('x', j, i, v, Rm[i, j])
            if S.has_layout(ran):
                for i, e in enumerate(S.basis(ran)):
                    byf = adj(S.from_flat_F(ran, e))
                    stats['evals'] += 1
                    for j, x in enumerate(ex):
                        v = _inner(dom, x, byf)
                        v = v.real if real_only else v
                        if abs(v - Lm[i, j]) > worst:
                            worst, where = abs(v - Lm[i, j]), ('y', j, i, Lm[i, j], v)
            if worst > tol * scale:
                first.setdefault((site, 'adjoint_identity_fails_for_fortran_ordered_input'),
                                 'with %s wrapping a Fortran-ordered array: <A x, y> = %r but '
                                 '<x, A* y> = %r (x, y = basis vectors %d, %d)'
                                 % (where[0], where[3], where[4], where[1], where[2]))
        except Exception as e:
            first.setdefault((site, 'call_with_fortran_ordered_input_raises:' + type(e).__name__),
                             repr(e)[:300])
    # the same identity with the adjoint evaluated in place (what the solvers do): a fresh
    # (poisoned) out for every basis vector of the range
    if not S.is_field(dom):
        try:
            worst = 0.0
            for i, y in enumerate(ey):
                o = dom.element()
                r = adj(y, out=o)
                stats['evals'] += 1
                a, b = S.to_flat(o), S.to_flat(By[i])
                df = np.abs(a - b).max() if a.size else 0.0
                if r is not o or not (df <= tol * (1 + np.abs(b).max())):
                    first.setdefault((site, 'adjoint_identity_fails_for_inplace_call'),
                                     'A*(y, out=z) leaves %s in z but A*(y) = %s for y = basis vector '
                                     '%d of %r' % (a.tolist(), b.tolist(), i, ran))
                    break
        except Exception as e:
            first.setdefault((site, 'adjoint_inplace_call_raises:' + type(e).__name__), repr(e)[:300])
    # adjoint.adjoint acts like A
    try:
        aa = adj.adjoint
        for x, ax in zip(ex, Ax):
            v = aa(x)
            stats['evals'] += 1
            a, b = S.to_flat(v), S.to_flat(ax)
            if a.shape != b.shape or np.abs(a - b).max() > tol * (1 + np.abs(b).max()):
                first.setdefault((site, 'adjoint_adjoint_differs'),
                                 'A x = %s but A.adjoint.adjoint x = %s' % (b.tolist(), a.tolist()))
                break
    except (NotImplementedError, odl.OpNotImplementedError):
        pass
    except Exception as e:
        first.setdefault((site, 'adjoint_adjoint_raises:' + type(e).__name__), repr(e)[:300])
    # history clauses: requesting, building and using A.adjoint and A.adjoint.adjoint must not
    # change what A does, and A.adjoint requested again must act like the one requested first
    if depth == 2:
        try:
            for j, x in enumerate(ex):
                b = S.to_flat(Ax[j])
                for what, a in (('before its adjoint was first requested',
                                 pre[j] if pre is not None else b),
                                ('after its adjoint and adjoint.adjoint were built and used',
                                 S.to_flat(op(x)))):
                    if a.shape != b.shape or not np.all(np.abs(a - b) <= tol * (1 + np.abs(b).max())):
                        first.setdefault((site, 'operator_changed_by_building_or_using_its_adjoint'),
                                         'A x = %s right after A.adjoint was requested, but %s %s, '
                                         'x = basis vector %d' % (b.tolist(), a.tolist(), what, j))
                        break
                stats['evals'] += 1
            adj2 = op.adjoint
            for i, y in enumerate(ey):
                a, b = S.to_flat(adj2(y)), S.to_flat(By[i])
                stats['evals'] += 1
                if a.shape != b.shape or not np.all(np.abs(a - b) <= tol * (1 + np.abs(b).max())):
                    first.setdefault((site, 'adjoint_requested_again_differs'),
                                     'A.adjoint(y) = %s at first, %s for A.adjoint requested again '
                                     'later, y = basis vector %d' % (b.tolist(), a.tolist(), i))
                    break
        except Exception as e:
            first.setdefault((site, 'history_reevaluation_raises:' + type(e).__name__), repr(e)[:300])
        # the caller modifies, in place, a data element it handed to the constructor (multiplicand,
        # vector of a vector multiple, ...).  Whether the operator follows that or keeps a private
        # copy is its business - but A as it acts NOW and A.adjoint requested NOW must satisfy the
        # identity.  Only judged where the identity held before.
        if data and (site, 'adjoint_identity_fails') not in first:
            try:
                for g in data:
                    g *= 2
                adj3 = op.adjoint
                Ax3 = [op(x) for x in ex]
                By3 = [adj3(y) for y in ey]
                stats['evals'] += len(ex) + len(ey)
                L3 = np.array([[_inner(ran, Ax3[j], y) for j in range(len(ex))] for y in ey])
                R3 = np.array([[_inner(dom, x, By3[i]) for x in ex] for i in range(len(ey))])
                if real_only:
                    L3, R3 = L3.real, R3.real
                D3 = np.abs(L3 - R3)
                if D3.size and D3.max() > tol * (1.0 + max(np.abs(L3).max(), np.abs(R3).max())):
                    i, j = np.unravel_index(np.argmax(D3), D3.shape)
                    first.setdefault((site, 'adjoint_identity_fails_after_data_element_was_modified'),
                                     'after the %d data element(s) given to the constructor were '
                                     'doubled in place: <A x, y> = %r but <x, A* y> = %r with A.adjoint '
                                     'requested afterwards (x, y = basis vectors %d, %d); A %s the '
                                     'modification' % (len(data), L3[i, j], R3[i, j], j, i,
                                                       'follows' if np.abs(L3 - Lm).max() > tol * scale
                                                       else 'ignores'))
            except Exception as e:
                first.setdefault((site, 'history_data_modification_raises:' + type(e).__name__),
                                 repr(e)[:300])
    if depth > 1 and adj is not op:
        check_adjoint(adj, site + '.adjoint', first, stats, depth - 1, approx)


def run(cfg):
    stats = {'evals': 0, 'skipped': 0, 'noadj': 0, 'approx': 0}
    first = {}
    k = cfg['kind']
    sigs = []
    if k == 'inst':
        spec = OR.BY_NAME[cfg['spec']]
        o = spec.opts[cfg['i']]
        try:
            op, data = OR.build_recording(spec, o)
        except Exception:
            return {'evals': 0, 'skipped': 1, 'trivial': True, 'sig': 'unbuildable'}
        if not op.is_linear:
            return {'evals': 0, 'skipped': 0, 'trivial': True, 'sig': 'nonlinear'}
        from mc.props.c03 import _optstr
        site = '%s[%s]' % (spec.name, _optstr(o))
        check_adjoint(op, site, first, stats, 2, spec.approx_adjoint, data=data)
        sigs.append('%s:%s' % (type(op).__name__, 'approx' if spec.approx_adjoint else 'exact'))
    elif k == 'expr':
        sp, pool = _d1(cfg['space'])
        name, mk = pool[cfg['j']]
        _run_expr(name, mk, cfg['space'], first, stats, sigs)
    elif k == 'expr2':
        sp, pool = _d1(cfg['space'])
        name, mk = pool[cfg['j']]
        try:
            X = mk()
        except Exception:
            X = None
        if X is not None and isinstance(X, odl.Operator) and X.is_linear:
            _, leaves = _leaves(cfg['space'])
            for (un, u) in _unary(sp):
                _run_expr('(%s)[X=%s]' % (un, name), (lambda u: (lambda: u(X)))(u), cfg['space'],
                          first, stats, sigs)
            for (bn, b) in _binary():
                others = leaves if not cfg.get('deep') else \
                    [(nm, m2()) for nm, m2 in pool[:len(leaves) * 4]]
                for (m, Y) in others:
                    _run_expr('(%s)[X=%s,Y=%s]' % (bn, name, m),
                              (lambda b, Y: (lambda: b(X, Y)))(b, Y), cfg['space'], first, stats,
                              sigs)
                    _run_expr('(%s)[X=%s,Y=%s]' % (bn, m, name),
                              (lambda b, Y: (lambda: b(Y, X)))(b, Y), cfg['space'], first, stats,
                              sigs)
    elif k == 'block':
        sp, leaves = _leaves(cfg['space'])
        bname, b = _BLOCKS[cfg['j']]
        for (n, X), (m, Y) in itertools.product(leaves, repeat=2):
            _run_expr('%s[X=%s,Y=%s]' % (bname, n, m), (lambda X, Y: (lambda: b(X, Y)))(X, Y),
                      cfg['space'], first, stats, sigs)
    viol = [{'site': s, 'symptom': sym, 'detail': d} for (s, sym), d in first.items()]
    return {'evals': stats['evals'], 'viol': viol, 'skipped': stats['skipped'],
            'sig': sigs or ['none'], 'trivial': stats['evals'] == 0}


def _expr_site(name, space):
    # the site names the root combinator and the weighting class; operand names go to `detail`
    root = name.split('[')[0]
    wk = {'rn3': 'real', 'cn2': 'complex', 'rn3wa': 'real,array-weighted', 'ud3': 'discretized',
          'cn2w2': 'complex,const-weighted', 'rn2': 'real', 'ud2': 'discretized',
          'rn2wa': 'real,array-weighted'}[space]
    return 'expr:%s[%s]' % (root, wk)


def _run_expr(name, mk, space, first, stats, sigs):
    try:
        op = mk()
    except Exception:
        stats['skipped'] += 1      # ill-typed or refused construction: C04's business
        return
    if not isinstance(op, odl.Operator) or not op.is_linear:
        return
    site = _expr_site(name, space)
    sub = {}
    check_adjoint(op, site, sub, stats, 1, False)
    for (s, sym), d in sub.items():
        first.setdefault((s, sym), 'expression %s on %s: %s' % (name, space, d))
    sigs.append('%s:%s' % (type(op).__name__, 'ok' if not sub else 'bad'))


def trace_functions():
    from odl.operator import operator as M, default_ops as D, pspace_ops as P
    fs = []
    for c in (M.OperatorSum, M.OperatorComp, M.OperatorLeftScalarMult, M.OperatorRightScalarMult,
              M.OperatorLeftVectorMult, M.OperatorRightVectorMult, M.FunctionalLeftVectorMult,
              D.MultiplyOperator, D.ComplexEmbedding, D.ScalingOperator, P.ProductSpaceOperator,
              P.BroadcastOperator, P.ReductionOperator, P.DiagonalOperator, P.ComponentProjection):
        a = c.__dict__.get('adjoint')
        if a is not None:
            fs.append(a)
    return fs


def meta(tier):
    return {
        'rule': 'state = linear registry instance (class x option set, closed under .adjoint to '
                'depth 2) | linear expression tree (BFS depth 1 and 2 over 5 leaves, 11 unary and 3 '
                'binary combinators incl. complex scalars/vectors and .adjoint) | block operator over '
                'all leaf pairs. Each state is decided for ALL x, y by evaluating the identity on '
                'every pair of the real bases of domain and range. History inside a state: A '
                'before / after its adjoint and adjoint.adjoint were built and used, A.adjoint '
                'requested again, and the identity re-decided after the data elements handed to the '
                'constructor were doubled in place (A now vs A.adjoint requested now). distinct = '
                '(operator class, outcome) + executed lines of the adjoint properties',
        'bounds': {'max_dim': MAXDIM, 'expression_depth': 2 if tier == 'quick' else 3,
                   'spaces': ['rn3', 'cn2', 'rn3wa', 'ud3', 'cn2w2']},
        'assumptions': ['the inner products themselves are validated by C02',
                        'operators whose docstrings declare the adjoint approximate (Resampling, '
                        'RayTransform, LinDeform*) are executed but not judged',
                        'tolerance 1e-11 relative (2e-5 single precision)'],
    }
