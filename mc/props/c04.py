"""C04 - operator arithmetic means what the algebra table says, for arbitrary expressions.

Exploration: *program space*.  A state is one child expression (a leaf, or an expression of
size n-1); its transitions are ALL well-typed applications of one more combinator of the
documented grammar (``a*E, E*a, E/a, E+a, a+E, E-a, a-E, v*E, E*v, E+v, v+E, E-v, v-E, -E, +E,
E**n, E+F, E-F, E*F, E@F, a@E, E@a, v@E, E@v, OperatorPointwiseProduct(E, F)``) with every
scalar / vector / leaf of the pool as the other operand.  Pool: 35 leaves on rn(3), rn(2),
cn(2), between them and on the field R (linear, nonlinear, Functional and plain field-valued
operators), scalars {2, -1, 1/2, 0, 1j}, two vectors per space.  On top of every child also the
*extended scalars* (magnitude regimes 2^-30, 2^30, 1 + 2^-20, 2^-30 j; NumPy scalar types
np.float64 / np.int64 / np.complex128 incl. a typed zero) in all scalar forms; a*E, E*a, E/a
with 2^-30 and 2^30 are children themselves, so a tiny factor is undone / merged by the
enclosing application.  Two leaves hand back their argument out-of-place (`RealPart` on a real
space: ``x`` itself; `SharedView`, harness-defined: a new element on the memory of ``x``).  Quick: every expression of
size <= 2 over the full pool; thorough: also every expression of size 3 over a reduced pool.  Typing is decided by the reference type system
(`mc/ref/opalgebra.py`) from domain / range / field as the docstrings of the overloads state
it; nothing is sampled.

Oracle per expression: construction succeeds; ``.domain``/``.range`` are the typed ones;
``is_linear`` is sound (True => the documented function is additive/homogeneous on the point
set) and complete on the linear fragment (all leaves linear and only linearity-preserving
combinators => True); the value at the four points x1, x2, x1+x2, 0 equals the reference
interpreter (the table of the property statement applied recursively to NumPy closures),
out-of-place and - when the range is a linear space - in-place into a NaN-filled ``out``,
and (domain == range, all leaves alias-safe, first two points) in-place with ``out`` aliased
to the input; the evaluation point and the vector operands are left untouched.  One leaf
(`SeqDiff`, harness-defined) is correct for distinct x/out but not alias-safe, so a combinator
that hands an operand aliased buffers although the caller did not is visible; the expression
classes are also built directly with the documented user temporaries (tmp, tmp_ran, tmp_dom).

Products B * F, B @ F, F * B of an operator B defined on the field with a functional F, both
of size <= 1 (so that type(F) can be a proper subclass of type(B) and Python tries the
reflected F.__rmul__(B) first), form a family of states of their own; every state also probes
the boundary exponents of ``A ** n`` (n = 0: refusal or identity; negative / non-integer:
refusal).

History clause (an expression is a value whose action is fixed when it is built): for every
form that takes an element operand and copies it on the pinned tree (see `private_claimed`),
the driver-owned element is overwritten in place after the first evaluation (``v *= 2``; v used
as ``out=`` of an unrelated operator call; ``v.set_zero()``) and the expression - and its
adjoint / derivative(x) / gradient, requested before and after - must give bit-identical
results; at the end of a state the element operands inside the child are overwritten too and
every expression built on top of it is evaluated once more.  Forms that keep the operand by
reference on the pinned tree are measured and listed in the evidence, not judged.
"""
import numpy as np
import odl

from mc.ref import opalgebra as A

PROPERTY = 'C04'
BUDGET = {'quick': 1500, 'thorough': 3300}

UNSPEC = 'unspecified'      # pseudo-symptom: documentation leaves the case open
TOL_INEXACT = 1e-12         # relative to the largest magnitude met while evaluating


# ------------------------------------------------------------------------------------------
# implementation side: build with the library's own overloads

class _Env(object):
    """Spaces, lazily built leaves and fresh vector operands for one state."""

    def __init__(self):
        self.sp = {'R3': odl.rn(3), 'R2': odl.rn(2), 'C2': odl.cn(2),
                   'R': odl.RealNumbers(), 'C': odl.ComplexNumbers()}
        self.ns = dict(self.sp, odl=odl, np=np)
        exec(A.SEQDIFF_SRC, self.ns)       # the harness-defined alias-unsafe leaf class
        self.leaves = {}
        self.used = []          # (name, element, private copy claimed) vector operands
        self.last = None        # first-evaluation record of the last `check`

    def leaf(self, name):
        if name not in self.leaves:
            self.leaves[name] = eval(A.LEAVES[name]['src'], self.ns)
        return self.leaves[name]

    def vec(self, name, claimed=False):
        sp, lst = A.VECS[name]
        v = self.sp[sp].element(lst)
        self.used.append((name, v, claimed))
        return v

    def point(self, dom, p):
        if dom in A.FIELDS:
            return p
        return self.sp[dom].element(np.array(p, copy=True))     # never share memory with p


_FN = odl.solvers.functional.functional.Functional

# element-operand forms: (vector, operator) -> expression, written as a user writes them
_VFORMS = {
    'lvmul': lambda v, c: v * c, 'rvmul': lambda v, c: c * v,
    'lvmatmul': lambda v, c: v @ c, 'rvmatmul': lambda v, c: c @ v,
    'addv': lambda v, c: c + v, 'vadd': lambda v, c: v + c,
    'subv': lambda v, c: c - v, 'vsub': lambda v, c: v - c,
}
# History clause: an expression built with the arithmetic operators is a value whose action is
# fixed when it is built.  On the pinned tree the element operand is copied by
#   v * A, v @ A (OperatorLeftVectorMult / FunctionalLeftVectorMult: ``other.copy()``),
#   A * v, A @ v for a plain Operator (OperatorRightVectorMult: ``other.copy()``),
#   A - v (``self + (-1) * other`` makes a new element);
# it is KEPT BY REFERENCE (not judged, measured and listed in the evidence) by
#   A + v, v + A, v - A (OperatorVectorSum: ``operator.range.element(vector)`` returns the
#   caller's element), and f * v, f @ v for a `Functional` f (FunctionalRightVectorMult).
BYREF_ON_PINNED_TREE = ['A+v', 'v+A', 'v-A', 'A*v[Functional]', 'A@v[Functional]']


def private_claimed(opname, c):
    base = A.ALIAS.get(opname, opname)
    if base in ('lvmul', 'subv'):
        return True
    if base == 'rvmul':
        return not isinstance(c, _FN)
    return False


def build(e, env, pre=None):
    """The odl object for expression ``e``; ``pre`` maps id(subexpression) -> built object."""
    if pre is not None and id(e) in pre:
        return pre[id(e)]
    op = e[0]
    if op == 'L':
        return env.leaf(e[1])
    B = lambda x: build(x, env, pre)      # noqa: E731
    S = A.SCALARS
    if op == 'lsmul':
        return S[e[1]] * B(e[2])
    if op == 'rsmul':
        return B(e[1]) * S[e[2]]
    if op == 'div':
        return B(e[1]) / S[e[2]]
    if op == 'adds':
        return B(e[1]) + S[e[2]]
    if op == 'sadd':
        return S[e[1]] + B(e[2])
    if op == 'subs':
        return B(e[1]) - S[e[2]]
    if op == 'ssub':
        return S[e[1]] - B(e[2])
    if op in _VFORMS:
        c = B(e[2] if A.OPS[op][0] == 'V' else e[1])
        v = env.vec(e[1] if A.OPS[op][0] == 'V' else e[2], private_claimed(op, c))
        return _VFORMS[op](v, c)
    if op == 'neg':
        return -B(e[1])
    if op == 'pos':
        return +B(e[1])
    if op == 'pow':
        return B(e[1]) ** e[2]
    if op == 'add':
        return B(e[1]) + B(e[2])
    if op == 'sub':
        return B(e[1]) - B(e[2])
    if op == 'comp':
        return B(e[1]) * B(e[2])
    if op == 'matmul':
        return B(e[1]) @ B(e[2])
    if op == 'lsmatmul':
        return S[e[1]] @ B(e[2])
    if op == 'rsmatmul':
        return B(e[1]) @ S[e[2]]
    if op == 'comptmp':
        l, r = B(e[1]), B(e[2])
        return odl.OperatorComp(l, r, tmp=l.domain.element())
    if op == 'sumtmp':
        l, r = B(e[1]), B(e[2])
        return odl.OperatorSum(l, r, tmp_ran=l.range.element(), tmp_dom=l.domain.element())
    if op == 'rsmultmp':
        l = B(e[1])
        return odl.OperatorRightScalarMult(l, S[e[2]], tmp=l.domain.element())
    if op == 'pwprod':
        return odl.OperatorPointwiseProduct(B(e[1]), B(e[2]))
    raise KeyError(op)


def _flat(y, ran):
    if ran in A.FIELDS:
        return np.asarray(complex(y) if ran == 'C' else float(y))
    return np.array(y.asarray(), copy=True).ravel()


MODE = [0, 0]       # comparisons made with exact equality / with the tolerance (per state)


def _close(got, ref, tr):
    """Exact equality when no rounding can have occurred (see `opalgebra.ref_eval`), else a
    fixed tolerance relative to the largest intermediate magnitude."""
    got, ref = np.asarray(got), np.asarray(ref)
    MODE[0 if tr[1] else 1] += 1
    if got.shape != ref.shape:
        return False
    if tr[1]:
        return bool(np.array_equal(got, ref))
    if not np.all(np.isfinite(got)):
        return False
    return bool(np.all(np.abs(got - ref) <= TOL_INEXACT * max(1.0, tr[0])))


_RSM = odl.operator.operator.OperatorRightScalarMult
_LSM = odl.operator.operator.OperatorLeftScalarMult


def kind(op):
    """Operand class as the overloads see it: linearity flag, Functional / field-valued plain
    operator / operator, and the two expression classes that carry scalar shortcuts."""
    k = 'Lin' if op.is_linear else 'Non'
    if isinstance(op, _FN):
        k += 'Fn'
    elif isinstance(op.range, odl.set.sets.Field):
        k += 'FOp'
    else:
        k += 'Op'
    if isinstance(op, _RSM):
        k += ':RSM'
    elif isinstance(op, _LSM):
        k += ':LSM'
    return k


def site_of(e, env, pre):
    """`overload[operand kinds]/regime`; operands are looked up in `pre` (already built)."""
    ks = []
    for c in A.children(e):
        try:
            ks.append(kind(build(c, env, pre)))
        except Exception:
            ks.append('?')
    return '%s[%s%s]%s' % (A.overload(e), ','.join(ks), A.scalar_regime(e), A.marker(e))


def _show(a):
    a = np.asarray(a)
    return repr(a.tolist())


_PLAIN_BAD = frozenset(['value_differs', 'inplace_value_differs', 'result_not_in_range',
                        'input_modified', 'inplace_returns_other'])


def check(e, env, pre=None):
    """Execute one expression against the reference.  Returns (violations, evals, info);
    a violation is (symptom, detail)."""
    t = A.typeof(e)
    dom, ran, lin = t[0], t[1], t[2]
    viol = []
    env.used = []
    env.last = None
    try:
        op = build(e, env, pre)
    except Exception as exc:
        return ([('construct_raises:' + type(exc).__name__,
                  'expr = %s  ->  %s: %s' % (A.src(e), type(exc).__name__, str(exc)[:200]))],
                1, None, None)
    if not isinstance(op, odl.Operator):
        return ([('not_an_operator', 'expr = %s  ->  %r' % (A.src(e), type(op)))], 1, None, None)
    used = list(env.used)
    evals = 1
    head = 'expr = %s; ' % A.src(e)
    if 'SeqDiff' in head:
        head = '[SeqDiff: see SEQDIFF_SRC in mc/ref/opalgebra.py] ' + head
    if isinstance(op, _FN) and ran in A.FIELDS and A.FIELD_OF[dom] != ran:
        # `Functional`: "an operator f that maps from some domain X to the field of scalars F
        # associated with the domain" - a Functional composed with an operator coming from a
        # space over the other field cannot satisfy this and have the range of f: the
        # documentation leaves it open; counted, not judged, not used as an operand
        return [(UNSPEC, '')], evals, op, None
    if op.domain != env.sp[dom]:
        viol.append(('domain_differs', head + 'expected domain %s, got %r' % (dom, op.domain)))
    if op.range != env.sp[ran]:
        viol.append(('range_differs', head + 'expected range %s, got %r' % (ran, op.range)))
    if viol:
        return viol, evals, op, None
    flag = bool(op.is_linear)
    if lin and not flag:
        viol.append(('linear_flag_lost',
                     head + 'all operands linear and only linearity-preserving combinators, '
                     'but is_linear is False'))
    if flag and not lin and not A.ref_is_linear(e, t):
        viol.append(('linear_flag_unsound',
                     head + 'is_linear is True but the documented function is not additive / '
                     'homogeneous on the point set'))
    seen = set(s for s, _ in viol)

    def add(sym, det):
        if sym not in seen:
            seen.add(sym)
            viol.append((sym, det))

    rec = {'used': used, 'oop': [], 'inp': []}
    env.last = rec
    inplace = ran not in A.FIELDS
    # out aliased with the input: the table defines the value whatever `out` is, and the
    # expression classes are written to cope with it ("Write to `tmp` first, otherwise aliased
    # `x` and `out` lead to wrong result"); judged when every leaf is itself alias-safe
    aliased = inplace and dom == ran and A.alias_safe(e)
    for ip, p in enumerate(A.points(dom)):
        tr = A.new_track()
        ref = A.ref_eval(e, p, tr)
        refa = np.asarray(ref)
        if not (np.all(np.isfinite(refa)) and np.isfinite(tr[0])):
            # over- / underflow to Inf / NaN in the reference: no NaN / Inf among the operands
            rec['oop'].append(None)
            rec['inp'].append(None)
            continue
        x = env.point(dom, p)
        ptxt = 'x = %s; ' % _show(p)
        # out-of-place
        evals += 1
        try:
            y = op(x)
        except Exception as exc:
            add('call_raises:' + type(exc).__name__,
                head + ptxt + 'expr(x) raised %s: %s' % (type(exc).__name__, str(exc)[:200]))
            y = None
        rec['oop'].append(None)
        rec['inp'].append(None)
        if y is not None:
            if y not in op.range:
                add('result_not_in_range', head + ptxt + 'got %r, range %r' % (y, op.range))
            else:
                got = _flat(y, ran)
                rec['oop'][-1] = got
                if not _close(got, refa, tr):
                    add('value_differs', head + ptxt + 'expected expr(x) = %s, got %s'
                        % (_show(refa), _show(got)))
        if dom not in A.FIELDS and not np.array_equal(x.asarray(), p):
            add('input_modified', head + ptxt + 'x is %s after expr(x)' % _show(x.asarray()))
            x = env.point(dom, p)
        # in-place into a NaN-filled out
        if inplace:
            evals += 1
            out = op.range.element()
            try:
                r = op(x, out=out)
            except Exception as exc:
                add('inplace_raises:' + type(exc).__name__,
                    head + ptxt + 'expr(x, out=out) raised %s: %s'
                    % (type(exc).__name__, str(exc)[:200]))
                r = None
            if r is not None:
                if r is not out:
                    add('inplace_returns_other', head + ptxt + 'expr(x, out=out) is not out')
                got = _flat(out, ran)
                rec['inp'][-1] = got
                if not _close(got, refa, tr):
                    add('inplace_value_differs',
                        head + ptxt + 'expected out = %s after expr(x, out=out), got %s'
                        % (_show(refa), _show(got)))
            if dom not in A.FIELDS and not np.array_equal(x.asarray(), p):
                add('input_modified', head + ptxt + 'x is %s after expr(x, out=out)'
                    % _show(x.asarray()))
        # (the aliased symptoms name what goes wrong ONLY with aliasing: an expression that is
        # already wrong out-of-place / in-place is reported under those symptoms)
        if (aliased and ip < 2 and not (seen & _PLAIN_BAD) and
                not any(k.startswith(('call_raises', 'inplace_raises')) for k in seen)):
            evals += 1
            y = env.point(dom, p)
            try:
                r = op(y, out=y)
            except Exception as exc:
                add('aliased_raises:' + type(exc).__name__,
                    head + ptxt + 'y = x.copy(); expr(y, out=y) raised %s: %s'
                    % (type(exc).__name__, str(exc)[:200]))
                r = None
            if r is not None:
                if r is not y:
                    add('aliased_returns_other', head + ptxt + 'expr(y, out=y) is not y')
                got = _flat(y, ran)
                if not _close(got, refa, tr):
                    add('aliased_value_differs',
                        head + ptxt + 'y = x.copy(); expected y = %s after expr(y, out=y), got %s'
                        % (_show(refa), _show(got)))
    for name, v, _ in used:
        if not np.array_equal(v.asarray(), A.vec_array(name)):
            add('operand_modified', head + 'vector operand %s is now %s'
                % (A.vec_src(name), _show(v.asarray())))
    return viol, evals, op, flag


def _val(r):
    """Flat array of a result (element or scalar)."""
    return np.array(r.asarray(), copy=True).ravel() if hasattr(r, 'asarray') else np.asarray(r)


def _same(a, b):
    return a is not None and b is not None and a.shape == b.shape and np.array_equal(a, b)


def _overwrite(v, how, env):
    """In-place modification of the caller's element after the expression was built."""
    if how == 'v *= 2':
        v *= 2
    elif how == 'v as out= of another operator call':
        sp = [k for k, s in env.sp.items() if s == v.space][0]
        odl.ScalingOperator(v.space, -3.0)(env.point(sp, A.points(sp)[1]), out=v)
    else:
        v.set_zero()


def _derived(op, env, dom, ran):
    """{name: callable returning the value of a derived object at a probe} (built lazily)."""
    pts = A.points(dom)
    out = {}
    if op.is_linear:
        out['adjoint'] = lambda o=op: _val(o.adjoint(env.point(ran, A.points(ran)[0])))
    out['derivative'] = lambda o=op: _val(o.derivative(env.point(dom, pts[0]))(
        env.point(dom, pts[1])))
    if isinstance(op, _FN):
        out['gradient'] = lambda o=op: _val(o.gradient(env.point(dom, pts[0])))
    return out


def history(e, op, env, rec):
    """The element operand of the root is overwritten after the first evaluation; every later
    evaluation (and every derived object requested later) must still act with the ORIGINAL
    values: bit-identical to the first evaluation, which `check` compared with the reference.
    Returns (violations, evals, kept_by_reference)."""
    t = A.typeof(e)
    dom, ran = t[0], t[1]
    if len(rec['used']) != 1 or rec['oop'][0] is None or rec['oop'][1] is None:
        return [], 0, False
    name, v, claimed = rec['used'][0]
    pts = A.points(dom)
    head = 'expr = %s with v = %s; ' % (A.src(e), A.vec_src(name))
    evals = 0
    viol = []
    seen = set()

    def add(sym, det):
        if sym not in seen:
            seen.add(sym)
            viol.append((sym, det))

    def again(ip, how, inplace=False):
        x = env.point(dom, pts[ip])
        try:
            if inplace:
                out = op.range.element()
                op(x, out=out)
                got = _flat(out, ran)
            else:
                got = _flat(op(x), ran)
        except Exception as exc:
            add('history_raises:' + type(exc).__name__,
                head + 'after %s: expr(x) raised %s: %s' % (how, type(exc).__name__,
                                                            str(exc)[:200]))
            return True
        first = rec['inp'][ip] if inplace else rec['oop'][ip]
        if _same(got, first):
            return True
        add('history_value_differs',
            head + 'x = %s; first evaluation %s (= reference); after the caller did `%s` on his '
            'v: %s' % (_show(pts[ip]), _show(first), how, _show(got)))
        return False

    if not claimed:
        # measured only: does the pinned tree keep the operand by reference?
        _overwrite(v, 'v *= 2', env)
        x = env.point(dom, pts[1])
        try:
            got = _flat(op(x), ran)
        except Exception:
            return [], 1, False
        return [], 1, not _same(got, rec['oop'][1])
    der = _derived(op, env, dom, ran)
    before = {}
    for k, f in der.items():
        try:
            before[k] = f()
            evals += 1
        except Exception:
            pass                    # not available for this expression (C05 / C06 judge that)
    _overwrite(v, 'v *= 2', env)
    evals += 1
    again(0, 'v *= 2')
    how = 'v as out= of another operator call'
    _overwrite(v, how, env)
    evals += 1
    again(1, how)
    for k in before:
        evals += 1
        try:
            after = der[k]()
        except Exception as exc:
            add('history_raises:' + type(exc).__name__,
                head + 'after %s: expr.%s raised %s: %s' % (how, k, type(exc).__name__,
                                                             str(exc)[:200]))
            continue
        if not _same(after, before[k]):
            add('history_derived_differs:' + k,
                head + 'expr.%s requested after the caller overwrote his v (%s) gives %s, '
                'requested before: %s' % (k, how, _show(after), _show(before[k])))
    _overwrite(v, 'v.set_zero()', env)
    evals += 1
    if ran not in A.FIELDS and rec['inp'][0] is not None:
        again(0, 'v.set_zero()', inplace=True)
    else:
        again(0, 'v.set_zero()')
    return viol, evals, False


POW_BOUNDARY = [(0, 'zero'), (-1, 'negative'), (-2, 'negative'), (0.5, 'noninteger'),
                (1.5, 'noninteger')]


def pow_boundary(child, cop, env):
    """Boundary exponents of ``A ** n`` ("n : positive int"; n = 1, 2, 3 are ordinary roots).
    n = 0: either a clean refusal (TypeError / ValueError) or an operator acting as the identity
    on A.domain; negative and non-integer n: refusal.  Returns (violations, evals)."""
    t = A.typeof(child)
    dom = t[0]
    site = 'A**n[boundary exponent]'        # the guard lives in Operator.__pow__ alone
    viol = []
    evals = 0
    for n, cls in POW_BOUNDARY:
        evals += 1
        head = 'expr = %s ** %r; ' % (A.src(child), n)
        try:
            r = cop ** n
        except (TypeError, ValueError):
            continue
        except Exception as exc:
            viol.append((site, 'pow_boundary:%s_raises:%s' % (cls, type(exc).__name__),
                         head + 'raised %s: %s' % (type(exc).__name__, str(exc)[:200])))
            continue
        if cls != 'zero':
            viol.append((site, 'pow_boundary:%s_not_refused' % cls,
                         head + 'documented "n : positive int", returned %r' % (r,)))
            continue
        bad = None
        if not isinstance(r, odl.Operator) or r.domain != cop.domain or r.range != cop.domain:
            bad = 'returned %r, neither a refusal nor an operator A.domain -> A.domain' % (r,)
        else:
            for p in A.points(dom):
                evals += 1
                try:
                    got = _flat(r(env.point(dom, p)), dom)
                    ok = np.array_equal(got, np.asarray(p))
                    if ok and dom not in A.FIELDS:
                        out = r.range.element()
                        r(env.point(dom, p), out=out)
                        got = _flat(out, dom)
                        ok = np.array_equal(got, np.asarray(p))
                except Exception as exc:
                    bad = 'x = %s; (A ** 0)(x) raised %s: %s' % (_show(p), type(exc).__name__,
                                                               str(exc)[:200])
                    break
                if not ok:
                    bad = ('x = %s; (A ** 0)(x) = %s, expected x (identity) or a refusal of '
                           'A ** 0' % (_show(p), _show(got)))
                    break
        if bad:
            viol.append((site, 'pow_boundary:zero_not_identity', head + bad))
    return viol, evals


def _confirm_by_source(e, env, viol):
    """The printed source must reproduce what was judged (guards the repro text)."""
    try:
        op = eval(A.src(e), dict(env.ns))
    except Exception as exc:
        kinds = set(s.split(':')[0] for s, _ in viol)
        if 'construct_raises' in kinds:
            return
        raise AssertionError('repro source does not build: %s (%r)' % (A.src(e), exc))
    op2 = build(e, _Env())
    if type(op) is not type(op2):
        raise AssertionError('repro source builds %r, harness built %r for %s'
                             % (type(op), type(op2), A.src(e)))


# ------------------------------------------------------------------------------------------
# the bounded space

def _children(tier):
    """(child expression, pool name, mode) in the order simplest first."""
    out = []
    full = A.FULL
    leaves = [['L', n] for n in full['leaves']]
    for c in leaves:
        out.append((c, 'full', 'roots'))
    for c in A.level(full, 1):
        out.append((c, 'full', 'roots'))
    # products (operator defined on the field) * (functional): both operands of size <= 1
    for b in A.product_sides()[0]:
        out.append((b, 'prod', 'prodpairs'))
    if tier == 'thorough':
        red = A.REDUCED
        s1 = A.level(red, 1)
        for c in s1:
            out.append((c, 'red', 'pairs'))
        for c in A.level(red, 2):
            out.append((c, 'red', 'roots'))
    return out


def configs(tier):
    return [{'child': c, 'pool': p, 'mode': m} for c, p, m in _children(tier)]


def run(cfg):
    child = cfg['child']
    pool = A.POOLS[cfg['pool']]
    env = _Env()
    MODE[0] = MODE[1] = 0
    tc = A.typeof(child)
    assert tc is not None, 'ill-typed child enumerated'
    # the child itself is judged by the state that generated it; here it only has to be sound
    # to serve as an operand
    cviol, cevals, cop, _ = check(child, env)
    child_used = env.last['used'] if env.last else []
    child_first = env.last['oop'][0] if env.last else None
    is_leaf = child[0] == 'L'
    if cfg['mode'] == 'pairs':
        partners = A.level(pool, 1)
        exprs = A.pairs_with(child, partners, pool)
    elif cfg['mode'] == 'prodpairs':
        partners = A.product_sides(pool)[1]
        exprs = A.products_with(child, partners)
    else:
        partners = []
        exprs = A.roots_over(child, pool)
    if cviol:
        if cviol[0][0] == UNSPEC:
            return {'evals': 0, 'skipped': len(exprs) + 1, 'sig': 'child-unspecified',
                    'trivial': True, 'viol': [], 'nexpr': 0}
        res = {'evals': cevals, 'skipped': len(exprs), 'sig': 'child-violates',
               'trivial': not is_leaf, 'viol': [], 'nexpr': 0}
        if is_leaf:
            # nobody else judges a leaf
            res['viol'] = [{'site': 'leaf:%s' % child[1], 'symptom': s, 'detail': d}
                           for s, d in cviol]
            res['sig'] = 'leaf-violates:%s' % child[1]
        return res
    pre = {id(child): cop}
    evals = cevals if is_leaf else 0
    bviol = []
    if cfg['mode'] == 'roots':
        bviol, be = pow_boundary(child, cop, env)
        evals += be
    nexpr = 1 if is_leaf else 0
    skipped = 0
    sigs = set()
    first = {}
    for bsite, bsym, bdet in bviol:
        first.setdefault((bsite, bsym), bdet)
        sigs.add('%s|%s' % (bsite, bsym))
    partner_ok = {}
    byref = set()
    kept = []           # (expression, object, site, first value at x1) of the sound roots
    for e in exprs:
        t = A.typeof(e)
        assert t is not None, 'ill-typed expression enumerated: %r' % (e,)
        if A.unspecified(e):
            skipped += 1
            continue
        # the other operator operand (a leaf, or a size-1 expression in 'pairs' mode) is judged
        # in its own state; if it does not stand on its own the combination is not judged
        other = [c for c in A.children(e) if c is not child]
        ok = True
        for p in other:
            if id(p) not in partner_ok:
                if p[0] == 'L':
                    try:
                        pre[id(p)] = env.leaf(p[1])
                        partner_ok[id(p)] = True
                    except Exception:
                        partner_ok[id(p)] = False
                else:
                    pv, pe, pop, _ = check(p, env)
                    partner_ok[id(p)] = not pv
                    if not pv:
                        pre[id(p)] = pop
            ok = ok and partner_ok[id(p)]
        if not ok:
            skipped += 1
            continue
        viol, ne, op, flag = check(e, env, pre)
        if viol and viol[0][0] == UNSPEC:
            skipped += 1
            continue
        evals += ne
        nexpr += 1
        site = site_of(e, env, pre)
        rec = env.last
        if not viol and rec is not None:
            touched = False
            if 'V' in A.OPS[e[0]]:
                hv, he, ref_kept = history(e, op, env, rec)
                viol = hv
                evals += he
                touched = ref_kept
                if ref_kept:
                    byref.add(site.split('/')[0])
            if not touched and not viol and rec['oop'][0] is not None:
                kept.append((e, op, site, rec['oop'][0]))
        sigs.add('%s|%s|%s|%s' % (site, type(op).__name__ if op is not None else '-',
                                  flag, ','.join(sorted(s for s, _ in viol))))
        for sym, det in viol:
            if (site, sym) not in first:
                _confirm_by_source(e, env, viol)
                first[(site, sym)] = det
    # history clause for the element operands INSIDE the child: the caller overwrites them now;
    # every expression built on top of the child must still give its first value
    inner = [(n, v) for n, v, claimed in child_used if claimed]
    if inner and kept:
        for how in ('v *= 2', 'v as out= of another operator call'):
            for n, v in inner:
                _overwrite(v, how, env)
        # a child that itself follows the overwritten operand is reported by the state in
        # which it was the root; the expressions on top of it are then not judged again
        try:
            cgot = _flat(cop(env.point(tc[0], A.points(tc[0])[0])), tc[1])
        except Exception:
            cgot = None
        if not _same(cgot, child_first):
            skipped += len(kept)
            kept = []
        for e, op, site, val in kept:
            evals += 1
            sym = det = None
            dom, ran = A.typeof(e)[:2]
            p0 = A.points(dom)[0]
            try:
                got = _flat(op(env.point(dom, p0)), ran)
                if not _same(got, val):
                    sym = 'history_value_differs'
                    det = ('expr = %s; x = %s; first evaluation %s; after the caller overwrote '
                           'the element operand(s) %s of the sub-expression in place: %s'
                           % (A.src(e), _show(p0), _show(val),
                              ', '.join(A.vec_src(n) for n, _ in inner), _show(got)))
            except Exception as exc:
                sym = 'history_raises:' + type(exc).__name__
                det = 'expr = %s; after overwriting the operands of the sub-expression: %s' % (
                    A.src(e), str(exc)[:200])
            if sym and (site, sym) not in first:
                first[(site, sym)] = det
    return {'evals': evals, 'skipped': skipped, 'sig': sorted(sigs), 'trivial': nexpr == 0,
            'viol': [{'site': s, 'symptom': y, 'detail': d} for (s, y), d in first.items()],
            'nexpr': nexpr, 'cmp': list(MODE), 'byref': sorted(byref)}


def summarize(results):
    n = sum(r.get('nexpr', 0) for _, r in results)
    by = {}
    for c, r in results:
        if c['mode'] == 'prodpairs':
            k = 'products(size<=1 x size<=1)'
        else:
            k = 'size%d/%s/%s' % (A.size(c['child']) + (2 if c['mode'] == 'pairs' else 1),
                                  c['pool'], c['mode'])
        by[k] = by.get(k, 0) + r.get('nexpr', 0)
    ex = sum(r.get('cmp', [0, 0])[0] for _, r in results)
    tol = sum(r.get('cmp', [0, 0])[1] for _, r in results)
    ref = sorted(set(x for _, r in results for x in r.get('byref', [])))
    return {'expressions_checked': n, 'expressions_by_level': by,
            'operand_kept_by_reference_on_pinned_tree(measured, not judged)': ref,
            'comparisons_exact_equality': ex, 'comparisons_with_tolerance': tol}


def trace_functions():
    from odl.operator import operator as O
    from odl.solvers.functional import functional as F
    Op, Fn = O.Operator, F.Functional
    fs = [Op.__add__, Op.__radd__, Op.__sub__, Op.__rsub__, Op.__mul__, Op.__matmul__,
          Op.__rmul__, Op.__rmatmul__, Op.__pow__, Op.__truediv__, Op.__neg__, Op.__pos__,
          Fn.__mul__, Fn.__rmul__, Fn.__add__, Fn.__sub__,
          O.OperatorRightScalarMult.__mul__]
    for cls in (O.OperatorSum, O.OperatorVectorSum, O.OperatorComp, O.OperatorPointwiseProduct,
                O.OperatorLeftScalarMult, O.OperatorRightScalarMult, O.FunctionalLeftVectorMult,
                O.OperatorLeftVectorMult, O.OperatorRightVectorMult):
        fs += [cls.__init__, cls._call]
    for cls in (F.FunctionalLeftScalarMult, F.FunctionalRightScalarMult, F.FunctionalComp,
                F.FunctionalRightVectorMult, F.FunctionalSum, F.FunctionalScalarSum):
        fs.append(cls.__init__)
    return fs


def meta(tier):
    full, red = A.FULL, A.REDUCED
    b = {'leaves': full['leaves'], 'scalars': full['scalars'], 'vectors': full['vecs'],
         'extended scalars (roots over every child; all scalar forms but the @ synonyms)':
             dict((k, A.SCALAR_SRC[k]) for k in full['xscalars']),
         'extended scalars forming children a*E, E*a, E/a': full['xchild'],
         'leaves returning their argument / a view of it out-of-place': ['Re3', 'View3'],
         'powers': full['pows'], 'size(full pool)': 2,
         'points per expression': 'x1, x2, x1+x2, 0 of the domain; out-of-place and in-place; '
                                  'x1, x2 also in-place with out aliased to the input when '
                                  'domain == range and every leaf is alias-safe',
         'history clause': 'element operand overwritten in place (v *= 2; v as out= of another '
                           'operator call; v.set_zero()) after the first evaluation: value at '
                           'x1, x2 (out-of-place) and x1 (in-place), adjoint / derivative / '
                           'gradient requested before and after, all bit-identical; judged for '
                           'v*A, v@A (operators and functionals), A*v, A@v (plain operators), '
                           'A-v; and once more, at x1, for every expression built on a child '
                           'whose inner element operands are overwritten',
         'operand kept by reference on the pinned tree (not judged)': BYREF_ON_PINNED_TREE,
         'products': 'B * F, B @ F, F * B for all size <= 1 expressions B defined on the field '
                     'and F with values in it over %s' % (A.PRODUCT['leaves'],),
         'power boundary': 'A ** n for n in %s for every child' % ([n for n, _ in POW_BOUNDARY],),
         'tmp forms (over leaf pairs)': ['OperatorComp(A,B,tmp)',
                                         'OperatorSum(A,B,tmp_ran,tmp_dom)',
                                         'OperatorRightScalarMult(A,a,tmp)']}
    if tier == 'thorough':
        b.update({'size(reduced pool)': 3, 'reduced leaves': red['leaves'],
                  'reduced scalars': red['scalars'], 'reduced vectors': red['vecs'],
                  'reduced powers': red['pows']})
    return {
        'rule': 'one state = one child expression; its transitions are all well-typed '
                'applications of one more combinator with every scalar, vector and leaf of the '
                'pool (thorough: also every pair of size-1 expressions of the reduced pool). '
                'Each resulting expression is executed at 4 points out-of-place and in-place '
                'and compared with the reference interpreter (exact equality when every '
                'intermediate value of the reference is a multiple of 2^-12 below 2^12, so that no '
                'rounding can occur in any association order; otherwise 1e-12 relative to the '
                'largest intermediate magnitude). '
                'distinct = (overload[operand kinds]/regime, resulting class, is_linear, symptoms).',
        'bounds': b,
        'extra': {'unreached_anchor_lines_explained':
                  'all unreached lines are (i) the `raise` statements and `return NotImplemented` '
                  'arms for ill-typed operands (not enumerated: the property quantifies over '
                  'well-typed trees), incl. Functional.__mul__ falling through to Operator.__mul__ '
                  'for a scalar outside the field, and (ii) the `raise` statements for '
                  'user-supplied temporaries from the wrong space'},
        'assumptions': [
            'well-typedness follows the Parameters sections of Operator.__mul__/__rmul__/'
            '__add__/__truediv__/__pow__ and Functional.__mul__/__rmul__/__add__: scalars in '
            'the field of the range (left forms, sums) or of the domain (right forms), '
            'vectors in the range / domain; ill-typed applications are not enumerated',
            'an expression whose operand already violates is not judged again (counted as '
            'skipped); the operand is reported by the state that generated it',
            'A / a is enumerated only for scalars in both fields and a != 0',
            'history clause: claimed exactly for the forms whose element operand the pinned '
            'tree copies (v*A, v@A -> other.copy(); A*v, A@v on a plain Operator -> other.copy(); '
            'A-v -> new element (-1)*v). A+v, v+A, v-A (OperatorVectorSum keeps '
            'range.element(vector), i.e. the caller\'s object) and f*v, f@v for a Functional f '
            '(FunctionalRightVectorMult(self, other)) keep the operand by reference on the '
            'pinned tree: measured, listed under operand_kept_by_reference_on_pinned_tree, not '
            'judged. Scalars are immutable; arrays / lists are not accepted as operands by the '
            'overloads (not `in` the space), so they are not part of the alphabet',
            'unspecified (counted under unspecified_skipped, not judged, not reused as operands): '
            'E * a and E / a for E defined on a field (Operator.__mul__ and the class docstring '
            'require a LinearSpace domain, the constructor docstring admits a Field); results '
            'that are Functional instances although the field of their domain differs from '
            'their range (f * A with A from a space over the other field: contradicts the '
            'definition of Functional)',
            'extended scalars: nonzero scalars of tiny / huge magnitude and close to 1 are '
            'ordinary members of the field (the zero arms are documented for a == 0 only); NumPy '
            'scalars are members of the field (`np.float64(2.0) in RealNumbers()`), np.float32 is '
            'not enumerated (single-precision products are NumPy semantics the documentation does '
            'not address); values compared with the same rule as everything else, so a result '
            'scaled by 2^-30 is resolved to ~1e-3 relative by the plain comparison and fully by '
            'the enclosing expressions that undo the factor (2^30 * (2^-30 * E), (E * 2^-30) / '
            '2^-30, ...)',
            'exact equality is demanded when every intermediate value of the reference '
            'evaluation is a multiple of 2^-12 of magnitude < 2^12 (products of two such numbers '
            'need <= 48 bits, so no rounding can occur whatever the association order; the '
            'scalars 2, -1, 1/2, 0, 1j never round); otherwise |got - ref| <= 1e-12 * max(1, '
            'largest intermediate magnitude)',
        ],
    }
