"""C04 - operator arithmetic means what the algebra table says, for arbitrary expressions.

Exploration: *program space*.  A state is one child expression (a leaf, or an expression of
size n-1); its transitions are ALL well-typed applications of one more combinator of the
documented grammar (``a*E, E*a, E/a, E+a, a+E, E-a, a-E, v*E, E*v, E+v, v+E, E-v, v-E, -E, +E,
E**n, E+F, E-F, E*F, E@F, a@E, E@a, v@E, E@v, OperatorPointwiseProduct(E, F)``) with every
scalar / vector / leaf of the pool as the other operand.  Pool: 35 leaves on rn(3), rn(2),
cn(2), between them and on the field R (linear, nonlinear, Functional and plain field-valued
operators), scalars {2, -1, 1/2, 0, 1j}, two vectors per space.  Quick: every expression of
size <= 2 over the full pool; thorough: also every expression of size 3 over a reduced pool.  Typing is decided by the reference type system
(`mc/ref/opalgebra.py`) from domain / range / field as the docstrings of the overloads state
it; nothing is sampled.

Oracle per expression: construction succeeds; ``.domain``/``.range`` are the typed ones;
``is_linear`` is sound (True => the documented function is additive/homogeneous on the point
set) and complete on the linear fragment (all leaves linear and only linearity-preserving
combinators => True); the value at the four points x1, x2, x1+x2, 0 equals the reference
interpreter (the table of the property statement applied recursively to NumPy closures),
out-of-place and - when the range is a linear space - in-place into a NaN-filled ``out``,
and (domain == range, all leaves alias-safe, first two points) in-place with ``out`` aliased
to the input; the evaluation point and the vector operands are left untouched.  One leaf
(`SeqDiff`, harness-defined) is correct for distinct x/out but not alias-safe, so a combinator
that hands an operand aliased buffers although the caller did not is visible; the expression
classes are also built directly with the documented user temporaries (tmp, tmp_ran, tmp_dom).
"""
import numpy as np
import odl

from mc.ref import opalgebra as A

PROPERTY = 'C04'
BUDGET = {'quick': 600, 'thorough': 3000}

UNSPEC = 'unspecified'      # pseudo-symptom: documentation leaves the case open
TOL_INEXACT = 1e-12         # relative to the largest magnitude met while evaluating


# ------------------------------------------------------------------------------------------
# implementation side: build with the library's own overloads

class _Env(object):
    """Spaces, lazily built leaves and fresh vector operands for one state."""

    def __init__(self):
        self.sp = {'R3': odl.rn(3), 'R2': odl.rn(2), 'C2': odl.cn(2),
                   'R': odl.RealNumbers(), 'C': odl.ComplexNumbers()}
        self.ns = dict(self.sp, odl=odl, np=np)
        exec(A.SEQDIFF_SRC, self.ns)       # the harness-defined alias-unsafe leaf class
        self.leaves = {}
        self.used = []          # (name, element) vector operands handed to the library

    def leaf(self, name):
        if name not in self.leaves:
            self.leaves[name] = eval(A.LEAVES[name]['src'], self.ns)
        return self.leaves[name]

    def vec(self, name):
        sp, lst = A.VECS[name]
        v = self.sp[sp].element(lst)
        self.used.append((name, v))
        return v

    def point(self, dom, p):
        if dom in A.FIELDS:
            return p
        return self.sp[dom].element(np.array(p, copy=True))     # never share memory with p


def build(e, env, pre=None):
    """The odl object for expression ``e``; ``pre`` maps id(subexpression) -> built object."""
    if pre is not None and id(e) in pre:
        return pre[id(e)]
    op = e[0]
    if op == 'L':
        return env.leaf(e[1])
    B = lambda x: build(x, env, pre)      # noqa: E731
    S = A.SCALARS
    if op == 'lsmul':
        return S[e[1]] * B(e[2])
    if op == 'rsmul':
        return B(e[1]) * S[e[2]]
    if op == 'div':
        return B(e[1]) / S[e[2]]
    if op == 'adds':
        return B(e[1]) + S[e[2]]
    if op == 'sadd':
        return S[e[1]] + B(e[2])
    if op == 'subs':
        return B(e[1]) - S[e[2]]
    if op == 'ssub':
        return S[e[1]] - B(e[2])
    if op == 'lvmul':
        return env.vec(e[1]) * B(e[2])
    if op == 'rvmul':
        return B(e[1]) * env.vec(e[2])
    if op == 'addv':
        return B(e[1]) + env.vec(e[2])
    if op == 'vadd':
        return env.vec(e[1]) + B(e[2])
    if op == 'subv':
        return B(e[1]) - env.vec(e[2])
    if op == 'vsub':
        return env.vec(e[1]) - B(e[2])
    if op == 'neg':
        return -B(e[1])
    if op == 'pos':
        return +B(e[1])
    if op == 'pow':
        return B(e[1]) ** e[2]
    if op == 'add':
        return B(e[1]) + B(e[2])
    if op == 'sub':
        return B(e[1]) - B(e[2])
    if op == 'comp':
        return B(e[1]) * B(e[2])
    if op == 'matmul':
        return B(e[1]) @ B(e[2])
    if op == 'lsmatmul':
        return S[e[1]] @ B(e[2])
    if op == 'rsmatmul':
        return B(e[1]) @ S[e[2]]
    if op == 'lvmatmul':
        return env.vec(e[1]) @ B(e[2])
    if op == 'rvmatmul':
        return B(e[1]) @ env.vec(e[2])
    if op == 'comptmp':
        l, r = B(e[1]), B(e[2])
        return odl.OperatorComp(l, r, tmp=l.domain.element())
    if op == 'sumtmp':
        l, r = B(e[1]), B(e[2])
        return odl.OperatorSum(l, r, tmp_ran=l.range.element(), tmp_dom=l.domain.element())
    if op == 'rsmultmp':
        l = B(e[1])
        return odl.OperatorRightScalarMult(l, S[e[2]], tmp=l.domain.element())
    if op == 'pwprod':
        return odl.OperatorPointwiseProduct(B(e[1]), B(e[2]))
    raise KeyError(op)


def _flat(y, ran):
    if ran in A.FIELDS:
        return np.asarray(complex(y) if ran == 'C' else float(y))
    return np.array(y.asarray(), copy=True).ravel()


MODE = [0, 0]       # comparisons made with exact equality / with the tolerance (per state)


def _close(got, ref, tr):
    """Exact equality when no rounding can have occurred (see `opalgebra.ref_eval`), else a
    fixed tolerance relative to the largest intermediate magnitude."""
    got, ref = np.asarray(got), np.asarray(ref)
    MODE[0 if tr[1] else 1] += 1
    if got.shape != ref.shape:
        return False
    if tr[1]:
        return bool(np.array_equal(got, ref))
    if not np.all(np.isfinite(got)):
        return False
    return bool(np.all(np.abs(got - ref) <= TOL_INEXACT * max(1.0, tr[0])))


_RSM = odl.operator.operator.OperatorRightScalarMult
_LSM = odl.operator.operator.OperatorLeftScalarMult
_FN = odl.solvers.functional.functional.Functional


def kind(op):
    """Operand class as the overloads see it: linearity flag, Functional / field-valued plain
    operator / operator, and the two expression classes that carry scalar shortcuts."""
    k = 'Lin' if op.is_linear else 'Non'
    if isinstance(op, _FN):
        k += 'Fn'
    elif isinstance(op.range, odl.set.sets.Field):
        k += 'FOp'
    else:
        k += 'Op'
    if isinstance(op, _RSM):
        k += ':RSM'
    elif isinstance(op, _LSM):
        k += ':LSM'
    return k


def site_of(e, env, pre):
    """`overload[operand kinds]/regime`; operands are looked up in `pre` (already built)."""
    ks = []
    for c in A.children(e):
        try:
            ks.append(kind(build(c, env, pre)))
        except Exception:
            ks.append('?')
    return '%s[%s]%s' % (A.overload(e), ','.join(ks), A.marker(e))


def _show(a):
    a = np.asarray(a)
    return repr(a.tolist())


_PLAIN_BAD = frozenset(['value_differs', 'inplace_value_differs', 'result_not_in_range',
                        'input_modified', 'inplace_returns_other'])


def check(e, env, pre=None):
    """Execute one expression against the reference.  Returns (violations, evals, info);
    a violation is (symptom, detail)."""
    t = A.typeof(e)
    dom, ran, lin = t[0], t[1], t[2]
    viol = []
    env.used = []
    try:
        op = build(e, env, pre)
    except Exception as exc:
        return ([('construct_raises:' + type(exc).__name__,
                  'expr = %s  ->  %s: %s' % (A.src(e), type(exc).__name__, str(exc)[:200]))],
                1, None, None)
    if not isinstance(op, odl.Operator):
        return ([('not_an_operator', 'expr = %s  ->  %r' % (A.src(e), type(op)))], 1, None, None)
    used = list(env.used)
    evals = 1
    head = 'expr = %s; ' % A.src(e)
    if 'SeqDiff' in head:
        head = '[SeqDiff: see SEQDIFF_SRC in mc/ref/opalgebra.py] ' + head
    if isinstance(op, _FN) and ran in A.FIELDS and A.FIELD_OF[dom] != ran:
        # `Functional`: "an operator f that maps from some domain X to the field of scalars F
        # associated with the domain" - a Functional composed with an operator coming from a
        # space over the other field cannot satisfy this and have the range of f: the
        # documentation leaves it open; counted, not judged, not used as an operand
        return [(UNSPEC, '')], evals, op, None
    if op.domain != env.sp[dom]:
        viol.append(('domain_differs', head + 'expected domain %s, got %r' % (dom, op.domain)))
    if op.range != env.sp[ran]:
        viol.append(('range_differs', head + 'expected range %s, got %r' % (ran, op.range)))
    if viol:
        return viol, evals, op, None
    flag = bool(op.is_linear)
    if lin and not flag:
        viol.append(('linear_flag_lost',
                     head + 'all operands linear and only linearity-preserving combinators, '
                     'but is_linear is False'))
    if flag and not lin and not A.ref_is_linear(e, t):
        viol.append(('linear_flag_unsound',
                     head + 'is_linear is True but the documented function is not additive / '
                     'homogeneous on the point set'))
    seen = set(s for s, _ in viol)

    def add(sym, det):
        if sym not in seen:
            seen.add(sym)
            viol.append((sym, det))

    inplace = ran not in A.FIELDS
    # out aliased with the input: the table defines the value whatever `out` is, and the
    # expression classes are written to cope with it ("Write to `tmp` first, otherwise aliased
    # `x` and `out` lead to wrong result"); judged when every leaf is itself alias-safe
    aliased = inplace and dom == ran and A.alias_safe(e)
    for ip, p in enumerate(A.points(dom)):
        tr = A.new_track()
        ref = A.ref_eval(e, p, tr)
        refa = np.asarray(ref)
        x = env.point(dom, p)
        ptxt = 'x = %s; ' % _show(p)
        # out-of-place
        evals += 1
        try:
            y = op(x)
        except Exception as exc:
            add('call_raises:' + type(exc).__name__,
                head + ptxt + 'expr(x) raised %s: %s' % (type(exc).__name__, str(exc)[:200]))
            y = None
        if y is not None:
            if y not in op.range:
                add('result_not_in_range', head + ptxt + 'got %r, range %r' % (y, op.range))
            else:
                got = _flat(y, ran)
                if not _close(got, refa, tr):
                    add('value_differs', head + ptxt + 'expected expr(x) = %s, got %s'
                        % (_show(refa), _show(got)))
        if dom not in A.FIELDS and not np.array_equal(x.asarray(), p):
            add('input_modified', head + ptxt + 'x is %s after expr(x)' % _show(x.asarray()))
            x = env.point(dom, p)
        # in-place into a NaN-filled out
        if inplace:
            evals += 1
            out = op.range.element()
            try:
                r = op(x, out=out)
            except Exception as exc:
                add('inplace_raises:' + type(exc).__name__,
                    head + ptxt + 'expr(x, out=out) raised %s: %s'
                    % (type(exc).__name__, str(exc)[:200]))
                r = None
            if r is not None:
                if r is not out:
                    add('inplace_returns_other', head + ptxt + 'expr(x, out=out) is not out')
                got = _flat(out, ran)
                if not _close(got, refa, tr):
                    add('inplace_value_differs',
                        head + ptxt + 'expected out = %s after expr(x, out=out), got %s'
                        % (_show(refa), _show(got)))
            if dom not in A.FIELDS and not np.array_equal(x.asarray(), p):
                add('input_modified', head + ptxt + 'x is %s after expr(x, out=out)'
                    % _show(x.asarray()))
        # (the aliased symptoms name what goes wrong ONLY with aliasing: an expression that is
        # already wrong out-of-place / in-place is reported under those symptoms)
        if (aliased and ip < 2 and not (seen & _PLAIN_BAD) and
                not any(k.startswith(('call_raises', 'inplace_raises')) for k in seen)):
            evals += 1
            y = env.point(dom, p)
            try:
                r = op(y, out=y)
            except Exception as exc:
                add('aliased_raises:' + type(exc).__name__,
                    head + ptxt + 'y = x.copy(); expr(y, out=y) raised %s: %s'
                    % (type(exc).__name__, str(exc)[:200]))
                r = None
            if r is not None:
                if r is not y:
                    add('aliased_returns_other', head + ptxt + 'expr(y, out=y) is not y')
                got = _flat(y, ran)
                if not _close(got, refa, tr):
                    add('aliased_value_differs',
                        head + ptxt + 'y = x.copy(); expected y = %s after expr(y, out=y), got %s'
                        % (_show(refa), _show(got)))
    for name, v in used:
        if not np.array_equal(v.asarray(), A.vec_array(name)):
            add('operand_modified', head + 'vector operand %s is now %s'
                % (A.vec_src(name), _show(v.asarray())))
    return viol, evals, op, flag


def _confirm_by_source(e, env, viol):
    """The printed source must reproduce what was judged (guards the repro text)."""
    try:
        op = eval(A.src(e), dict(env.ns))
    except Exception as exc:
        kinds = set(s.split(':')[0] for s, _ in viol)
        if 'construct_raises' in kinds:
            return
        raise AssertionError('repro source does not build: %s (%r)' % (A.src(e), exc))
    op2 = build(e, _Env())
    if type(op) is not type(op2):
        raise AssertionError('repro source builds %r, harness built %r for %s'
                             % (type(op), type(op2), A.src(e)))


# ------------------------------------------------------------------------------------------
# the bounded space

def _children(tier):
    """(child expression, pool name, mode) in the order simplest first."""
    out = []
    full = A.FULL
    leaves = [['L', n] for n in full['leaves']]
    for c in leaves:
        out.append((c, 'full', 'roots'))
    for c in A.level(full, 1):
        out.append((c, 'full', 'roots'))
    if tier == 'thorough':
        red = A.REDUCED
        s1 = A.level(red, 1)
        for c in s1:
            out.append((c, 'red', 'pairs'))
        for c in A.level(red, 2):
            out.append((c, 'red', 'roots'))
    return out


def configs(tier):
    return [{'child': c, 'pool': p, 'mode': m} for c, p, m in _children(tier)]


def run(cfg):
    child = cfg['child']
    pool = A.POOLS[cfg['pool']]
    env = _Env()
    MODE[0] = MODE[1] = 0
    tc = A.typeof(child)
    assert tc is not None, 'ill-typed child enumerated'
    # the child itself is judged by the state that generated it; here it only has to be sound
    # to serve as an operand
    cviol, cevals, cop, _ = check(child, env)
    is_leaf = child[0] == 'L'
    if cfg['mode'] == 'pairs':
        partners = A.level(pool, 1)
        exprs = A.pairs_with(child, partners, pool)
    else:
        partners = []
        exprs = A.roots_over(child, pool)
    if cviol:
        if cviol[0][0] == UNSPEC:
            return {'evals': 0, 'skipped': len(exprs) + 1, 'sig': 'child-unspecified',
                    'trivial': True, 'viol': [], 'nexpr': 0}
        res = {'evals': cevals, 'skipped': len(exprs), 'sig': 'child-violates',
               'trivial': not is_leaf, 'viol': [], 'nexpr': 0}
        if is_leaf:
            # nobody else judges a leaf
            res['viol'] = [{'site': 'leaf:%s' % child[1], 'symptom': s, 'detail': d}
                           for s, d in cviol]
            res['sig'] = 'leaf-violates:%s' % child[1]
        return res
    pre = {id(child): cop}
    evals = cevals if is_leaf else 0
    nexpr = 1 if is_leaf else 0
    skipped = 0
    sigs = set()
    first = {}
    partner_ok = {}
    for e in exprs:
        t = A.typeof(e)
        assert t is not None, 'ill-typed expression enumerated: %r' % (e,)
        if A.unspecified(e):
            skipped += 1
            continue
        # the other operator operand (a leaf, or a size-1 expression in 'pairs' mode) is judged
        # in its own state; if it does not stand on its own the combination is not judged
        other = [c for c in A.children(e) if c is not child]
        ok = True
        for p in other:
            if id(p) not in partner_ok:
                if p[0] == 'L':
                    try:
                        pre[id(p)] = env.leaf(p[1])
                        partner_ok[id(p)] = True
                    except Exception:
                        partner_ok[id(p)] = False
                else:
                    pv, pe, pop, _ = check(p, env)
                    partner_ok[id(p)] = not pv
                    if not pv:
                        pre[id(p)] = pop
            ok = ok and partner_ok[id(p)]
        if not ok:
            skipped += 1
            continue
        viol, ne, op, flag = check(e, env, pre)
        if viol and viol[0][0] == UNSPEC:
            skipped += 1
            continue
        evals += ne
        nexpr += 1
        site = site_of(e, env, pre)
        sigs.add('%s|%s|%s|%s' % (site, type(op).__name__ if op is not None else '-',
                                  flag, ','.join(sorted(s for s, _ in viol))))
        for sym, det in viol:
            if (site, sym) not in first:
                _confirm_by_source(e, env, viol)
                first[(site, sym)] = det
    return {'evals': evals, 'skipped': skipped, 'sig': sorted(sigs), 'trivial': nexpr == 0,
            'viol': [{'site': s, 'symptom': y, 'detail': d} for (s, y), d in first.items()],
            'nexpr': nexpr, 'cmp': list(MODE)}


def summarize(results):
    n = sum(r.get('nexpr', 0) for _, r in results)
    by = {}
    for c, r in results:
        k = 'size%d/%s/%s' % (A.size(c['child']) + (2 if c['mode'] == 'pairs' else 1),
                              c['pool'], c['mode'])
        by[k] = by.get(k, 0) + r.get('nexpr', 0)
    ex = sum(r.get('cmp', [0, 0])[0] for _, r in results)
    tol = sum(r.get('cmp', [0, 0])[1] for _, r in results)
    return {'expressions_checked': n, 'expressions_by_level': by,
            'comparisons_exact_equality': ex, 'comparisons_with_tolerance': tol}


def trace_functions():
    from odl.operator import operator as O
    from odl.solvers.functional import functional as F
    Op, Fn = O.Operator, F.Functional
    fs = [Op.__add__, Op.__radd__, Op.__sub__, Op.__rsub__, Op.__mul__, Op.__matmul__,
          Op.__rmul__, Op.__rmatmul__, Op.__pow__, Op.__truediv__, Op.__neg__, Op.__pos__,
          Fn.__mul__, Fn.__rmul__, Fn.__add__, Fn.__sub__,
          O.OperatorRightScalarMult.__mul__]
    for cls in (O.OperatorSum, O.OperatorVectorSum, O.OperatorComp, O.OperatorPointwiseProduct,
                O.OperatorLeftScalarMult, O.OperatorRightScalarMult, O.FunctionalLeftVectorMult,
                O.OperatorLeftVectorMult, O.OperatorRightVectorMult):
        fs += [cls.__init__, cls._call]
    for cls in (F.FunctionalLeftScalarMult, F.FunctionalRightScalarMult, F.FunctionalComp,
                F.FunctionalRightVectorMult, F.FunctionalSum, F.FunctionalScalarSum):
        fs.append(cls.__init__)
    return fs


def meta(tier):
    full, red = A.FULL, A.REDUCED
    b = {'leaves': full['leaves'], 'scalars': full['scalars'], 'vectors': full['vecs'],
         'powers': full['pows'], 'size(full pool)': 2,
         'points per expression': 'x1, x2, x1+x2, 0 of the domain; out-of-place and in-place; '
                                  'x1, x2 also in-place with out aliased to the input when '
                                  'domain == range and every leaf is alias-safe',
         'tmp forms (over leaf pairs)': ['OperatorComp(A,B,tmp)',
                                         'OperatorSum(A,B,tmp_ran,tmp_dom)',
                                         'OperatorRightScalarMult(A,a,tmp)']}
    if tier == 'thorough':
        b.update({'size(reduced pool)': 3, 'reduced leaves': red['leaves'],
                  'reduced scalars': red['scalars'], 'reduced vectors': red['vecs'],
                  'reduced powers': red['pows']})
    return {
        'rule': 'one state = one child expression; its transitions are all well-typed '
                'applications of one more combinator with every scalar, vector and leaf of the '
                'pool (thorough: also every pair of size-1 expressions of the reduced pool). '
                'Each resulting expression is executed at 4 points out-of-place and in-place '
                'and compared with the reference interpreter (exact equality when every '
                'intermediate value of the reference is a multiple of 2^-12 below 2^12, so that no '
                'rounding can occur in any association order; otherwise 1e-12 relative to the '
                'largest intermediate magnitude). '
                'distinct = (overload[operand kinds]/regime, resulting class, is_linear, symptoms).',
        'bounds': b,
        'extra': {'unreached_anchor_lines_explained':
                  'all unreached lines are (i) the `raise` statements and `return NotImplemented` '
                  'arms for ill-typed operands (not enumerated: the property quantifies over '
                  'well-typed trees), incl. Functional.__mul__ falling through to Operator.__mul__ '
                  'for a scalar outside the field, and (ii) the `raise` statements for '
                  'user-supplied temporaries from the wrong space'},
        'assumptions': [
            'well-typedness follows the Parameters sections of Operator.__mul__/__rmul__/'
            '__add__/__truediv__/__pow__ and Functional.__mul__/__rmul__/__add__: scalars in '
            'the field of the range (left forms, sums) or of the domain (right forms), '
            'vectors in the range / domain; ill-typed applications are not enumerated',
            'an expression whose operand already violates is not judged again (counted as '
            'skipped); the operand is reported by the state that generated it',
            'A / a is enumerated only for scalars in both fields and a != 0',
            'unspecified (counted under unspecified_skipped, not judged, not reused as operands): '
            'E * a and E / a for E defined on a field (Operator.__mul__ and the class docstring '
            'require a LinearSpace domain, the constructor docstring admits a Field); results '
            'that are Functional instances although the field of their domain differs from '
            'their range (f * A with A from a space over the other field: contradicts the '
            'definition of Functional)',
            'exact equality is demanded when every intermediate value of the reference '
            'evaluation is a multiple of 2^-12 of magnitude < 2^12 (products of two such numbers '
            'need <= 48 bits, so no rounding can occur whatever the association order; the '
            'scalars 2, -1, 1/2, 0, 1j never round); otherwise |got - ref| <= 1e-12 * max(1, '
            'largest intermediate magnitude)',
        ],
    }
