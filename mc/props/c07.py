"""C07 - a proximal operator returns the minimiser of f(z) + ||z-x||^2/(2 sigma).

State = (functional class | derived functional | conjugate) x options x space x sigma (scalar /
per-component).  Inside a state every x in V^n is run through the real proximal; the oracle is
the *independent* reference value table f_ref of mc.registry.functionals:

  Phi(z) = f_ref(z) + ||z - x||_W^2 / (2 sigma)     (W = weights measured from the space)

 (1) f_ref(p) finite;  the library's own f(p) is finite too
 (2) Phi(p) <= Phi(z) + tol for every z of a global lattice G^n and for every
     z = p + s*d, d in {-1,0,1}^n \\ 0 (n<=4; signed pairs beyond), s in {1, 2^-3, 2^-7, 2^-12}
     and on the segment towards the best lattice point
 (3) firm non-expansiveness on ALL pairs (x, y) of V^n x V^n
 (4) indicator-like functionals (f_ref(p) in {0, inf}): prox(p) = p
"""
import itertools

import numpy as np
import odl

from mc import spaces as S
from mc.registry import functionals as FR
from mc.registry import derived as DV

PROPERTY = 'C07'
BUDGET = {'quick': 1500, 'thorough': 5400}
INF = float('inf')

QUICK_SPACES = ('rn2x2', 'pw_rn2_2_c', 'pw_rn2_1_c', 'rn3', 'ud3', 'rn3w2', 'rn3wa', 'pw_rn2_2', 'pw_ud2_2', 'nest_rn1_2x2',
                'pr_rn2_rn2_w', 'rn2')
DER_BASES = ['L1Norm', 'L2NormSquared', 'L2Norm', 'KullbackLeibler', 'IndicatorBox', 'Huber',
             'IndicatorLpUnitBall', 'KullbackLeiblerCrossEntropy']
DER_KINDS = ['translated', 'leftscal', 'leftscal_half', 'rightscal', 'rightscal_neg', 'rightscal0', 'quadpert',
             'quadpert_a0', 'quadpert_nou', 'quadpert_c', 'scalarsum', 'bregman']
ELEM_SIGMA = ('L1Norm', 'L2NormSquared')      # documented per-point step sizes
_SIG = [0.5, 2.0, 1.0, 0.25, 4.0, 1.0, 0.5, 2.0]
SCALES = [1.0, 2.0 ** -3, 2.0 ** -7, 2.0 ** -12]


def configs(tier):
    thorough = tier == 'thorough'
    sig = [0.5, 2.0] if not thorough else [0.5, 2.0, 1.0, 8.0]
    cfgs = []
    for spec in FR.SPECS:
        for sp in spec.spaces:
            if not thorough and sp not in QUICK_SPACES:
                continue
            for o in spec.opts:
                for via in ('proximal', 'convex_conj.proximal'):
                    for s in sig:
                        cfgs.append({'kind': 'spec', 'name': spec.name, 'space': sp, 'opt': o,
                                     'via': via, 'sigma': s, 'sk': 'scalar'})
                    if spec.name in ELEM_SIGMA:
                        cfgs.append({'kind': 'spec', 'name': spec.name, 'space': sp, 'opt': o,
                                     'via': via, 'sigma': 1.0, 'sk': 'elem'})
    from mc.props import c10
    for name in RAWREF:
        kinds, opts, _, sigk = c10.RAW[name]
        sps = ((['rn3', 'rn3wa'] if not thorough else FR.TENS) if 'T' in kinds else []) + \
              ((['pw_ud2_2', 'pw_rn2_1_c', 'pw_rn2_2_c'] if not thorough else FR.POW + ['pw_rn2_1_c', 'pw_rn2_2_c']) if 'P' in kinds else [])
        if name == 'proximal_huber':
            sps = [x for x in sps if x != 'rn3wa' and not x.startswith('pw_')]   # see Huber spec
        for sp in sps:
            for o in opts:
                for sk in sigk:
                    for s in (sig if sk == 'scalar' else [1.0]):
                        cfgs.append({'kind': 'raw', 'name': name, 'space': sp, 'opt': o,
                                     'sigma': s, 'sk': sk})
    for kind in DER_KINDS:
        for b in DER_BASES:
            for sp in (['rn3', 'ud3'] if not thorough else ['rn3', 'ud3', 'rn3w2',
                                                           'rn3wa', 'ud3b']):
                for s in sig:
                    cfgs.append({'kind': 'derived', 'der': kind, 'name': b, 'space': sp,
                                 'sigma': s, 'sk': 'scalar'})
    # depth 2: a derivation of a derivation
    d2 = [('translated', 'leftscal'), ('leftscal', 'translated'), ('rightscal', 'translated'),
          ('translated', 'rightscal_neg'), ('quadpert', 'translated'), ('scalarsum', 'quadpert'),
          ('leftscal', 'quadpert'), ('translated', 'translated'), ('rightscal', 'rightscal'),
          ('leftscal', 'leftscal'), ('quadpert', 'rightscal')]
    if thorough:
        d2 = [(a, b) for a in DER_KINDS for b in DER_KINDS]
    for a, b in d2:
        for base in (['L1Norm', 'L2NormSquared', 'IndicatorBox'] if not thorough else DER_BASES):
            for s in sig[:2]:
                cfgs.append({'kind': 'derived2', 'der': [a, b], 'name': base, 'space': 'rn3wa',
                             'sigma': s, 'sk': 'scalar'})
    # separable sums and the default (Moreau) conjugate, composition with a unitary operator
    for f1, f2 in itertools.product(['L1Norm', 'L2NormSquared', 'L2Norm', 'IndicatorBox'],
                                    repeat=2):
        for s in sig[:2]:
            for sk in ('scalar', 'list', 'tuple', 'ndarray'):
                if sk in ('tuple', 'ndarray') and (f1, f2) not in (
                        ('L1Norm', 'L2NormSquared'), ('IndicatorBox', 'L1Norm'), ('L2Norm', 'L2Norm')):
                    continue        # the other spellings of a per-component step: three pairs
                cfgs.append({'kind': 'sepsum', 'f1': f1, 'f2': f2, 'sigma': s, 'sk': sk})
                if (f1, f2) in (('L1Norm', 'L2NormSquared'), ('IndicatorBox', 'L1Norm')):
                    # a scaled separable sum: the step (scalar or list) passes through
                    # FunctionalLeftScalarMult.proximal
                    for sc in (2, 2.0, 0.5):
                        cfgs.append({'kind': 'sepsum', 'f1': f1, 'f2': f2, 'sigma': s, 'sk': sk,
                                     'scale': sc})
                if sk == 'scalar' and s == sig[0]:
                    # sub-sums taken out of a longer sum by indexing: SeparableSum(f1, f2, f1)[idx]
                    for pick in ('0:2', '1:3', '::2', '1', '-1'):
                        cfgs.append({'kind': 'sepsum', 'f1': f1, 'f2': f2, 'sigma': s, 'sk': sk,
                                     'pick': pick})
                if f1 == f2:
                    # the documented power form SeparableSum(f, 2): ONE functional object twice
                    cfgs.append({'kind': 'sepsum', 'f1': f1, 'f2': f2, 'sigma': s, 'sk': sk,
                                 'same': 1})
    # simple_functional given all ingredients of f = |x|^2: f, f* and f** each hand out a proximal
    for sp in ('rn2', 'rn2wa', 'ud2'):
        for lvl in (0, 1, 2, 3):
            for s in sig[:2]:
                cfgs.append({'kind': 'simple', 'level': lvl, 'space': sp, 'sigma': s, 'sk': 'scalar'})
    for b in DER_BASES:
        for sp in ('rn3', 'ud3', 'rn3wa'):
            for s in sig[:2]:
                cfgs.append({'kind': 'defaultconj2', 'name': b, 'space': sp, 'sigma': s,
                             'sk': 'scalar'})
                cfgs.append({'kind': 'composition', 'name': b, 'space': sp, 'sigma': s,
                             'sk': 'scalar'})
    return cfgs


def _site(cfg):
    k = cfg['kind']
    sk = '' if cfg.get('sk', 'scalar') == 'scalar' else ',sigma=' + cfg['sk']
    if k == 'spec':
        o = ','.join('%s=%s' % kv for kv in sorted(cfg['opt'].items()))
        kind = _space_kind(cfg['space'])
        return '%s(%s).%s[%s%s]' % (cfg['name'], o, cfg['via'], kind, sk)
    if k == 'derived':
        return '%s.%s.proximal[%s]' % (cfg['name'], cfg['der'], _space_kind(cfg['space']))
    if k == 'raw':
        o = ','.join('%s=%s' % kv for kv in sorted(cfg['opt'].items()) if kv[0] != 'lam')
        return '%s(%s)[%s%s]' % (cfg['name'], o, _space_kind(cfg['space']), sk)
    if k == 'derived2':
        return '%s.%s.%s.proximal[%s]' % (cfg['name'], cfg['der'][0], cfg['der'][1],
                                          _space_kind(cfg['space']))
    if k == 'sepsum':
        if cfg.get('same'):
            return 'SeparableSum(%s,2).proximal[sigma=%s]' % (cfg['f1'], cfg['sk'])
        if cfg.get('pick'):
            return 'SeparableSum(%s,%s,%s)[%s].proximal' % (cfg['f1'], cfg['f2'], cfg['f1'],
                                                          'int' if ':' not in cfg['pick'] else 'slice')
        if cfg.get('scale'):
            return '(%s*SeparableSum(%s,%s)).proximal[sigma=%s]' % (
                'int' if isinstance(cfg['scale'], int) else 'float', cfg['f1'], cfg['f2'], cfg['sk'])
        return 'SeparableSum(%s,%s).proximal[sigma=%s]' % (cfg['f1'], cfg['f2'], cfg['sk'])
    if k == 'defaultconj2':
        return '%s.convex_conj.convex_conj(default).proximal[%s]' % (cfg['name'],
                                                                      _space_kind(cfg['space']))
    if k == 'composition':
        return 'proximal_composition(%s)[%s]' % (cfg['name'], _space_kind(cfg['space']))
    if k == 'simple':
        return 'simple_functional%s.proximal[%s]' % ('.convex_conj' * cfg['level'],
                                                     _space_kind(cfg['space']))
    return k


def _space_kind(name):
    """Structure and weighting class of a space name (part of the site)."""
    st = ('power' if name.startswith('pw_') else 'product' if name.startswith('pr_')
          else 'nested' if name.startswith('nest_') else 'tensor')
    return st + ',' + _weight_kind(name)


def _weight_kind(name):
    if name in ('rn3', 'rn2', 'pw_rn2_2', 'nest_rn1_2x2', 'nest_rn2_2x2', 'rn3f32', 'rn2x2'):
        return 'unweighted'
    if name in ('rn3w2', 'rn2w2', 'pw_rn2w2_2', 'ud3', 'ud2', 'pw_ud2_2', 'pw_rn2_2_c', 'pw_rn2_1_c'):
        return 'const-weighted'
    return 'nonuniformly-weighted'


def _build(cfg):
    """-> (functional whose proximal is tested, info, ref closure, alphabet, tol)"""
    k = cfg['kind']
    if k == 'spec':
        spec = FR.BY_NAME[cfg['name']]
        info = FR.info(cfg['space'])
        f = spec.build(info.space, cfg['opt'])
        ref = spec.ref(info, cfg['opt'])
        V = spec.V
        if cfg['via'] == 'convex_conj.proximal':
            f = f.convex_conj
            ref = FR.conj_ref(info, cfg['name'], cfg['opt'])
            if ref is None:
                raise NotImplementedError('no documented conjugate')
            V = FR.V5
        return f, info, ref, V, spec.prox_tol
    if k == 'raw':
        from mc.props import c10
        info = FR.info(cfg['space'])
        fac = c10.RAW[cfg['name']][2](info.space, cfg['opt'])
        ref = RAWREF[cfg['name']](info, cfg['opt'])

        class _F(object):
            proximal = staticmethod(fac)

            def __call__(self, x):
                raise NotImplementedError
        tolr = 1e-6 if 'l2' in cfg['name'] or 'conj_l1' in cfg['name'] else 1e-9
        return _F(), info, ref, FR.V5, tolr
    if k in ('derived', 'derived2'):
        spec = FR.BY_NAME[cfg['name']]
        info = FR.info(cfg['space'])
        o = spec.opts[0]
        f = spec.build(info.space, o)
        ref = spec.ref(info, o)
        kinds = [cfg['der']] if k == 'derived' else cfg['der']
        for kd in kinds:
            d = DV.derive(kd, f, ref, None, info)
            f, ref = d['func'], d['ref']
        V = FR.V5 if not spec.posdom else [-2.0, 0.25, 0.5, 1.0, 3.0]
        return f, info, ref, V, max(spec.prox_tol, 1e-9)
    if k == 'sepsum':
        i2 = FR.info('rn2')
        s1, s2 = FR.BY_NAME[cfg['f1']], FR.BY_NAME[cfg['f2']]
        if cfg.get('same'):
            f = odl.solvers.SeparableSum(s1.build(i2.space, s1.opts[0]), 2)
        else:
            f = odl.solvers.SeparableSum(s1.build(i2.space, s1.opts[0]),
                                         s2.build(i2.space, s2.opts[0]))
        r1, r2 = s1.ref(i2, s1.opts[0]), s2.ref(i2, s2.opts[0])
        if cfg.get('pick'):
            parts = [(s1, r1), (s2, r2), (s1, r1)]
            f3 = odl.solvers.SeparableSum(*[sp_.build(i2.space, sp_.opts[0]) for sp_, _ in parts])
            pk = cfg['pick']
            if ':' in pk:
                idx = slice(*[int(t) if t else None for t in pk.split(':')])
                ra, rb = [r for _, r in parts[idx]]
                f = f3[idx]
                info = _PInfo(f.domain)
                return f, info, (lambda z: DV._add(ra(z[:2]), rb(z[2:]))), [-2.0, 0.0, 0.5, 3.0], 1e-6
            f = f3[int(pk)]
            return f, i2, parts[int(pk)][1], [-2.0, 0.0, 0.5, 3.0], 1e-6
        info = _PInfo(f.domain)
        ref = lambda z: DV._add(r1(z[:2]), r2(z[2:]))
        if cfg.get('scale'):
            sc = cfg['scale']
            f = sc * f
            ref0 = ref
            ref = lambda z: float(sc) * ref0(z)
        return f, info, ref, [-2.0, 0.0, 0.5, 3.0], 1e-6
    if k == 'simple':
        info = FR.info(cfg['space'])
        sp = info.space
        f = odl.solvers.simple_functional(
            sp, fcall=lambda x: x.inner(x), grad=lambda x: 2.0 * x,
            prox=lambda sig: odl.ScalingOperator(sp, 1.0 / (1.0 + 2.0 * sig)), grad_lip=2.0,
            convex_conj_fcall=lambda y: y.inner(y) / 4.0, convex_conj_grad=lambda y: 0.5 * y,
            convex_conj_prox=lambda sig: odl.ScalingOperator(sp, 1.0 / (1.0 + 0.5 * sig)),
            convex_conj_grad_lip=0.5)
        for _ in range(cfg['level']):
            f = f.convex_conj
        ref = ((lambda z: info.norm2(z)) if cfg['level'] % 2 == 0
               else (lambda y: info.norm2(y) / 4.0))
        return f, info, ref, FR.V5, 1e-9
    if k == 'defaultconj2':
        from odl.solvers.functional.functional import FunctionalDefaultConvexConjugate
        spec = FR.BY_NAME[cfg['name']]
        info = FR.info(cfg['space'])
        o = spec.opts[0]
        f0 = spec.build(info.space, o)
        # f** through two applications of the default (Moreau) conjugate: values of f
        f = FunctionalDefaultConvexConjugate(FunctionalDefaultConvexConjugate(f0))
        return f, info, spec.ref(info, o), spec.V, max(spec.prox_tol, 1e-8)
    if k == 'composition':
        spec = FR.BY_NAME[cfg['name']]
        info = FR.info(cfg['space'])
        o = spec.opts[0]
        f0 = spec.build(info.space, o)
        n = info.n
        if not _uniform(info):
            raise NotImplementedError('unitary operator needs a uniformly weighted space')
        P = np.zeros((n, n))
        for i in range(n):
            P[i, (i + 1) % n] = -1.0 if i == 0 else 1.0
        L = odl.MatrixOperator(P, domain=info.space, range=info.space)
        r0 = spec.ref(info, o)

        class _F(object):
            domain = info.space

            @staticmethod
            def proximal(sigma):
                from odl.solvers.nonsmooth.proximal_operators import proximal_composition
                return proximal_composition(f0.proximal, L, 1.0)(sigma)

            def __call__(self, x):
                return f0(L(x))
        return _F(), info, (lambda z: r0(P.dot(z))), spec.V, max(spec.prox_tol, 1e-9)
    raise KeyError(k)


def _gvec(info, o, pos=False):
    from mc.props import c10
    if not o.get('g'):
        return np.ones(info.n) if pos else np.zeros(info.n)
    return np.asarray(((c10._GP if pos else c10._G) * 4)[:info.n], float)


def _shifted(norm_ref_factory):
    def make(info, o):
        g, lam = _gvec(info, o), o['lam']
        base = norm_ref_factory(info)
        return lambda z: lam * base(np.asarray(z) - g)
    return make


def _conj_ball(ball_factory):
    # (lam ||. - g||)^*(y) = ind(||y||_* <= lam) + <y, g>_W
    def make(info, o):
        g, lam = _gvec(info, o), o['lam']
        ball = ball_factory(info)
        return lambda y: ball(np.asarray(y) / lam) + info.inner(y, g)
    return make


RAWREF = {
    'proximal_l1': _shifted(lambda i: FR.ref_lpnorm(i, 1)),
    'proximal_l2': _shifted(lambda i: FR.ref_lpnorm(i, 2)),
    'proximal_l2_squared': _shifted(lambda i: (lambda z: i.norm2(z))),
    'proximal_l1_l2': _shifted(lambda i: FR.ref_group_l1(i, 2)),
    'proximal_convex_conj_l1': _conj_ball(lambda i: FR.ref_ind_ball(i, INF)),
    'proximal_convex_conj_l2': _conj_ball(lambda i: FR.ref_ind_ball(i, 2.0)),
    'proximal_convex_conj_l1_l2': _conj_ball(lambda i: FR.ref_ind_group_ball(i, 2.0)),
    'proximal_convex_conj_l2_squared':
        lambda info, o: (lambda y: info.norm2(y) / (4.0 * o['lam'])
                         + info.inner(y, _gvec(info, o))),
    # (lam F)^*(p) = lam F^*(p / lam)
    'proximal_convex_conj_kl':
        lambda info, o: (lambda p, r=FR.ref_kl_cc(info, _gvec(info, o, True)):
                         o['lam'] * r(np.asarray(p) / o['lam'])),
    'proximal_convex_conj_kl_cross_entropy':
        lambda info, o: (lambda p, r=FR.ref_kl_ce_cc(info, _gvec(info, o, True)):
                         o['lam'] * r(np.asarray(p) / o['lam'])),
    'proximal_huber': lambda info, o: FR.ref_huber(info, o['gamma']),
    # factories that the Functional classes reach only with their default arguments (or not at all):
    # judged on their own with every documented form of the bounds
    'proximal_const_func': lambda info, o: (lambda z: 0.0),
    'proximal_nonnegativity': lambda info, o: FR.ref_box(info, 0.0, None),
    'proximal_box_constraint': lambda info, o: FR.ref_box(
        info,
        (np.resize([-1.0, -0.5, 0.0, -2.0], info.n) if o.get('lower') == 'elem' else o.get('lower')),
        (np.resize([0.5, 1.0, 2.0, 0.0], info.n) if o.get('upper') == 'elem' else o.get('upper'))),
}


def _uniform(info):
    return bool(np.all(info.w == info.w[0]))


class _PInfo(FR.Info):
    def __init__(self, space):
        self.name = 'adhoc'
        self.space = space
        self.n = S.flat_size(space)
        self.w = S.weights(space)
        self.ncomp = None
        self.nested = None


_LATTICE = {}


def _lattice(n):
    if n not in _LATTICE:
        if n <= 2:
            g = np.linspace(-4, 4, 33)
        elif n == 3:
            g = np.linspace(-4, 4, 17)
        elif n == 4:
            g = np.linspace(-4, 4, 9)
        else:
            g = None
        _LATTICE[n] = None if g is None else np.array(list(itertools.product(g, repeat=n)))
    return _LATTICE[n]


_DIRS = {}


def _dirs(n):
    if n not in _DIRS:
        if n <= 4:
            d = [np.array(t, float) for t in itertools.product([-1, 0, 1], repeat=n) if any(t)]
        else:
            d = []
            for i in range(n):
                for s in (1.0, -1.0):
                    e = np.zeros(n)
                    e[i] = s
                    d.append(e)
            for i, j in itertools.combinations(range(n), 2):
                for si, sj in itertools.product((1.0, -1.0), repeat=2):
                    e = np.zeros(n)
                    e[i], e[j] = si, sj
                    d.append(e)
        _DIRS[n] = d
    return _DIRS[n]


def _val(v):
    return v


def _ref_at_prox(ref, p):
    """Reference value at the point the library returned: the undecided band is feasible."""
    FR.BAND_FEASIBLE[0] = True
    try:
        return ref(p)
    finally:
        FR.BAND_FEASIBLE[0] = False


def run(cfg):
    site = _site(cfg)
    del DV.DATA[:]
    try:
        f, info, ref, V, ptol = _build(cfg)
        n = info.n
        if cfg['sk'] == 'elem':
            sig_arr = np.asarray((_SIG * 4)[:n])
            sigma = info.elem(sig_arr)
        elif cfg['sk'] in ('list', 'tuple', 'ndarray'):
            sigma = [cfg['sigma'], 2 * cfg['sigma']]
            sig_arr = np.array([sigma[0]] * 2 + [sigma[1]] * 2)
            if cfg['sk'] == 'tuple':
                sigma = tuple(sigma)
            elif cfg['sk'] == 'ndarray':
                sigma = np.array(sigma)
        else:
            sigma = cfg['sigma']
            sig_arr = np.full(n, float(sigma))
        prox = f.proximal(sigma)
    except NotImplementedError:
        return {'evals': 0, 'skipped': 1, 'trivial': True, 'sig': 'notimpl'}
    except Exception as e:
        if cfg['kind'] in ('derived', 'derived2') and _nonconvex_rejection(cfg, e):
            return {'evals': 1, 'sig': 'rejected-nonconvex'}
        return {'evals': 1, 'sig': 'build-raises',
                'viol': [{'site': site, 'symptom': 'construction_raises:' + type(e).__name__,
                          'detail': repr(e)[:300]}]}
    w = info.w
    weff = w / sig_arr                  # metric of the quadratic term, per entry
    alph = V if n <= 3 else ([V[0], V[len(V) // 2], V[-1]] if n == 4 else [V[0], V[-1]])
    if n > 4:
        alph = [-1.0, 2.0]
    Z = _lattice(n)
    FZ = None
    if Z is not None:
        FZ = np.array([_val(ref(z)) for z in Z])
    dirs = _dirs(n)
    first = {}
    layout = S.has_layout(info.space)
    X, P = [], []
    evals = 0
    sigs = set()
    for x in S.points(n, alph):
        try:
            pe = prox(info.elem(x))
            p = S.to_flat(pe).astype(float)
        except Exception as e:
            first.setdefault('raises:' + type(e).__name__, 'x=%s sigma=%s: %r'
                             % (x.tolist(), cfg['sigma'], e))
            evals += 1
            continue
        evals += 1
        if layout:
            # the same x wrapping a Fortran-ordered array (entry-wise code that flattens its
            # operands must not depend on the memory layout)
            try:
                pf = S.to_flat(prox(S.from_flat_F(info.space, x))).astype(float)
                evals += 1
                if not np.array_equal(pf, p, equal_nan=True):
                    first.setdefault('prox_depends_on_memory_layout_of_x',
                                     'x=%s sigma=%s: prox=%s for C-ordered x, %s for the same x '
                                     'wrapping a Fortran-ordered array'
                                     % (x.tolist(), cfg['sigma'], p.tolist(), pf.tolist()))
            except Exception as e:
                first.setdefault('raises_for_fortran_ordered_x:' + type(e).__name__,
                                 'x=%s: %r' % (x.tolist(), e))
        if not np.all(np.isfinite(p)):
            first.setdefault('prox_not_finite', 'x=%s sigma=%s prox=%s'
                             % (x.tolist(), cfg['sigma'], p.tolist()))
            continue
        fp = _ref_at_prox(ref, p)
        if not np.isfinite(fp):
            first.setdefault('prox_outside_domain', 'x=%s sigma=%s prox=%s has f=inf'
                             % (x.tolist(), cfg['sigma'], p.tolist()))
            continue
        try:
            fimpl = float(f(pe))
            if not np.isfinite(fimpl):
                first.setdefault('library_value_at_prox_infinite',
                                 'x=%s prox=%s f(prox)=%s reference=%s'
                                 % (x.tolist(), p.tolist(), fimpl, fp))
        except Exception:
            pass
        phi_p = fp + 0.5 * float(np.sum(weff * (p - x) ** 2))
        tol = ptol * (1.0 + abs(phi_p))
        best, bestz = phi_p, None
        if Z is not None:
            phi = FZ + 0.5 * ((Z - x) ** 2).dot(weff)
            k = int(np.argmin(phi))
            if phi[k] < best - tol:
                best, bestz = float(phi[k]), Z[k]
            # segment from p towards the best lattice point
            zk = Z[k]
            for t in (0.5, 0.25, 2.0 ** -4, 2.0 ** -8):
                z = p + t * (zk - p)
                v = _val(ref(z)) + 0.5 * float(np.sum(weff * (z - x) ** 2))
                if v < best - tol:
                    best, bestz = v, z
        for d in dirs:
            for s in SCALES:
                z = p + s * d
                v = _val(ref(z)) + 0.5 * float(np.sum(weff * (z - x) ** 2))
                if v < best - tol:
                    best, bestz = v, z
        if bestz is not None:
            first.setdefault('not_minimiser',
                             'x=%s sigma=%s prox=%s Phi(prox)=%.12g but z=%s has Phi=%.12g'
                             % (x.tolist(), sig_arr.tolist() if cfg['sk'] != 'scalar'
                                else cfg['sigma'], p.tolist(), phi_p,
                                np.asarray(bestz).tolist(), best))
        # indicator-like: idempotent
        if fp == 0.0 and _is_indicator(cfg):
            try:
                pp = S.to_flat(prox(info.elem(p))).astype(float)
                evals += 1
                if np.max(np.abs(pp - p)) > 1e-6 * (1 + np.max(np.abs(p))):
                    first.setdefault('projection_not_idempotent', 'x=%s prox=%s prox(prox)=%s'
                                     % (x.tolist(), p.tolist(), pp.tolist()))
            except Exception as e:
                first.setdefault('raises:' + type(e).__name__, 'idempotence at %s' % p.tolist())
        X.append(x)
        P.append(p)
        sigs.add(tuple(np.sign(np.round(p - x, 9)).astype(int)))
    # history clauses: the step handed to the factory is not modified; the operator applied again
    # to the first point, and a second operator made from the SAME step object, give the same
    # result as the first time
    if X:
        try:
            if cfg['sk'] == 'elem' and not np.array_equal(S.to_flat(sigma).astype(float), sig_arr):
                first.setdefault('step_element_modified',
                                 'the element sigma=%s handed to proximal() holds %s afterwards'
                                 % (sig_arr.tolist(), S.to_flat(sigma).tolist()))
            tolh = max(ptol, 1e-9)
            again = S.to_flat(prox(info.elem(X[0]))).astype(float)
            if not np.all(np.abs(again - P[0]) <= tolh * (1 + np.abs(P[0]))):
                first.setdefault('proximal_not_repeatable',
                                 'x=%s: prox(x)=%s at first, %s when applied again later'
                                 % (X[0].tolist(), P[0].tolist(), again.tolist()))
            prox2 = f.proximal(sigma)
            second = S.to_flat(prox2(info.elem(X[-1]))).astype(float)
            evals += 2
            if not np.all(np.abs(second - P[-1]) <= tolh * (1 + np.abs(P[-1]))):
                first.setdefault('second_operator_from_same_step_differs',
                                 'x=%s: prox(x)=%s, but a second operator made from the same sigma '
                                 'object gives %s' % (X[-1].tolist(), P[-1].tolist(), second.tolist()))
        except Exception as e:
            first.setdefault('history_raises:' + type(e).__name__, repr(e)[:200])
        # the caller overwrites, in place, the elements it handed to the combinators (translation,
        # linear term, Bregman point / subgradient, multiplicand).  Whether the functional follows
        # that or keeps private copies is its business; but if its VALUES did not move, neither
        # may its proximal - the operator obtained before and one requested afterwards.
        data = [g for g in DV.DATA if hasattr(g, 'space')]
        if data and hasattr(f, 'proximal'):
            try:
                probe = [X[0], X[-1]] + [P[0], P[-1]]
                v0 = [float(f(info.elem(z))) for z in probe]
                for g in data:
                    g *= 2
                v1 = [float(f(info.elem(z))) for z in probe]
                evals += 2 * len(probe)
                if all((a == b) or (np.isnan(a) and np.isnan(b)) for a, b in zip(v0, v1)):
                    for what, op in (('obtained before', prox),
                                     ('requested afterwards', f.proximal(sigma))):
                        for x0, p0 in ((X[0], P[0]), (X[-1], P[-1])):
                            q = S.to_flat(op(info.elem(x0))).astype(float)
                            evals += 1
                            if not np.all(np.abs(q - p0) <= tolh * (1 + np.abs(p0))):
                                first.setdefault(
                                    'proximal_moved_but_values_did_not_after_data_element_was_modified',
                                    'after the %d data element(s) of the functional were doubled in '
                                    'place its values at the probe points are unchanged, but the '
                                    'proximal %s maps x=%s to %s instead of %s'
                                    % (len(data), what, x0.tolist(), q.tolist(), p0.tolist()))
            except Exception as e:
                first.setdefault('history_raises:' + type(e).__name__, repr(e)[:200])
    # firm non-expansiveness on all pairs, in the metric of the quadratic term
    if len(X) > 1:
        X = np.array(X)
        P = np.array(P)
        dX = X[:, None, :] - X[None, :, :]
        dP = P[:, None, :] - P[None, :, :]
        lhs = np.sum(weff * dP * dX, axis=2)
        rhs = np.sum(weff * dP * dP, axis=2)
        bad = lhs < rhs - max(ptol, 1e-9) * (1 + rhs)
        evals += X.shape[0] ** 2
        if bad.any():
            i, j = np.argwhere(bad)[0]
            first.setdefault('not_firmly_nonexpansive',
                             'x=%s y=%s prox(x)=%s prox(y)=%s <dp,dx>=%.12g < |dp|^2=%.12g'
                             % (X[i].tolist(), X[j].tolist(), P[i].tolist(), P[j].tolist(),
                                lhs[i, j], rhs[i, j]))
    viol = [{'site': site, 'symptom': s, 'detail': d} for s, d in first.items()]
    return {'evals': evals, 'viol': viol,
            'sig': '%s:%d' % (site.split('[')[0], len(sigs)), 'trivial': evals == 0}


def _is_indicator(cfg):
    nm = cfg.get('name', '')
    if cfg['kind'] != 'spec':
        return False
    if cfg['via'] == 'proximal':
        return nm.startswith('Indicator')
    return nm in ('L1Norm', 'L2Norm', 'LpNorm', 'GroupL1Norm', 'NuclearNorm',
                  'ConstantFunctional', 'ZeroFunctional')


def _nonconvex_rejection(cfg, e):
    """A documented, explicit refusal: FunctionalLeftScalarMult.proximal raises ValueError
    ('... scaled with a negative value ... is not well-defined') for every negative scalar, also
    where the scaled functional happens to be convex (-0.5 * ZeroFunctional, reached through the
    rewrite of f(a x) for linear f).  C07 speaks about the operator proximal() returns, not about
    which functionals get one: a clean refusal is not judged."""
    return isinstance(e, ValueError) and 'not well-defined' in str(e)


def trace_functions():
    from odl.solvers.nonsmooth import proximal_operators as PO
    return [PO.proj_l1, PO.proj_simplex, PO.proximal_arg_scaling,
            PO.proximal_quadratic_perturbation]


def meta(tier):
    return {
        'rule': 'state = functional (class x options | derived by translation, scaling, argument '
                'scaling incl. negative and zero, quadratic perturbation, scalar sum, Bregman, '
                'separable sum, default conjugate, unitary composition; depth 2) x space x sigma; '
                'inside a state every x in V^n (small scope) is sent through the real proximal and '
                'Phi(prox) is compared with Phi on the whole lattice G^n, on 3^n-1 directions x 4 '
                'scales and on the segment to the best lattice point; firm non-expansiveness on '
                'all pairs. History inside a state: step element unmodified, prox applied again, a '
                'second operator from the same step object, and - after the data elements of the '
                'functional were doubled in place - values unchanged => proximal unchanged. '
                'distinct = (site, number of distinct sign patterns of prox(x)-x)',
        'bounds': {'V': FR.V5, 'lattice': '33^n (n<=2), 17^3, 9^4 on [-4,4]',
                   'scales': SCALES, 'sigma': [0.5, 2.0] if tier == 'quick' else
                   [0.5, 2.0, 1.0, 8.0]},
        'assumptions': ['reference values f_ref are the documented formulas evaluated with the '
                        'weights measured from the space inner product (validated by C02)',
                        'a minimiser is certified up to lattice/probe resolution; tolerance '
                        '1e-9 (1e-6 where the library documents an epsilon shrink)'],
    }
