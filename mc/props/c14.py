"""C14 - partitions tile their domain: cells, nodes, indices and slices stay consistent.

Exploration (configuration space + depth-2 history): a state is one base partition
(uniform / non-uniform / product of pool partitions) together with one family of checks
('routes' | 'points' | 'getitem' | 'ops').  Inside a state *every* element of the inner alphabet
is executed: every construction route, every point of the per-axis point set, every index
expression (and, from every distinct child partition, a second round: depth 2).

Oracle: the reference model ``mc.ref.partition_ref`` (exact rational arithmetic, midpoint rule
written down directly) + the invariants of the property statement evaluated on every partition
reached.
"""
import itertools
import math
import numbers
from fractions import Fraction as Fr

import numpy as np
import odl
from odl.discr import partition as OP
from odl.discr import grid as OG
from odl.util import normalize as ON

from mc.ref import partition_ref as R

PROPERTY = 'C14'
BUDGET = {'quick': 1500, 'thorough': 3600}

PRODUCT_CAP = 300     # larger point products are visited as a star (axes are independent)
RTOL = 1e-12          # tolerance (times max(1, magnitude)) where the arithmetic is not exact

LIMITS = [[0.0, 1.0], [-1.0, 2.5], [0.25, 0.75]]
SHAPES = [2, 3, 1, 5]
FLAGS = [[0, 0], [1, 1], [1, 0], [0, 1]]
VECS = [[0.0, 1.0, 3.0], [1.0], [0.0, 1.0], [-1.0, 0.0, 0.5, 2.5],
        [0.0, 0.25, 1.0, 1.5, 4.0], [-2.0, -1.5, 0.0, 0.5, 1.0, 3.0]]
OFFS = [0.0, 0.25, 1.0]

# Magnitude regimes: every axis of the limit / coordinate-vector alphabets is also visited under
# the affine image x -> scale * x + offset, so that the partition lies far from the origin
# compared with its stride (|x| / stride ~ 1e9 .. 1e10: the rounding of the nodes, ~ulp(|x|),
# exceeds any fixed absolute tolerance while staying far below the stride), has a tiny extent
# (every length lies below a fixed absolute tolerance) or a huge one.  The property is
# quantified over all domain limits; the oracle is the same, with the tolerance proportional to
# the magnitude of the coordinates (rule 3).
REGIMES = {           # name: (scale, offset, class)
    'far+': (1.0, 1e9, 'far'),
    'far-': (1.0, -3e8, 'far'),
    'tiny': (1e-9, 0.0, 'tiny'),
    'huge': (1e9, 0.0, 'huge'),
}
REG_ORDER = ['far+', 'far-', 'tiny', 'huge']
REG_SHAPES = SHAPES + [7]      # 7: a stride that is not a binary fraction for every limit pair

_STATE = {'unit': 1.0, 'regime': False}     # set at the beginning of run() from the config only


def _tr(v, reg):
    """Image of a number of the standard alphabet under the regime (float arithmetic: the
    request IS the resulting float)."""
    if reg is None:
        return float(v)
    s, o, _ = REGIMES[reg]
    return float(s * v + o)


def _unit_of(regs):
    """Length unit of a state: the magnitude of the coordinates (image of 1), the largest over
    the axes; 1 for the standard alphabet."""
    u = None
    for r in (regs or [None]):
        ur = 1.0 if r is None else abs(REGIMES[r][1]) + REGIMES[r][0]
        u = ur if u is None else max(u, ur)
    return u


def _suffix_of(regs):
    cl = sorted(set(REGIMES[r][2] for r in (regs or []) if r is not None))
    return ('@' + '+'.join(cl)) if cl else ''


# ------------------------------------------------------------------------------------------
# small helpers

class Viol(object):
    """Collects the first failing inner case per (site, symptom)."""

    def __init__(self, suffix=''):
        self.first = {}
        self.evals = 0
        self.skipped = 0
        self.sigs = set()
        self.suffix = suffix      # magnitude regime class of the state, part of every site

    def add(self, site, symptom, detail):
        self.first.setdefault((site + self.suffix, symptom), str(detail)[:900])

    def result(self, trivial=False, sample=None):
        out = {'evals': self.evals, 'skipped': self.skipped,
               'viol': [{'site': s, 'symptom': y, 'detail': d}
                        for (s, y), d in sorted(self.first.items())],
               'sig': sorted(self.sigs) or ['none'], 'trivial': trivial or self.evals == 0}
        if sample is not None:
            out['sample'] = sample
        return out


def _fl(seq):
    return [float(v) for v in seq]


def _tol(*vals):
    m = _STATE['unit']
    for v in vals:
        a = np.max(np.abs(np.asarray(v, dtype=float))) if np.size(v) else 0.0
        m = max(m, float(a))
    return RTOL * m


def _close(a, b):
    a = np.asarray(a, dtype=float)
    b = np.asarray(b, dtype=float)
    return a.shape == b.shape and bool(np.all(np.abs(a - b) <= _tol(a, b)))


def _cond(x, b):
    """Conditioning of a dimensionless ratio of coordinate differences (cell fraction,
    fractional index): magnitude of the coordinates over the smallest positive cell width /
    node distance.  Only used in the magnitude regimes (0 otherwise: the standard alphabet is
    judged with the plain 1e-12)."""
    if not _STATE['regime']:
        return 0.0
    x = np.asarray(x, dtype=float)
    b = np.asarray(b, dtype=float)
    d = np.concatenate([np.diff(x), np.diff(b)])
    d = d[d > 0]
    if not d.size:
        return 0.0
    return float(max(np.max(np.abs(x)), np.max(np.abs(b))) / np.min(d))


def _close_ratio(a, b, cond):
    a = np.asarray(a, dtype=float)
    b = np.asarray(b, dtype=float)
    m = max(1.0, cond, float(np.max(np.abs(a))), float(np.max(np.abs(b))))
    return a.shape == b.shape and bool(np.all(np.abs(a - b) <= RTOL * m))


def _same(a, b, exact):
    a = np.asarray(a, dtype=float)
    b = np.asarray(b, dtype=float)
    if exact:
        return a.shape == b.shape and bool(np.array_equal(a, b))
    return _close(a, b)


def ref_dyadic(ref):
    return all(a.dyadic() for a in ref)


def ref_key(ref):
    return tuple(a.key() for a in ref)


def ref_from_impl(p):
    """Exact rational image of an implementation partition (limits and nodes only)."""
    return [R.Ax(Fr(float(lo)), Fr(float(hi)), [Fr(float(x)) for x in vec])
            for lo, hi, vec in zip(p.min_pt, p.max_pt, p.coord_vectors)]


def describe(ref):
    return '; '.join('[%s,%s] nodes %s' % (float(a.lo), float(a.hi), _fl(a.nodes)) for a in ref)


# ------------------------------------------------------------------------------------------
# comparison of an implementation partition with a reference partition

def compare(p, ref, exact, site, V, what=''):
    """Limits, nodes and cell boundaries of ``p`` against the reference ``ref``."""
    V.evals += 1
    if not isinstance(p, odl.RectPartition):
        V.add(site, 'not_a_partition', '%s: got %r' % (what, type(p)))
        return False
    if p.ndim != len(ref) or tuple(p.shape) != tuple(a.n for a in ref):
        V.add(site, 'shape_differs', '%s: expected shape %s, got ndim=%s shape=%s'
              % (what, tuple(a.n for a in ref), p.ndim, p.shape))
        return False
    ok = True
    for ax, a in enumerate(ref):
        e_nodes, e_b = _fl(a.nodes), _fl(a.bdry)
        g_nodes = p.coord_vectors[ax]
        g_b = p.cell_boundary_vecs[ax]
        if not _same(g_nodes, e_nodes, exact):
            V.add(site, 'nodes_differ', '%s: axis %d expected nodes %s, got %s (reference %s)'
                  % (what, ax, e_nodes, g_nodes.tolist(), describe(ref)))
            ok = False
        if not (_same(p.min_pt[ax], float(a.lo), exact)
                and _same(p.max_pt[ax], float(a.hi), exact)):
            V.add(site, 'limits_differ', '%s: axis %d expected [%s, %s], got [%s, %s]'
                  % (what, ax, float(a.lo), float(a.hi), p.min_pt[ax], p.max_pt[ax]))
            ok = False
        elif not _same(g_b, e_b, exact):
            V.add(site, 'cell_boundaries_differ', '%s: axis %d expected boundaries %s, got %s'
                  % (what, ax, e_b, np.asarray(g_b).tolist()))
            ok = False
    return ok


def compress_nob(byaxis):
    """Documented compact form of nodes_on_bdry (docstring examples of the property)."""
    if not byaxis:
        return True
    per = [l if l == r else (l, r) for l, r in byaxis]
    return per[0] if all(q == per[0] for q in per[1:]) else tuple(per)


def invariants(p, site, V, what='', uniform_dx=None):
    """The clauses of the statement, evaluated on the implementation's own outputs.

    ``uniform_dx``: per-axis requested cell side (or None) for partitions built as uniform."""
    V.evals += 1
    try:
        _invariants(p, site, V, what, uniform_dx)
    except Exception as e:       # noqa
        V.add(site, 'raises:' + type(e).__name__, '%s: attribute access failed: %r' % (what, e))


def _invariants(p, site, V, what, uniform_dx):
    nd = p.ndim
    bvecs = p.cell_boundary_vecs
    cvecs = p.coord_vectors
    if len(bvecs) != nd or len(cvecs) != nd:
        V.add(site, 'vector_count', what)
        return
    sizes = p.cell_sizes_vecs
    fracs = p.boundary_cell_fractions
    nob = p.nodes_on_bdry_byaxis
    if nd and (p.size != int(np.prod(p.shape)) or len(p) != p.shape[0]):
        V.add(site, 'size_len', '%s: shape %s size %s len %s' % (what, p.shape, p.size, len(p)))
    for ax in range(nd):
        b = np.asarray(bvecs[ax], dtype=float)
        x = np.asarray(cvecs[ax], dtype=float)
        n = len(x)
        lo, hi = float(p.min_pt[ax]), float(p.max_pt[ax])
        tag = '%s: axis %d nodes %s limits [%s, %s] boundaries %s' % (what, ax, x.tolist(), lo, hi,
                                                                      b.tolist())
        if len(b) != n + 1 or p.shape[ax] != n:
            V.add(site, 'boundary_count', tag)
            continue
        # start and end exactly at the domain limits
        if b[0] != lo or b[-1] != hi or p.set.min_pt[ax] != lo or p.set.max_pt[ax] != hi:
            V.add(site, 'ends_not_at_limits', tag)
        # strictly increasing.  Documented exception (nonuniform_partition docstring):
        # "Partitions with a single element are by default degenerate" -> [x, x]
        degenerate = (n == 1 and lo == hi)
        if not degenerate and not np.all(np.diff(b) > 0):
            V.add(site, 'boundaries_not_increasing', tag)
        # each grid point lies in its own cell
        if not (np.all(b[:-1] <= x) and np.all(x <= b[1:])):
            V.add(site, 'node_outside_its_cell', tag)
        # midpoint rule (class docstring); one correctly rounded operation -> exact
        mids = [float((Fr(x[i]) + Fr(x[i + 1])) / 2) for i in range(n - 1)]
        if not np.array_equal(b[1:-1], mids):
            V.add(site, 'inner_boundary_not_midpoint', tag)
        # cell sizes sum to the extent
        ext = float(p.extent[ax])
        if not _close(ext, hi - lo):
            V.add(site, 'extent_differs', tag + ' extent %s' % ext)
        if abs(math.fsum(np.diff(b)) - (hi - lo)) > _tol(lo, hi):
            V.add(site, 'sizes_do_not_sum_to_extent', tag)
        s = np.asarray(sizes[ax], dtype=float)
        if len(s) != n:
            V.add(site, 'cell_sizes_length', tag + ' cell_sizes %s' % s.tolist())
        elif n >= 2:
            if not _close(s, np.diff(b)):
                V.add(site, 'cell_sizes_differ', tag + ' cell_sizes %s' % s.tolist())
        else:
            # cell_sizes_vecs docstring: "For axes with 1 grid point, cell size is set to 0.0."
            if s[0] != 0.0:
                V.add(site, 'cell_sizes_1pt_not_zero', tag + ' cell_sizes %s' % s.tolist())
        # boundary cell fractions: part of the natural outer cell [x0-d/2, x0+d/2] inside
        if n >= 2:
            d0 = Fr(x[1]) - Fr(x[0])
            d1 = Fr(x[-1]) - Fr(x[-2])
            fl = float((Fr(x[0]) + d0 / 2 - Fr(lo)) / d0)
            frr = float((Fr(hi) - (Fr(x[-1]) - d1 / 2)) / d1)
            got = (float(fracs[ax][0]), float(fracs[ax][1]))
            if not (_close_ratio(got, (fl, frr), _cond(x, b)) if _STATE['regime']
                    else _close(got, (fl, frr))):
                V.add(site, 'boundary_cell_fractions_differ',
                      tag + ' expected %s got %s' % ((fl, frr), got))
        # nodes on boundary
        want = (bool(x[0] == lo), bool(x[-1] == hi))
        if tuple(bool(v) for v in nob[ax]) != want:
            V.add(site, 'nodes_on_bdry_differs', tag + ' expected %s got %s' % (want, nob[ax]))
    if compress_nob([tuple(bool(v) for v in t) for t in nob]) != p.nodes_on_bdry:
        V.add(site, 'nodes_on_bdry_compact_form', '%s: byaxis %s compact %r'
              % (what, nob, p.nodes_on_bdry))
    # uniform partitions: cell side times cell count reproduces the extent
    ref = ref_from_impl(p)
    # A partition is uniform if it was BUILT as uniform (``uniform_dx`` given: uniform_partition
    # "Return a partition with equally sized cells", and the same nodes handed to the other
    # factories) or if its nodes are exactly equispaced.  In the first case the nodes carry the
    # rounding of the construction (~ulp of the coordinates), which is_uniform has to tolerate
    # wherever the domain lies; the node distance is then taken as (x[-1] - x[0]) / (n - 1).
    if nd and (uniform_dx is not None or all(a.uniform for a in ref)):
        if not p.is_uniform:
            V.add(site, 'is_uniform_false', '%s: %s' % (what, describe(ref)))
        else:
            sides = np.asarray(p.cell_sides, dtype=float)
            for ax, a in enumerate(ref):
                n = a.n
                if n >= 2:
                    rstep = (a.nodes[-1] - a.nodes[0]) / (n - 1)    # == x[1]-x[0] if equispaced
                    step = float(rstep)
                    cells = (n - 1) + float((a.nodes[0] - a.lo) / rstep) \
                        + float((a.hi - a.nodes[-1]) / rstep)
                    if not _close(sides[ax], step) or not _close(sides[ax] * cells,
                                                                   float(a.hi - a.lo)):
                        V.add(site, 'cell_sides_differ', '%s: axis %d %s cell_sides %s'
                              % (what, ax, a, sides.tolist()))
                    if uniform_dx is not None and uniform_dx[ax] is not None and \
                            not _close(sides[ax], float(uniform_dx[ax])):
                        V.add(site, 'cell_sides_not_requested', '%s: axis %d requested %s got %s'
                              % (what, ax, float(uniform_dx[ax]), sides[ax]))
                elif a.on_bdry == (False, False) or a.lo == a.hi:
                    # one cell: its side is the extent.  (One node sitting on one boundary:
                    # `cell_sides` docstring speaks of 'inner' cells only -> unspecified.)
                    if not _close(sides[ax], float(a.hi - a.lo)):
                        V.add(site, 'cell_sides_differ', '%s: axis %d %s cell_sides %s'
                              % (what, ax, a, sides.tolist()))
                else:
                    V.skipped += 1
            if all(a.n >= 2 for a in ref) and not _close(p.cell_volume, float(np.prod(sides))):
                V.add(site, 'cell_volume_differs', what)
    elif nd and p.is_uniform:
        # nodes not equispaced and not requested as uniform, yet "uniform" for the library
        # (within its tolerance): C14 does not say which deviation is_uniform may forgive ->
        # counted and visible in the signatures, not judged
        V.skipped += 1
        V.sigs.add('claims-uniform:nodes-not-equispaced')


# ------------------------------------------------------------------------------------------
# point location

def axis_points(b, x, near=True):
    """Per-axis point set: every cell boundary, node, cell midpoint and quarter point, and
    (``near``) the neighbours of every boundary: one ulp, 1e-9 and 1e-6*max(1,|b|) on either
    side (inside the domain) -- closer than any tolerance a comparison might use."""
    pts = set(float(v) for v in b) | set(float(v) for v in x)
    for i in range(len(b) - 1):
        w = b[i + 1] - b[i]
        for q in (0.25, 0.5, 0.75):
            pts.add(float(b[i] + q * w))
    if near:
        for i, v in enumerate(b):
            v = float(v)
            d6 = 1e-6 * max(1.0, abs(v))
            pts.update([float(np.nextafter(v, -np.inf)), float(np.nextafter(v, np.inf)),
                        v - 1e-9, v + 1e-9, v - d6, v + d6])
            # the same relative to the adjacent cells (whatever the magnitude of the partition)
            ws = [float(b[j + 1] - b[j]) for j in (i - 1, i)
                  if 0 <= j < len(b) - 1 and b[j + 1] > b[j]]
            if ws:
                w = min(ws)
                pts.update([v - 1e-9 * w, v + 1e-9 * w, v - 1e-6 * w, v + 1e-6 * w])
    lo, hi = float(b[0]), float(b[-1])
    return sorted(v for v in pts if lo <= v <= hi)


def _operand_forms(pt, nd):
    """Other spellings of a point (index docstring: "value : ``self.set`` element", i.e. a
    real number in 1d -- sequences of length 1 are not documented there and not enumerated --
    and an array-like of length ndim otherwise)."""
    if nd == 1:
        v = pt[0]
        out = [('numpy.float64', np.float64(v))]
        if float(v).is_integer() and abs(v) < 2 ** 53:
            out.append(('int', int(v)))
        return out
    return [('tuple', tuple(pt)), ('ndarray', np.array(pt)),
            ('list of numpy.float64', [np.float64(v) for v in pt])]


def check_points(p, site, V, what='', star=False, near=True, forms=False):
    """index(pt) and index(pt, floating=True) for the product of the per-axis point sets
    (``star``: one axis varies over its full set while the others sit on 3 positions).
    ``forms``: at the boundaries, nodes, midpoints and quarter points the point is also handed
    over in its other spellings; the result must not depend on the spelling."""
    nd = p.ndim
    if nd == 0:
        return
    coarse = None
    if forms:
        coarse = [set(axis_points(np.asarray(b, dtype=float), x, near=False))
                  for b, x in zip(p.cell_boundary_vecs, p.coord_vectors)]
    bs = [np.asarray(v, dtype=float) for v in p.cell_boundary_vecs]
    frb = [[Fr(float(v)) for v in b] for b in bs]
    sets = [axis_points(b, x, near=near) for b, x in zip(bs, p.coord_vectors)]
    conds = [_cond(x, b) for b, x in zip(bs, p.coord_vectors)]
    if nd > 1 and int(np.prod([len(q) for q in sets])) > PRODUCT_CAP:
        star = True
    if star and nd > 1:
        small = [sorted(set([s[0], s[len(s) // 2], s[-1]])) for s in sets]
        combos = set()
        for ax in range(nd):
            for t in itertools.product(*[sets[k] if k == ax else small[k] for k in range(nd)]):
                combos.add(t)
        combos = sorted(combos)
    else:
        combos = list(itertools.product(*sets))
    for pt in combos:
        arg = pt[0] if nd == 1 else list(pt)
        for floating in (False, True):
            V.evals += 1
            tag = '%s: limits %s..%s boundaries %s point %s floating=%s' % (
                what, p.min_pt.tolist(), p.max_pt.tolist(), [b.tolist() for b in bs], arg,
                floating)
            try:
                r = p.index(arg, floating=floating)
            except Exception as e:       # noqa
                V.add(site, 'raises:' + type(e).__name__, tag + ': %r' % (e,))
                continue
            if coarse is not None and all(pt[k] in coarse[k] for k in range(nd)):
                for fname, alt in _operand_forms(pt, nd):
                    V.evals += 1
                    try:
                        r2 = p.index(alt, floating=floating)
                    except Exception as e:       # noqa
                        V.add(site + '[operand forms]', 'raises:' + type(e).__name__,
                              tag + ' given as %s: %r' % (fname, e))
                        continue
                    if not (type(r2) is type(r) and r2 == r):
                        V.add(site + '[operand forms]', 'index_depends_on_operand_type',
                              tag + ': %r, given as %s: %r' % (r, fname, r2))
            if nd == 1:
                if isinstance(r, tuple):
                    V.add(site, 'index_result_type', tag + ' got %r' % (r,))
                    continue
                rs = (r,)
            else:
                if not isinstance(r, tuple) or len(r) != nd:
                    V.add(site, 'index_result_type', tag + ' got %r' % (r,))
                    continue
                rs = r
            for ax in range(nd):
                b, v, ri = bs[ax], pt[ax], rs[ax]
                if floating:
                    if not isinstance(ri, numbers.Real) or isinstance(ri, numbers.Integral):
                        V.add(site, 'index_result_type', tag + ' got %r' % (r,))
                        break
                    flo, fhi = R.float_index(frb[ax], Fr(v))
                    t = RTOL * max(1.0, len(b), conds[ax])
                    if not (float(flo) - t <= float(ri) <= float(fhi) + t):
                        V.add(site, 'fractional_index_differs',
                              tag + ' axis %d expected %s got %r' % (ax, float(flo), ri))
                        break
                else:
                    if not isinstance(ri, numbers.Integral):
                        V.add(site, 'index_result_type', tag + ' got %r' % (r,))
                        break
                    if not (0 <= ri < len(b) - 1 and b[ri] <= v <= b[ri + 1]):
                        V.add(site, 'index_cell_does_not_contain_point',
                              tag + ' axis %d got cell %r' % (ax, ri))
                        break
            else:
                if not floating:
                    # documented use: "These indices work with indexing, extracting the voxel
                    # in which the point lies"
                    V.evals += 1
                    try:
                        cell = p[r]
                        if not (tuple(cell.shape) == (1,) * nd and
                                all(cell.min_pt[k] <= pt[k] <= cell.max_pt[k]
                                    for k in range(nd))):
                            V.add(site, 'voxel_of_index_does_not_contain_point',
                                  tag + ' p[p.index(pt)] = %r' % (cell,))
                    except Exception as e:       # noqa
                        V.add(site, 'raises:' + type(e).__name__,
                              tag + ' p[p.index(pt)]: %r' % (e,))


# ------------------------------------------------------------------------------------------
# index expressions

SL_ENDS = [None, 0, 1, -1, 'n']
SL_STEPS = [None, 1, 2, 3]


def _enc(idx):
    """printable form of an index expression"""
    if isinstance(idx, tuple):
        return '(' + ', '.join(_enc(i) for i in idx) + (',)' if len(idx) == 1 else ')')
    if isinstance(idx, slice):
        f = lambda v: '' if v is None else str(v)      # noqa
        return f(idx.start) + ':' + f(idx.stop) + ('' if idx.step is None else ':' + f(idx.step))
    if idx is Ellipsis:
        return '...'
    return repr(idx)


def axis_alphabet(n, full=True, tiny=False):
    """ints (both signs) and slices of one axis of length n; admissible ones only."""
    out = list(range(n)) + list(range(-n, 0))
    if tiny:
        out = [slice(None), 0, slice(1, None)]
    elif not full:
        cand = [slice(None), slice(None, None, 2), slice(1, None), slice(None, -1)]
        out = [0, -1] + cand
    else:
        cand = []
        for a in SL_ENDS:
            for b in SL_ENDS:
                for s in SL_STEPS:
                    cand.append(slice(n if a == 'n' else a, n if b == 'n' else b, s))
        out = out + cand
    res, seen = [], set()
    for idx in out:
        k = _enc(idx)
        if k in seen:
            continue
        seen.add(k)
        try:
            R._axis_sel(idx, n)
        except R.Inadmissible:
            continue
        res.append(idx)
    return res


def index_exprs(shape, full=True, lists=True):
    """The index alphabet for a partition of the given shape."""
    nd = len(shape)
    out = []
    small = [axis_alphabet(n, full=False, tiny=(nd >= 3)) for n in shape]
    big = [axis_alphabet(n, full=full) for n in shape]
    if nd == 1:
        for i in big[0]:
            out.append(i)
        for i in small[0]:
            out += [(i,), (i, Ellipsis), (Ellipsis, i)]
        out += [Ellipsis, (Ellipsis,)]
    else:
        # one axis runs over its full alphabet, the others over the small one
        seen = set()
        for ax in range(nd):
            for t in itertools.product(*[big[k] if k == ax else small[k] for k in range(nd)]):
                k = _enc(t)
                if k not in seen:
                    seen.add(k)
                    out.append(t)
        # bare (non-tuple) indices and short tuples: filled up from the right
        out += list(big[0])
        for k in range(1, nd):
            for t in itertools.product(*small[:k]):
                out.append(t)
                # Ellipsis at every position of a shorter tuple
                for pos in range(k + 1):
                    out.append(t[:pos] + (Ellipsis,) + t[pos:])
        # Ellipsis standing for zero axes and tail entries after an Ellipsis
        for k in range(1, nd + 1):
            for t in itertools.product(*small[nd - k:]):
                out.append((Ellipsis,) + t)
        t0 = tuple(s[0] for s in small)
        for pos in range(nd + 1):
            out.append(t0[:pos] + (Ellipsis,) + t0[pos:])
        out += [Ellipsis, (Ellipsis,)]
    res, seen = [], set()
    for idx in out:
        k = _enc(idx)
        if k not in seen:
            seen.add(k)
            res.append(idx)
    if lists:
        n = shape[0]
        for r in range(1, n + 1):
            for sub in itertools.combinations(range(n), r):
                res.append(list(sub))
        # negative entries
        for r in (1, 2):
            for sub in itertools.combinations(range(-n, 0), r):
                res.append(list(sub))
    return res


def check_child(parent, pref, idx, site, V, what):
    """Execute parent[idx], compare with the reference selection.  -> (child, child_ref)|None"""
    try:
        if isinstance(idx, list):
            cref, contig = R.getitem_list(pref, idx)
        else:
            cref, contig = R.getitem(pref, idx)
    except R.Inadmissible:
        return None
    class _Tag(object):
        def __add__(self, other):
            return '%s: parent {%s}[%s]' % (what, describe(pref), _enc(idx)) + other
    tag = _Tag()
    V.evals += 1
    try:
        child = parent[idx]
    except Exception as e:       # noqa
        V.add(site, 'raises:' + type(e).__name__, tag + ': %r' % (e,))
        return None
    if not isinstance(child, odl.RectPartition):
        V.add(site, 'not_a_partition', tag + ' got %r' % (child,))
        return None
    if child.ndim != len(cref) or tuple(child.shape) != tuple(a.n for a in cref):
        V.add(site, 'selection_shape_differs', tag + ' expected shape %s got %s'
              % (tuple(a.n for a in cref), child.shape))
        return None
    ok = True
    for ax, (a, c) in enumerate(zip(cref, contig)):
        if not np.array_equal(child.coord_vectors[ax], _fl(a.nodes)):
            V.add(site, 'selected_nodes_differ', tag + ' axis %d expected nodes %s got %s'
                  % (ax, _fl(a.nodes), child.coord_vectors[ax].tolist()))
            ok = False
            continue
        got_lim = (float(child.min_pt[ax]), float(child.max_pt[ax]))
        if isinstance(idx, list) and not c:
            # a non-contiguous index list: nothing in the documentation fixes the hull; only
            # containment of the nodes is demanded (by the tiling invariants); adopt the hull
            V.skipped += 1
            if not (got_lim[0] <= a.nodes[0] and a.nodes[-1] <= got_lim[1]):
                V.add(site, 'selected_nodes_outside_hull', tag + ' limits %s' % (got_lim,))
                ok = False
            cref[ax] = R.Ax(Fr(got_lim[0]), Fr(got_lim[1]), a.nodes)
            continue
        if got_lim != (float(a.lo), float(a.hi)):
            # contiguous: the cells are exactly the selected cells; strided: __getitem__
            # docstring, `partition[::2]` keeps the hull of start:stop
            V.add(site, 'selection_hull_differs' if not c else 'selected_cells_differ',
                  tag + ' axis %d expected limits [%s, %s] got %s'
                  % (ax, float(a.lo), float(a.hi), got_lim))
            ok = False
        elif c and not np.array_equal(child.cell_boundary_vecs[ax], _fl(a.bdry)):
            V.add(site, 'selected_cells_differ', tag + ' axis %d expected boundaries %s got %s'
                  % (ax, _fl(a.bdry), child.cell_boundary_vecs[ax].tolist()))
            ok = False
    return (child, cref) if ok else None


def _gsite(base_site, idx):
    kind = 'list' if isinstance(idx, list) else 'index'
    return '%s.__getitem__[%s]' % (base_site, kind)


def explore_getitem(p, pref, base_site, V, full2=False, points_star=True):
    """Depth 2: every index expression on the base partition; every distinct child gets the
    invariants, the point-location check and a second round of index expressions
    (``full2``: the full alphabet again, else the reduced one); every distinct grandchild
    gets the invariants."""
    children = {}
    for idx in index_exprs(p.shape, full=True):
        site = _gsite(base_site, idx)
        r = check_child(p, pref, idx, site, V, 'depth 1')
        if r is None:
            continue
        child, cref = r
        k = ref_key(cref)
        if k not in children:
            children[k] = (child, cref, idx)
        else:
            # the same selection written differently must be the same partition
            V.evals += 1
            if not (child == children[k][0]):
                V.add(site, 'equal_selections_not_equal', '%s vs %s on {%s}'
                      % (_enc(idx), _enc(children[k][2]), describe(pref)))
    V.sigs.add('children:%d' % len(children))
    seen = set(children)
    ngrand = 0
    for k, (child, cref, idx) in children.items():
        site = _gsite(base_site, idx)
        what = 'child [%s] of {%s}' % (_enc(idx), describe(pref))
        invariants(child, site, V, what)
        check_points(child, base_site + '.__getitem__.index', V, what, star=points_star,
                     near=(full2 and not points_star))
        for idx2 in index_exprs(child.shape, full=full2, lists=full2):
            r = check_child(child, cref, idx2, _gsite(base_site, idx2), V,
                            'depth 2 via [%s]' % _enc(idx))
            if r is not None:
                k2 = ref_key(r[1])
                if k2 not in seen:
                    seen.add(k2)
                    ngrand += 1
                    invariants(r[0], _gsite(base_site, idx2), V,
                               'grandchild [%s][%s] of {%s}' % (_enc(idx), _enc(idx2),
                                                                describe(pref)))
    return len(children), ngrand


# ------------------------------------------------------------------------------------------
# base partitions

def nob_nested(flags):
    return [(bool(l), bool(r)) for l, r in flags]


def nob_compact(flags):
    """The most compact documented spelling: bool / per-axis bool / per-axis pair."""
    per = [bool(l) if l == r else (bool(l), bool(r)) for l, r in flags]
    if all(isinstance(q, bool) for q in per) and len(set(per)) == 1:
        return per[0]
    return per


def nob_encodings(flags):
    """[(name, value)]: documented spellings of nodes_on_bdry for these per-side flags."""
    encs = [('nested', nob_nested(flags))]
    c = nob_compact(flags)
    if c != encs[0][1]:
        encs.append(('compact', c))
    return encs


def uni_ref(axes):
    """axes: [[lo, hi, n, bl, br], ...] -> (ref, dx list) or None if the request is
    inconsistent (a single node on both ends of a non-degenerate interval)."""
    ref, dxs = [], []
    for lo, hi, n, bl, br in axes:
        try:
            a, dx = R.uniform_axis(Fr(lo), Fr(hi), n, bl, br)
        except ValueError:
            return None
        ref.append(a)
        dxs.append(dx)
    return ref, dxs


def non_ref(axes, regs=None):
    """axes: [[vec_id, mode, u, v], ...]; mode 'nob': flags (u, v); mode 'lim': limits
    x[0]-OFFS[u], x[-1]+OFFS[v].  ``regs``: per-axis magnitude regime (the coordinate vector
    and the offsets are mapped; the requested numbers are the resulting floats)."""
    ref = []
    for k, (vid, mode, u, v) in enumerate(axes):
        reg = regs[k] if regs else None
        if reg is None:
            x = VECS[vid]
            lo, hi = Fr(x[0]) - Fr(OFFS[u]), Fr(x[-1]) + Fr(OFFS[v])
        else:
            x = [_tr(t, reg) for t in VECS[vid]]
            sc = REGIMES[reg][0]
            lo, hi = Fr(float(x[0] - sc * OFFS[u])), Fr(float(x[-1] + sc * OFFS[v]))
        if mode == 'nob':
            ref.append(R.nonuniform_axis(x, bl=u, br=v))
        else:
            ref.append(R.nonuniform_axis(x, lo=lo, hi=hi))
    return ref


def build_direct(ref):
    """RectPartition(IntervalProd, RectGrid) straight from the reference numbers."""
    return odl.RectPartition(odl.IntervalProd(_fl(a.lo for a in ref), _fl(a.hi for a in ref)),
                             odl.RectGrid(*[_fl(a.nodes) for a in ref]))


def site_of(cfg):
    nd = len(cfg['axes'])
    if cfg['kind'] == 'uni':
        return 'uniform_partition[%dd]' % nd
    if cfg['kind'] == 'non':
        return 'nonuniform_partition[%dd]' % nd
    return 'RectPartition[%dd]' % nd


def base_of(cfg, V):
    """-> (partition, ref, exact, dxs) or None (counted as unspecified / reported)."""
    site = site_of(cfg)
    if cfg['kind'] == 'uni':
        rr = uni_ref(cfg['axes'])
        if rr is None:
            V.skipped += 1
            return None
        ref, dxs = rr
        lo = [a[0] for a in cfg['axes']]
        hi = [a[1] for a in cfg['axes']]
        shp = [a[2] for a in cfg['axes']]
        flags = [(a[3], a[4]) for a in cfg['axes']]
        try:
            p = odl.uniform_partition(lo, hi, shp, nodes_on_bdry=nob_nested(flags))
        except Exception as e:       # noqa
            V.evals += 1
            V.add(site, 'raises:' + type(e).__name__,
                  'uniform_partition(%s, %s, %s, nodes_on_bdry=%s): %r'
                  % (lo, hi, shp, nob_nested(flags), e))
            return None
    else:
        ref = (non_ref(cfg['axes'], cfg.get('reg')) if cfg['kind'] == 'non'
               else pool_ref(cfg['axes']))
        dxs = None
        try:
            p = build_direct(ref)
        except Exception as e:       # noqa
            V.evals += 1
            V.add(site, 'raises:' + type(e).__name__, 'RectPartition(%s): %r'
                  % (describe(ref), e))
            return None
    exact = ref_dyadic(ref)
    if not compare(p, ref, exact, site, V, 'base partition %s' % (cfg['axes'],)):
        return None
    invariants(p, site, V, 'base partition %s' % (cfg['axes'],),
               uniform_dx=dxs if cfg['kind'] == 'uni' else None)
    if cfg['kind'] == 'uni':
        # requested nodes-on-boundary placement
        for ax, (a, spec) in enumerate(zip(ref, cfg['axes'])):
            want = (bool(spec[3]), bool(spec[4]))
            got = tuple(bool(v) for v in p.nodes_on_bdry_byaxis[ax])
            if a.n >= 2 and got != want:
                V.add(site, 'requested_nodes_on_bdry_not_honoured',
                      '%s axis %d: requested %s got %s' % (cfg['axes'], ax, want, got))
    # continue from the exact image of the implementation's numbers
    return p, ref_from_impl(p), exact, dxs


# ------------------------------------------------------------------------------------------
# construction routes

ROUTES = ['mms', 'mmc', 'msc', 'xsc', 'all4']     # which of (min, max, shape, cell_sides)


def _route_ok(route, a, dx, spec):
    if route == 'mms':
        return True
    if dx is None:                 # a single node on both ends of a degenerate interval
        return True                # any positive cell side is consistent (zero full cells)
    if dx == 0:                    # degenerate interval, one cell of width zero
        return route in ('msc', 'xsc', 'all4')
    return True


def check_route(V, site, what, call, ref, exact, primary, dxs=None):
    """``dxs``: per-axis requested cell side of a partition built as uniform: the result of
    the route has to satisfy the uniform clauses too (is_uniform, cell side x count)."""
    V.evals += 1
    try:
        q = call()
    except Exception as e:       # noqa
        V.add(site, 'raises:' + type(e).__name__, '%s: %r' % (what, e))
        return None
    V.evals -= 1
    if not compare(q, ref, exact, site, V, what):
        return q
    # our own comparison passed: the library's notions of equality must agree
    atol = 4 * _tol([float(a.lo) for a in ref], [float(a.hi) for a in ref])
    if not primary.approx_equals(q, atol=atol) or not q.approx_equals(primary, atol=atol):
        V.add(site, 'approx_equals_false', what)
    if exact and not (q == primary and primary == q and not (q != primary)):
        V.add(site, 'not_equal_to_primary_route', what)
    if dxs is not None:
        invariants(q, site, V, what, uniform_dx=dxs)
    return q


def uniform_routes(cfg, p, ref0, exact, dxs, V):
    axes = cfg['axes']
    nd = len(axes)
    site = site_of(cfg)
    ref, _ = uni_ref(axes)
    lo = [a[0] for a in axes]
    hi = [a[1] for a in axes]
    shp = [a[2] for a in axes]
    flags = [(a[3], a[4]) for a in axes]
    cs = [1.0 if dx is None else float(dx) for dx in dxs]
    encs = nob_encodings(flags)

    def scal(v):
        return v[0] if nd == 1 else v

    per_axis = [[r for r in ROUTES if _route_ok(r, a, dx, s)]
                for a, dx, s in zip(ref, dxs, axes)]
    for combo in itertools.product(*per_axis):
        kw = {'min_pt': [None if r == 'xsc' else v for r, v in zip(combo, lo)],
              'max_pt': [None if r == 'msc' else v for r, v in zip(combo, hi)],
              'shape': [None if r == 'mmc' else v for r, v in zip(combo, shp)],
              'cell_sides': [None if r == 'mms' else v for r, v in zip(combo, cs)]}
        kw = dict((k, v) for k, v in kw.items() if any(e is not None for e in v))
        forms = [('list', kw)]
        if len(set(combo)) == 1:
            # other documented operand types ("float or sequence of float", "int or sequence
            # of ints"): tuples; in 1d plain and NumPy scalars
            forms.append(('tuple', dict((k, tuple(v)) for k, v in kw.items())))
        if nd == 1:
            forms.append(('scalar', dict((k, v[0]) for k, v in kw.items())))
            forms.append(('numpy-scalar', dict(
                (k, np.int64(v[0]) if k == 'shape' else np.float64(v[0]))
                for k, v in kw.items())))
        for fname, k in forms:
            for ename, enc in encs:
                V.sigs.add('route:%s' % '+'.join(sorted(set(combo))))
                rsite = site + '.routes'
                what = 'uniform_partition(%s, nodes_on_bdry=%r)' % (
                    ', '.join('%s=%r' % kv for kv in sorted(k.items())), enc)
                check_route(V, rsite, what,
                            lambda k=k, enc=enc: odl.uniform_partition(nodes_on_bdry=enc, **k),
                            ref, exact, p, dxs=dxs)
        if nd == 1 and flags[0][0] != flags[0][1]:
            # the library's own compact spelling of per-side flags of a 1-d partition
            # (`RectPartition.nodes_on_bdry`, printed by repr): a bare pair
            pair = (bool(flags[0][0]), bool(flags[0][1]))
            k = dict((kk, v[0]) for kk, v in kw.items())
            what = 'uniform_partition(%s, nodes_on_bdry=%r)' % (
                ', '.join('%s=%r' % kv for kv in sorted(k.items())), pair)
            check_route(V, 'uniform_partition[1d,nodes_on_bdry=pair]', what,
                        lambda k=k: odl.uniform_partition(nodes_on_bdry=pair, **k),
                        ref, exact, p, dxs=dxs)
    # all four given but inconsistent: "If all four are provided, they are checked for
    # consistency."
    if all(dx is not None and dx > 0 for dx in dxs):
        V.evals += 1
        try:
            q = odl.uniform_partition(lo, hi, shp, [2 * c for c in cs],
                                      nodes_on_bdry=nob_nested(flags))
            V.add(site + '.routes', 'inconsistent_parameters_accepted',
                  'uniform_partition(%s, %s, %s, cell_sides=%s) -> %r'
                  % (lo, hi, shp, [2 * c for c in cs], q))
        except ValueError:
            pass
        except Exception as e:       # noqa
            V.add(site + '.routes', 'raises:' + type(e).__name__, 'inconsistent all-4: %r' % e)
    # other factories
    intv = odl.IntervalProd(lo, hi)
    for ename, enc in encs:
        check_route(V, 'uniform_partition_fromintv', 'fromintv(%r, %s, %r)' % (intv, shp, enc),
                    lambda enc=enc: odl.uniform_partition_fromintv(intv, scal(shp) if
                                                                    ename == 'compact' else shp,
                                                                    nodes_on_bdry=enc),
                    ref, exact, p, dxs=dxs)
    if nd == 1 and flags[0][0] != flags[0][1]:
        pair = (bool(flags[0][0]), bool(flags[0][1]))
        check_route(V, 'uniform_partition_fromintv[1d,nodes_on_bdry=pair]',
                    'fromintv(%r, %s, %r)' % (intv, shp, pair),
                    lambda: odl.uniform_partition_fromintv(intv, shp[0], nodes_on_bdry=pair),
                    ref, exact, p, dxs=dxs)
    grid_routes(site, p, ref, exact, V, dxs=dxs)


def _natural(a, side):
    """Is the limit on this side where the documented default puts it
    (x[0] - (x[1]-x[0])/2, x[-1] + (x[-1]-x[-2])/2)?"""
    if a.n < 2:
        return False
    if side == 0:
        return a.lo == a.nodes[0] - (a.nodes[1] - a.nodes[0]) / 2
    return a.hi == a.nodes[-1] + (a.nodes[-1] - a.nodes[-2]) / 2


def grid_routes(site, p, ref, exact, V, dxs=None):
    """Routes that start from explicit nodes: RectPartition, uniform_partition_fromgrid,
    nonuniform_partition.  ``ref`` is the model of the *request*; when it is not dyadic the
    node values handed over are the primary partition's own.  ``dxs``: the nodes are those of
    a partition built as uniform (nonuniform_partition docstring: "With uniformly spaced
    points the result is the same as a uniform partition")."""
    nd = len(ref)

    def cr(*args):       # every route below carries the uniform request along
        return check_route(*args, dxs=dxs)
    if not exact:
        ref = ref_from_impl(p)
        exact = True
    lo = _fl(a.lo for a in ref)
    hi = _fl(a.hi for a in ref)
    vecs = [_fl(a.nodes) for a in ref]

    def scal(v):
        return v[0] if nd == 1 else v

    cr(V, 'RectPartition', 'RectPartition(IntervalProd(%s, %s), RectGrid(%s))'
                % (lo, hi, vecs), lambda: build_direct(ref), ref, exact, p)
    grid = odl.RectGrid(*vecs)
    fsite = 'uniform_partition_fromgrid'
    cr(V, fsite, 'fromgrid(RectGrid(%s), min_pt=%s, max_pt=%s)' % (vecs, lo, hi),
                lambda: odl.uniform_partition_fromgrid(grid, min_pt=lo, max_pt=hi),
                ref, exact, p)
    if nd == 1:
        cr(V, fsite, 'fromgrid(RectGrid(%s), min_pt=%s, max_pt=%s)'
                    % (vecs, lo[0], hi[0]),
                    lambda: odl.uniform_partition_fromgrid(grid, min_pt=lo[0], max_pt=hi[0]),
                    ref, exact, p)
    # dictionaries: all axes; only the axes whose limit is not the documented default;
    # negative keys
    for neg in (False, True):
        for partial in (False, True):
            dmin = dict(((ax - nd) if neg else ax, lo[ax]) for ax in range(nd)
                        if not (partial and _natural(ref[ax], 0)))
            dmax = dict(((ax - nd) if neg else ax, hi[ax]) for ax in range(nd)
                        if not (partial and _natural(ref[ax], 1)))
            V.sigs.add('fromgrid-dict:%d:%d' % (len(dmin), len(dmax)))
            cr(V, fsite + '[dict]', 'fromgrid(RectGrid(%s), min_pt=%s, max_pt=%s)'
                        % (vecs, dmin, dmax),
                        lambda: odl.uniform_partition_fromgrid(grid, min_pt=dict(dmin),
                                                               max_pt=dict(dmax)),
                        ref, exact, p)
    if all(_natural(a, 0) and _natural(a, 1) for a in ref):
        cr(V, fsite, 'fromgrid(RectGrid(%s))' % (vecs,),
                    lambda: odl.uniform_partition_fromgrid(grid), ref, exact, p)
    # nonuniform_partition: explicit limits; per-side flags; a mixture of both
    nsite = 'nonuniform_partition'
    cr(V, nsite, 'nonuniform_partition(*%s, min_pt=%s, max_pt=%s)' % (vecs, lo, hi),
                lambda: odl.nonuniform_partition(*vecs, min_pt=scal(lo), max_pt=scal(hi)),
                ref, exact, p)
    # side expressible through nodes_on_bdry?  flag True: node on the limit; flag False:
    # natural limit (single node: "by default degenerate", limit = node, either flag)
    def flag(a, side):
        on = a.on_bdry[side]
        if a.n == 1:
            return False if on else None
        if on:
            return True
        return False if _natural(a, side) else None
    fl = [(flag(a, 0), flag(a, 1)) for a in ref]
    if all(l is not None and r is not None for l, r in fl):
        for ename, enc in nob_encodings(fl):
            V.sigs.add('nonuniform-nob:%s' % ename)
            cr(V, nsite, 'nonuniform_partition(*%s, nodes_on_bdry=%r)' % (vecs, enc),
                        lambda enc=enc: odl.nonuniform_partition(*vecs, nodes_on_bdry=enc),
                        ref, exact, p)
        if any(a.n == 1 for a in ref):
            # documented: single coordinates may be given as scalars (`nonuniform_partition(1)`)
            sv = [v[0] if len(v) == 1 else v for v in vecs]
            cr(V, nsite, 'nonuniform_partition(*%s)' % (sv,),
                        lambda: odl.nonuniform_partition(*sv, nodes_on_bdry=nob_nested(fl)),
                        ref, exact, p)
        if nd == 1 and fl[0][0] != fl[0][1]:
            pair = (fl[0][0], fl[0][1])
            cr(V, 'nonuniform_partition[1d,nodes_on_bdry=pair]',
                        'nonuniform_partition(%s, nodes_on_bdry=%r)' % (vecs[0], pair),
                        lambda: odl.nonuniform_partition(vecs[0], nodes_on_bdry=pair),
                        ref, exact, p)
    # mixture: flags where a side is expressible and True, explicit numbers elsewhere
    mmin = [None if l else v for (l, r), v in zip(fl, lo)]
    mmax = [None if r else v for (l, r), v in zip(fl, hi)]
    mfl = [(bool(l), bool(r)) for l, r in fl]
    if any(l or r for l, r in mfl) and any(v is not None for v in mmin + mmax):
        V.sigs.add('nonuniform-mixed')
        cr(V, nsite, 'nonuniform_partition(*%s, min_pt=%s, max_pt=%s, nodes_on_bdry=%s)'
                    % (vecs, mmin, mmax, mfl),
                    lambda: odl.nonuniform_partition(*vecs, min_pt=mmin, max_pt=mmax,
                                                     nodes_on_bdry=mfl),
                    ref, exact, p)


# ------------------------------------------------------------------------------------------
# insert / append / squeeze / byaxis on products of pool partitions

def _pool():
    u1, _ = R.uniform_axis(Fr(0), Fr(1), 1, 0, 0)             # one cell, node in the middle
    u3, _ = R.uniform_axis(Fr(-1), Fr(5, 2), 3, 1, 1)         # nodes on both ends
    u2, _ = R.uniform_axis(Fr(1, 4), Fr(3, 4), 2, 0, 0)
    nn = R.nonuniform_axis([0, 1, 3], lo=Fr(-2), hi=Fr(3))    # cropped / extended outer cells
    dg = R.nonuniform_axis([1])                               # degenerate [1, 1]
    o1 = R.nonuniform_axis([2], lo=Fr(2), hi=Fr(4))           # one node on the left end
    return [u3, u1, nn, dg, u2, o1]


POOL = _pool()


def pool_ref(ids):
    return [POOL[i] for i in ids]


def _axes_match(q, ref, site, V, what):
    """Every axis of q is *exactly* the corresponding reference axis."""
    V.evals += 1
    if not isinstance(q, odl.RectPartition):
        V.add(site, 'not_a_partition', '%s got %r' % (what, q))
        return False
    if q.ndim != len(ref) or tuple(q.shape) != tuple(a.n for a in ref):
        V.add(site, 'axes_differ', '%s: expected shape %s got %s'
              % (what, tuple(a.n for a in ref), q.shape))
        return False
    for ax, a in enumerate(ref):
        if not (np.array_equal(q.coord_vectors[ax], _fl(a.nodes))
                and np.array_equal(q.cell_boundary_vecs[ax], _fl(a.bdry))
                and q.min_pt[ax] == float(a.lo) and q.max_pt[ax] == float(a.hi)):
            V.add(site, 'cells_differ', '%s: axis %d expected %s got nodes %s boundaries %s'
                  % (what, ax, a, q.coord_vectors[ax].tolist(),
                     q.cell_boundary_vecs[ax].tolist()))
            return False
    return True


def _try(V, site, what, call):
    try:
        return True, call()
    except Exception as e:       # noqa
        V.evals += 1
        V.add(site, 'raises:' + type(e).__name__, '%s: %r' % (what, e))
        return False, None


def _subsets(n):
    for r in range(0, n + 1):
        for s in itertools.combinations(range(n), r):
            yield list(s)


def check_ops(p, ref, V, others, thorough):
    nd = len(ref)
    base = describe(ref)
    # insert / append
    blocks = [[o] for o in others] + [[a, b] for a in others[:3] for b in others[:3]]
    blocks += [[o, others[0]] for o in others if len(o) > 1]      # multi-dimensional part first
    if thorough:
        blocks += [[others[0], others[3], others[1]]]
    for blk in blocks:
        parts = [build_direct(b) for b in blk]
        for index in range(-nd, nd + 1):
            what = '{%s}.insert(%d, %s)' % (base, index, ', '.join('{%s}' % describe(b)
                                                                    for b in blk))
            ok, q = _try(V, 'RectPartition.insert', what, lambda: p.insert(index, *parts))
            if ok and _axes_match(q, R.insert(ref, index, *blk), 'RectPartition.insert', V, what):
                invariants(q, 'RectPartition.insert', V, what)
        what = '{%s}.append(%s)' % (base, ', '.join('{%s}' % describe(b) for b in blk))
        ok, q = _try(V, 'RectPartition.append', what, lambda: p.append(*parts))
        if ok:
            _axes_match(q, R.insert(ref, nd, *blk), 'RectPartition.append', V, what)
    # no partitions given: a copy
    ok, q = _try(V, 'RectPartition.insert', 'insert(0)', lambda: p.insert(0))
    if ok:
        _axes_match(q, ref, 'RectPartition.insert', V, '{%s}.insert(0)' % base)
    # squeeze
    sq = [(None, None)]
    for i in range(nd):
        sq += [(i, [i]), (i - nd, [i])]
    for s in _subsets(nd):
        if s:
            sq.append((s, s))
            sq.append(([i - nd for i in s], s))
    for sl in (slice(None), slice(1, None), slice(None, -1), slice(None, None, 2)):
        sel = list(range(nd)[sl])
        if sel:
            sq.append((sl, sel))
    for arg, axes in sq:
        what = '{%s}.squeeze(%s)' % (base, _enc(arg) if isinstance(arg, slice) else arg)
        ok, q = _try(V, 'RectPartition.squeeze', what,
                     lambda: p.squeeze() if arg is None else p.squeeze(arg))
        if ok:
            exp = R.squeeze(ref, axes)
            V.sigs.add('squeeze:%d' % (nd - len(exp)))
            if _axes_match(q, exp, 'RectPartition.squeeze', V, what):
                invariants(q, 'RectPartition.squeeze', V, what)
        # keyword spelling
    ok, q = _try(V, 'RectPartition.squeeze', 'squeeze(axis=None)', lambda: p.squeeze(axis=None))
    if ok:
        _axes_match(q, R.squeeze(ref), 'RectPartition.squeeze', V, '{%s}.squeeze(axis=None)' % base)
    # byaxis
    by = []
    for i in range(nd):
        by += [(i, [i]), (i - nd, [i])]
    for a in [None, 0, 1, -1]:
        for b in [None, 1, -1, nd]:
            for s in [None, 2]:
                sl = slice(a, b, s)
                by.append((sl, list(range(nd)[sl])))
    maxlen = 3 if thorough else 2
    for r in range(0, maxlen + 1):
        for t in itertools.product(range(nd), repeat=r):
            by.append((list(t), list(t)))
    for t in itertools.product(range(-nd, 0), repeat=min(2, nd)):
        by.append((list(t), [i + nd for i in t]))
    by.append((tuple(range(nd)), list(range(nd))))
    seen = set()
    for arg, axes in by:
        k = _enc(arg) if isinstance(arg, slice) else repr(arg)
        if k in seen:
            continue
        seen.add(k)
        what = '{%s}.byaxis[%s]' % (base, k)
        site = 'RectPartition.byaxis[%s]' % ('slice' if isinstance(arg, slice) else
                                              'int' if isinstance(arg, int) else 'sequence')
        ok, q = _try(V, site, what, lambda: p.byaxis[arg])
        if ok:
            exp = R.byaxis(ref, axes)
            V.sigs.add('byaxis:%d' % len(exp))
            if _axes_match(q, exp, site, V, what):
                invariants(q, site, V, what)
    # the building blocks named in the anchors, directly
    g, s = p.grid, p.set
    for index in range(-nd, nd + 1):
        for o in others[:3]:
            o = o[0]
            og = odl.RectGrid(_fl(o.nodes))
            oi = odl.IntervalProd(float(o.lo), float(o.hi))
            exp = R.insert(ref, index, [o])
            V.evals += 2
            ok, q = _try(V, 'RectGrid.insert', 'insert(%d)' % index, lambda: g.insert(index, og))
            if ok and not (q.ndim == len(exp) and all(
                    np.array_equal(v, _fl(a.nodes)) for v, a in zip(q.coord_vectors, exp))):
                V.add('RectGrid.insert', 'vectors_differ', '{%s} grid.insert(%d, %s) -> %r'
                      % (base, index, _fl(o.nodes), q))
            ok, q = _try(V, 'IntervalProd.insert', 'insert(%d)' % index,
                         lambda: s.insert(index, oi))
            if ok and not (np.array_equal(q.min_pt, _fl(a.lo for a in exp))
                           and np.array_equal(q.max_pt, _fl(a.hi for a in exp))):
                V.add('IntervalProd.insert', 'limits_differ', '{%s} set.insert(%d, [%s, %s]) -> %r'
                      % (base, index, float(o.lo), float(o.hi), q))
    for arg, axes in by:
        if isinstance(arg, tuple) or (isinstance(arg, list) and not arg):
            continue
        V.evals += 1
        ok, q = _try(V, 'IntervalProd.__getitem__', 'set[%r]' % (arg,), lambda: s[arg])
        if ok and not (np.array_equal(np.atleast_1d(q.min_pt), _fl(ref[i].lo for i in axes))
                       and np.array_equal(np.atleast_1d(q.max_pt), _fl(ref[i].hi for i in axes))):
            V.add('IntervalProd.__getitem__', 'limits_differ', '{%s} set[%r] -> %r'
                  % (base, arg, q))
    # collapse: the selected axes shrink to the value, the others stay
    for axes in _subsets(nd):
        if not axes:
            continue
        for pos in (0, 1, 2):
            vals = [float(ref[i].lo + (ref[i].hi - ref[i].lo) * Fr(pos, 2)) for i in axes]
            V.evals += 1
            arg_i = axes[0] if len(axes) == 1 else axes
            arg_v = vals[0] if len(axes) == 1 else vals
            ok, q = _try(V, 'IntervalProd.collapse', 'collapse(%s, %s)' % (arg_i, arg_v),
                         lambda: s.collapse(arg_i, arg_v))
            if ok:
                emin = [vals[axes.index(i)] if i in axes else float(ref[i].lo)
                        for i in range(nd)]
                emax = [vals[axes.index(i)] if i in axes else float(ref[i].hi)
                        for i in range(nd)]
                if not (np.array_equal(q.min_pt, emin) and np.array_equal(q.max_pt, emax)):
                    V.add('IntervalProd.collapse', 'limits_differ',
                          '{%s} set.collapse(%s, %s) -> %r' % (base, arg_i, arg_v, q))
    # grid indexing: all-integer index -> the point; otherwise the selected vectors
    for idx in index_exprs(p.shape, full=False, lists=False):
        if isinstance(idx, list):
            continue
        try:
            norm = R.normalize_index(idx, [a.n for a in ref])
        except R.Inadmissible:
            continue
        V.evals += 1
        ok, q = _try(V, 'RectGrid.__getitem__', 'grid[%s]' % _enc(idx), lambda: g[idx])
        if not ok:
            continue
        items = [i for i in (idx if isinstance(idx, tuple) else [idx]) if i is not Ellipsis]
        all_int = (len(items) == nd and all(isinstance(i, int) for i in items))
        if all_int:
            exp = [float(a.nodes[sel[0]]) for a, (sel, _, _) in zip(ref, norm)]
            if not (isinstance(q, np.ndarray) and np.array_equal(q, exp)):
                V.add('RectGrid.__getitem__', 'point_differs', '{%s} grid[%s] -> %r'
                      % (base, _enc(idx), q))
        else:
            if not (isinstance(q, odl.RectGrid) and q.ndim == nd and all(
                    np.array_equal(v, _fl(a.nodes[i] for i in sel))
                    for v, a, (sel, _, _) in zip(q.coord_vectors, ref, norm))):
                V.add('RectGrid.__getitem__', 'vectors_differ', '{%s} grid[%s] -> %r'
                      % (base, _enc(idx), q))


# ------------------------------------------------------------------------------------------
# history space: ONE RectGrid object shared by several partitions of different sets

HVECS = [[1.0], [0.5, 1.5, 2.5], [2.0], [0.0, 1.0], [0.0, 1.0, 3.0]]
HOFFS = [(0.25, 0.25), (1.0, 0.25), (0.0, 1.0)]      # limits of partition k: x[0]-a, x[-1]+b
OBS_P = ['cell_sides', 'cell_volume', 'cell_sizes_vecs', 'cell_boundary_vecs',
         'boundary_cell_fractions', 'has_isotropic_cells', 'extent', 'nodes_on_bdry']
OBS_P3 = ['cell_sides', 'cell_volume', 'cell_sizes_vecs', 'boundary_cell_fractions']
OBS_G = ['stride', 'extent', 'coord_vectors']
GRID_STATE = ['stride', 'coord_vectors', 'min_pt', 'max_pt', 'extent', 'shape',
              'is_uniform_byaxis', 'nondegen_byaxis']
UNIFORM_ONLY = ('cell_sides', 'cell_volume', 'has_isotropic_cells', 'stride')


def _canon(v):
    """Value of an observable as a comparable text (NaN equals NaN, -0.0 differs from 0.0)."""
    if isinstance(v, (tuple, list)):
        return '(' + ','.join(_canon(e) for e in v) + ')'
    if isinstance(v, np.ndarray):
        return 'a' + repr(v.tolist())
    if isinstance(v, (float, np.floating)):
        return repr(float(v))
    return repr(v)


def _hist_build(cfg, shared=True):
    """-> (grid, [partitions]).  shared: all partitions on the same RectGrid object;
    else every partition on its own fresh grid (the independent twin)."""
    vecs = [HVECS[i] for i in cfg['axes']]
    parts = []
    grid = odl.RectGrid(*vecs)
    for k in range(cfg['nparts']):
        a, b = HOFFS[k]
        lo = [v[0] - a for v in vecs]
        hi = [v[-1] + b for v in vecs]
        if shared:
            g = grid if (k == 0 or cfg['mode'] == 'fromgrid') else parts[0].grid
        else:
            g = odl.RectGrid(*vecs)
        if cfg['mode'] == 'fromgrid':
            parts.append(odl.uniform_partition_fromgrid(g, min_pt=lo, max_pt=hi))
        else:
            parts.append(odl.RectPartition(odl.IntervalProd(lo, hi), g))
    return grid, parts


def _hist_read(grid, parts, rd):
    who, obs = rd
    return _canon(getattr(grid if who == 'g' else parts[who], obs))


def run_history(cfg):
    """Every sequence of readings up to the depth on partitions that share one grid object.
    Differential oracle: each reading equals the first reading of the same observable on an
    independently built twin (own grid, own set); after the sequence the observables of the
    shared grid equal those of a fresh grid."""
    V = Viol()
    site = 'shared_grid[%s]' % cfg['mode']
    vecs = [HVECS[i] for i in cfg['axes']]
    uniform = all(R.Ax(0, 0, v).uniform for v in vecs)
    obs_p = OBS_P if cfg['depth'] <= 2 else OBS_P3
    readings = [(k, o) for k in range(cfg['nparts']) for o in obs_p] + [('g', o) for o in OBS_G]
    if not uniform:
        # `cell_sides`, `cell_volume`: "Only defined if ``self.grid`` is uniform."
        V.skipped += sum(1 for r in readings if r[1] in UNIFORM_ONLY)
        readings = [r for r in readings if r[1] not in UNIFORM_ONLY]
    V.sigs.add('hist:%dd:%s:%d:%s' % (len(vecs), cfg['mode'], cfg['nparts'],
                                       'uniform' if uniform else 'nonuniform'))
    try:
        twin = {}
        for rd in readings:
            g, ps = _hist_build(cfg, shared=False)
            twin[rd] = _hist_read(g, ps, rd)
        fresh = odl.RectGrid(*vecs)
        gstate = dict((o, _canon(getattr(fresh, o))) for o in GRID_STATE
                      if uniform or o != 'stride')
    except Exception as e:       # noqa
        V.evals += 1
        V.add(site, 'raises:' + type(e).__name__, 'twin of %s: %r' % (cfg, e))
        return V.result()
    desc = 'grid %s, sets %s' % (vecs, [[(v[0] - a, v[-1] + b) for v in vecs]
                                        for a, b in HOFFS[:cfg['nparts']]])
    for depth in range(1, cfg['depth'] + 1):
        for seq in itertools.product(readings, repeat=depth):
            grid, parts = _hist_build(cfg, shared=True)
            try:
                for step, rd in enumerate(seq):
                    got = _hist_read(grid, parts, rd)
                    V.evals += 1
                    if got != twin[rd]:
                        V.add(site, 'history_dependent:' + rd[1],
                              '%s; readings %s: step %d gives %s, an independently built twin '
                              'gives %s' % (desc, list(seq), step, got, twin[rd]))
                for o, want in gstate.items():
                    got = _canon(getattr(grid, o))
                    V.evals += 1
                    if got != want:
                        V.add(site, 'grid_changed:' + o,
                              '%s; after readings %s: grid.%s = %s, fresh grid %s'
                              % (desc, list(seq), o, got, want))
            except Exception as e:       # noqa
                V.add(site, 'raises:' + type(e).__name__, '%s; readings %s: %r'
                      % (desc, list(seq), e))
    return V.result()


# ------------------------------------------------------------------------------------------
# aliasing: arrays handed to constructors / arrays handed out by properties

SNAP_P = ['shape', 'min_pt', 'max_pt', 'extent', 'mid_pt', 'cell_boundary_vecs', 'coord_vectors',
          'cell_sizes_vecs', 'boundary_cell_fractions', 'nodes_on_bdry_byaxis', 'is_uniform']


def snapshot(p):
    """Every observable of the partition as comparable text (exceptions become text too)."""
    out = {}

    def rd(name, f):
        try:
            out[name] = _canon(f())
        except Exception as e:       # noqa
            out[name] = 'raises:' + type(e).__name__
    for o in SNAP_P:
        rd(o, lambda o=o: getattr(p, o))
    for o in ('min_pt', 'max_pt'):
        rd('set.' + o, lambda o=o: getattr(p.set, o))
        rd('grid.' + o, lambda o=o: getattr(p.grid, o))
    rd('grid.coord_vectors', lambda: p.grid.coord_vectors)
    rd('grid.stride', lambda: p.grid.stride)
    rd('cell_sides', lambda: p.cell_sides)
    if p.ndim:
        rd('index(first node)', lambda: p.index([float(v[0]) for v in p.coord_vectors]
                                                 if p.ndim > 1 else float(p.coord_vectors[0][0])))
        rd('index(last node, floating)',
           lambda: p.index([float(v[-1]) for v in p.coord_vectors] if p.ndim > 1
                           else float(p.coord_vectors[0][-1]), floating=True))
    return out


def snap_diff(s0, s1):
    return [k for k in s0 if s0[k] != s1.get(k)]       # in the order of `snapshot`


def _clobber(arrs, style):
    """Overwrite caller-owned arrays in place.  -> number of arrays written."""
    n = 0
    for a in arrs:
        if isinstance(a, (list, tuple)):
            n += _clobber(a, style)
        elif isinstance(a, np.ndarray) and a.flags.writeable and a.size:
            if style == 'shift':
                a += (3 if a.dtype.kind in 'iu' else 1.5)
            elif a.dtype.kind == 'f':
                a[...] = np.nan
            else:
                a[...] = 0
            n += 1
    return n


def input_routes(cfg, reqref, dxs):
    """[(route name, fresh-arguments factory, builder)]: every constructor argument that can be
    an array is passed as a float64 (shape: int64) ndarray owned by the driver."""
    nd = len(reqref)
    lo = _fl(a.lo for a in reqref)
    hi = _fl(a.hi for a in reqref)
    vecs = [_fl(a.nodes) for a in reqref]
    shp = [a.n for a in reqref]

    def fresh():
        return {'lo': np.array(lo, dtype='float64'), 'hi': np.array(hi, dtype='float64'),
                'vecs': [np.array(v, dtype='float64') for v in vecs],
                'glo': np.array([v[0] for v in vecs], dtype='float64'),
                'ghi': np.array([v[-1] for v in vecs], dtype='float64'),
                'shape': np.array(shp, dtype='int64')}
    I, G, RPt = odl.IntervalProd, odl.RectGrid, odl.RectPartition
    routes = [
        ('RectPartition(IntervalProd(arr,arr),RectGrid(arrs))',
         lambda a: RPt(I(a['lo'], a['hi']), G(*a['vecs']))),
        ('uniform_partition_fromgrid(RectGrid(arrs),arr,arr)',
         lambda a: odl.uniform_partition_fromgrid(G(*a['vecs']), min_pt=a['lo'], max_pt=a['hi'])),
        ('nonuniform_partition(arrs,min_pt=arr,max_pt=arr)',
         lambda a: odl.nonuniform_partition(*a['vecs'], min_pt=a['lo'], max_pt=a['hi'])),
    ]
    if cfg['kind'] == 'uni':
        flags = nob_nested([(a[3], a[4]) for a in cfg['axes']])
        cs = [1.0 if dx is None else float(dx) for dx in dxs]
        routes += [
            ('uniform_partition_fromintv(IntervalProd(arr,arr),arr)',
             lambda a: odl.uniform_partition_fromintv(I(a['lo'], a['hi']), a['shape'],
                                                      nodes_on_bdry=flags)),
            ('uniform_partition(arr,arr,arr)',
             lambda a: odl.uniform_partition(a['lo'], a['hi'], a['shape'], nodes_on_bdry=flags)),
            ('RectPartition(IntervalProd(arr,arr),uniform_grid(arr,arr,arr))',
             lambda a: RPt(I(a['lo'], a['hi']), odl.uniform_grid(a['glo'], a['ghi'], a['shape']))),
        ]
        if all(dx is None or dx > 0 for dx in dxs):
            def fresh_cs(fresh=fresh):
                d = fresh()
                d['cs'] = np.array(cs, dtype='float64')
                return d
            routes += [
                ('uniform_partition(min=arr,shape=arr,cell_sides=arr)',
                 lambda a: odl.uniform_partition(min_pt=a['lo'], shape=a['shape'],
                                                 cell_sides=a['cs'], nodes_on_bdry=flags),
                 fresh_cs),
                ('uniform_partition(max=arr,shape=arr,cell_sides=arr)',
                 lambda a: odl.uniform_partition(max_pt=a['hi'], shape=a['shape'],
                                                 cell_sides=a['cs'], nodes_on_bdry=flags),
                 fresh_cs),
                ('uniform_partition(arr,arr,cell_sides=arr)',
                 lambda a: odl.uniform_partition(a['lo'], a['hi'], cell_sides=a['cs'],
                                                 nodes_on_bdry=flags), fresh_cs),
            ]
    return [(r[0], r[1], r[2] if len(r) > 2 else fresh) for r in routes]


def _getters():
    def each(name, f):
        return (name, f)
    P = [each('RectPartition.' + o, lambda p, o=o: getattr(p, o))
         for o in ('min_pt', 'max_pt', 'mid_pt', 'extent', 'cell_boundary_vecs', 'coord_vectors',
                   'cell_sizes_vecs', 'cell_sides', 'meshgrid')]
    P += [('RectPartition.min()', lambda p: p.min()), ('RectPartition.max()', lambda p: p.max()),
          ('RectPartition.points()', lambda p: p.points())]
    S = [each('IntervalProd.' + o, lambda p, o=o: getattr(p.set, o))
         for o in ('min_pt', 'max_pt', 'mid_pt', 'extent')]
    S += [('IntervalProd.min()', lambda p: p.set.min()), ('IntervalProd.max()', lambda p: p.set.max()),
          ('IntervalProd.element()', lambda p: np.atleast_1d(p.set.element())),
          ('IntervalProd.corners()', lambda p: p.set.corners())]
    Gr = [each('RectGrid.' + o, lambda p, o=o: getattr(p.grid, o))
          for o in ('coord_vectors', 'min_pt', 'max_pt', 'mid_pt', 'extent', 'stride', 'meshgrid')]
    Gr += [('RectGrid.min()', lambda p: p.grid.min()), ('RectGrid.max()', lambda p: p.grid.max()),
           ('RectGrid.points()', lambda p: p.grid.points()),
           ('RectGrid.corners()', lambda p: p.grid.corners()),
           ('RectGrid.element()', lambda p: p.grid.element())]
    return P + S + Gr


GETTERS = _getters()


def check_aliasing(cfg, p0, reqref, exact, dxs, V):
    """(a) arrays passed to the constructors are overwritten in place afterwards;
    (b) every writeable array handed out by a property / method is overwritten (observation
    only, see below).
    In case (a) the partition must stay what it was: same observables (exact), the model
    comparison and every tiling clause still hold."""
    what0 = 'request %s' % (cfg['axes'],)
    for name, build, fresh in input_routes(cfg, reqref, dxs):
        site = 'input_arrays[%s]' % name
        args = fresh()
        V.evals += 1
        try:
            q = build(args)
        except Exception as e:       # noqa
            V.add(site, 'raises:' + type(e).__name__, '%s: %r' % (what0, e))
            continue
        s0 = snapshot(q)
        for style in ('shift', 'nan'):
            nw = _clobber(list(args.values()), style)
            V.evals += 1
            s1 = snapshot(q)
            d = snap_diff(s0, s1)
            if d:
                V.add(site, 'partition_changed_when_caller_overwrote_its_arrays',
                      '%s; built, then the %d argument arrays overwritten in place (%s): %s '
                      'changed from %s to %s' % (what0, nw, style, d[0], s0[d[0]], s1[d[0]]))
            compare(q, reqref, exact, site, V, '%s after overwriting the arguments (%s)'
                    % (what0, style))
            invariants(q, site, V, '%s after overwriting the arguments (%s)' % (what0, style))
        V.sigs.add('alias-in:%s' % name.split('(')[0])
    # (b) arrays handed out
    lo = _fl(a.lo for a in reqref)
    hi = _fl(a.hi for a in reqref)
    vecs = [_fl(a.nodes) for a in reqref]
    ro = wt = 0
    for name, get in GETTERS:
        q = odl.RectPartition(odl.IntervalProd(lo, hi), odl.RectGrid(*vecs))
        if name.endswith('cell_sides') or name.endswith('stride'):
            if not q.is_uniform:
                V.skipped += 1
                continue
        site = 'returned_array[%s]' % name
        s0 = snapshot(q)
        V.evals += 1
        try:
            val = get(q)
        except Exception as e:       # noqa
            V.add(site, 'raises:' + type(e).__name__, '%s: %r' % (what0, e))
            continue
        arrs = list(val) if isinstance(val, (tuple, list)) else [val]
        if not any(isinstance(a, np.ndarray) and a.flags.writeable for a in arrs):
            ro += 1
            continue
        for style in ('shift', 'nan'):
            _clobber(arrs, style)
            s1 = snapshot(q)
            d = snap_diff(s0, s1)
            if d:
                # NOT a violation: C14 does not promise that the arrays handed out are copies,
                # and the pinned tree hands out its private arrays writeable (min_pt, max_pt,
                # coord_vectors, meshgrid views, cell_boundary_vecs).  A caller writing into
                # them is outside the property's quantifier (inputs, configurations); judging
                # it was a false alarm of an earlier version of this check (DESIGN.md 5).
                # Only counted, so that the evidence shows the observation.
                wt += 1
                break
    V.sigs.add('alias-out:readonly=%d,writethrough=%d' % (ro, wt))


# ------------------------------------------------------------------------------------------
# mutable container arguments (dicts, lists) and non-mutating methods

JUDGE_ARGUMENT_MODIFIED = False
# A function changing a dict / list it was given is *recorded* (signature, evidence) but judged
# only through its consequence, which is what C14 speaks about: a second call with the same
# container object must describe the same partition as a call with a fresh equal container.
# (Same ruling as for arrays handed out by getters: the property does not promise copies.)


def _deep(v):
    if isinstance(v, dict):
        return dict((k, _deep(w)) for k, w in v.items())
    if isinstance(v, list):
        return [_deep(w) for w in v]
    if isinstance(v, tuple):
        return tuple(_deep(w) for w in v)
    return v


def _shrunk(reqref):
    """Another grid of the same shape inside the first one: nodes pulled half way towards the
    middle of the node range (a 1-node axis moves by 1/8); limits pulled the same way."""
    out = []
    for a in reqref:
        mid = (a.nodes[0] + a.nodes[-1]) / 2
        if a.n == 1:
            out.append(R.Ax(a.lo, a.hi, [a.nodes[0] + (a.hi - a.nodes[0]) / 8]))
        else:
            out.append(R.Ax(mid + (a.lo - mid) / 2, mid + (a.hi - mid) / 2,
                            [mid + (x - mid) / 2 for x in a.nodes]))
    return out


def _twice(V, site, what, make, call, others, expect=None, exact=True):
    """call(containers, other) with the same container objects for every element of ``others``;
    after every call: containers unchanged (recorded / judged, see above); result identical to
    the result with fresh equal containers; optional model comparison ``expect[k]``."""
    cont = make()
    for k, other in enumerate(others):
        before = _deep(cont)
        V.evals += 1
        try:
            ref_q = call(make(), other)
        except Exception:       # noqa
            # the request itself is not admissible (judged by the routes family, not here)
            V.evals -= 1
            V.skipped += 1
            continue
        try:
            q = call(cont, other)
        except Exception as e:       # noqa
            V.add(site, 'second_call_raises:' + type(e).__name__ if k else
                  'raises:' + type(e).__name__,
                  '%s: call %d with the container object(s) already used %d time(s): %r; a '
                  'fresh equal container works' % (what, k + 1, k, e))
            continue
        if _canon_c(cont) != _canon_c(before):
            V.sigs.add('argument-modified:%s' % site)
            if JUDGE_ARGUMENT_MODIFIED:
                V.add(site, 'argument_modified', '%s: call %d changed its argument from %r to %r'
                      % (what, k + 1, before, cont))
        s_q, s_ref = snapshot_any(q), snapshot_any(ref_q)
        d = snap_diff(s_ref, s_q)
        if d:
            V.add(site, 'reused_container_gives_other_result',
                  '%s: call %d with the same container object(s) %r as the previous call(s): %s '
                  'is %s, with a fresh equal container %s'
                  % (what, k + 1, before, d[0], s_q[d[0]], s_ref[d[0]]))
        if expect is not None and expect[k] is not None and isinstance(q, odl.RectPartition):
            compare(q, expect[k], exact, site, V, '%s: call %d' % (what, k + 1))


def _canon_c(v):
    if isinstance(v, dict):
        return '{' + ','.join('%r:%s' % (k, _canon_c(w)) for k, w in v.items()) + '}'
    if isinstance(v, list):
        return '[' + ','.join(_canon_c(w) for w in v) + ']'
    if isinstance(v, tuple):
        return '(' + ','.join(_canon_c(w) for w in v) + ')'
    return type(v).__name__ + ':' + _canon(v)


def snapshot_any(q):
    if isinstance(q, odl.RectPartition):
        return snapshot(q)
    if isinstance(q, odl.RectGrid):
        return {'grid.coord_vectors': _canon(q.coord_vectors)}
    if isinstance(q, odl.IntervalProd):
        return {'set.min_pt': _canon(q.min_pt), 'set.max_pt': _canon(q.max_pt)}
    return {'value': _canon(q)}


def check_containers(cfg, reqref, exact, dxs, V):
    nd = len(reqref)
    r1 = reqref
    r2 = _shrunk(reqref)
    what0 = 'request %s' % (cfg['axes'],)

    def G(ref):
        return odl.RectGrid(*[_fl(a.nodes) for a in ref])

    # --- uniform_partition_fromgrid: dictionaries, also partial / empty / negative keys
    def dict_variants(ref):
        full = list(range(nd))
        yield 'full', full, full
        yield 'empty', [], []
        yield 'min axis 0', [0], []
        yield 'max last axis (negative key)', [], [-1]
        if nd > 1:
            yield 'axis 0 only', [0], [0]
            yield 'last axis only (negative keys)', [-1], [-1]
    grids = [(r1, 'grid 1'), (r2, 'shrunk grid'), (r1, 'grid 1 again')]
    lower = ([(r1[:-1], 'grid 1 without its last axis')] if nd > 1 else [])
    higher = [(list(r1) + [R.Ax(0, 2, [Fr(1, 2), Fr(3, 2)])], 'grid 1 with one more axis')]
    for vname, kmin, kmax in dict_variants(r1):
        def make(kmin=kmin, kmax=kmax):
            return {'min': dict((k, float(r1[k].lo)) for k in kmin),
                    'max': dict((k, float(r1[k].hi)) for k in kmax)}

        def model(ref, kmin=kmin, kmax=kmax):
            m = len(ref)
            gmin = set(k % m for k in kmin)
            gmax = set(k % m for k in kmax)
            out = []
            for ax, a in enumerate(ref):
                lo = r1[ax].lo if ax in gmin and ax < nd else None
                hi = r1[ax].hi if ax in gmax and ax < nd else None
                if (lo is None or hi is None) and a.n == 1:
                    return None
                if (lo is not None and lo > a.nodes[0]) or (hi is not None and hi < a.nodes[-1]):
                    return None
                out.append(R.nonuniform_axis(a.nodes, lo=lo, hi=hi))
            return out
        seqs = [grids]
        if all(k >= 0 for k in kmin + kmax):
            # the same dictionary is a valid request for grids with fewer / more axes
            if lower and all(k < nd - 1 for k in kmin + kmax):
                seqs.append([grids[0], lower[0], grids[0]])
            seqs.append([grids[0], higher[0]])
            seqs.append([higher[0], grids[0]])
        for seq in seqs:
            V.sigs.add('containers:fromgrid:%s' % vname)
            same = all(len(ref) == nd for ref, _ in seq)
            _twice(V, 'container_args[uniform_partition_fromgrid,dict%s]'
                   % ('' if same else ',grids of different ndim'),
                   '%s; dicts (%s) reused for %s' % (what0, vname, [n for _, n in seq]),
                   make,
                   lambda c, ref: odl.uniform_partition_fromgrid(G(ref), min_pt=c['min'],
                                                                 max_pt=c['max']),
                   [ref for ref, _ in seq], expect=[model(ref) for ref, _ in seq],
                   exact=all(ref_dyadic(ref) for ref, _ in seq))
    # --- lists: nodes_on_bdry (nested), min_pt / max_pt / shape / cell_sides, coordinate vectors
    lo1, hi1 = _fl(a.lo for a in r1), _fl(a.hi for a in r1)
    vec1 = [_fl(a.nodes) for a in r1]
    if cfg['kind'] == 'uni':
        flags = [[bool(a[3]), bool(a[4])] for a in cfg['axes']]
        shp = [a[2] for a in cfg['axes']]
        shp2 = [n + 1 for n in shp]
        cs = [1.0 if dx is None else float(dx) for dx in dxs]

        def mk():
            return {'lo': list(lo1), 'hi': list(hi1), 'nob': _deep(flags), 'cs': list(cs),
                    'none': [None] * nd}
        site = 'container_args[uniform_partition,lists]'
        _twice(V, site, '%s; min/max/nodes_on_bdry lists reused with shapes %s, %s, %s'
               % (what0, shp, shp2, shp), mk,
               lambda c, sh: odl.uniform_partition(c['lo'], c['hi'], list(sh),
                                                   nodes_on_bdry=c['nob']), [shp, shp2, shp])
        if all(dx is not None and dx > 0 for dx in dxs):
            _twice(V, site, '%s; min/[None]/cell_sides/nodes_on_bdry lists reused with shapes '
                   '%s, %s, %s' % (what0, shp, shp2, shp), mk,
                   lambda c, sh: odl.uniform_partition(c['lo'], c['none'], list(sh), c['cs'],
                                                       nodes_on_bdry=c['nob']),
                   [shp, shp2, shp])
            _twice(V, site, '%s; [None]/max/cell_sides/nodes_on_bdry lists reused' % what0, mk,
                   lambda c, sh: odl.uniform_partition(c['none'], c['hi'], list(sh), c['cs'],
                                                       nodes_on_bdry=c['nob']),
                   [shp, shp2, shp])
        _twice(V, 'container_args[uniform_partition_fromintv,lists]',
               '%s; shape / nodes_on_bdry lists reused' % what0,
               lambda: {'nob': _deep(flags), 'shape': list(shp)},
               lambda c, iv: odl.uniform_partition_fromintv(iv, c['shape'],
                                                            nodes_on_bdry=c['nob']),
               [odl.IntervalProd(lo1, hi1),
                odl.IntervalProd([v - 1 for v in lo1], [v + 2 for v in hi1]),
                odl.IntervalProd(lo1, hi1)])
        _twice(V, 'container_args[uniform_grid,lists]',
               '%s; min / max / nodes_on_bdry lists reused' % what0, mk,
               lambda c, sh: odl.uniform_grid(c['lo'], c['hi'], list(sh),
                                              nodes_on_bdry=c['nob']), [shp2, shp, shp2])
    nob_seq = [[[False, False]] * nd, [[True, False]] * nd, [[False, True]] * nd,
               [[False, False]] * nd]
    _twice(V, 'container_args[nonuniform_partition,lists]',
           '%s; coordinate vector lists reused with nodes_on_bdry %s' % (what0, nob_seq),
           lambda: {'vecs': _deep(vec1)},
           lambda c, nob: odl.nonuniform_partition(*c['vecs'], nodes_on_bdry=_deep(nob)),
           nob_seq, expect=[[R.nonuniform_axis(a.nodes, bl=f[0][0], br=f[0][1]) for a in r1]
                            for f in nob_seq], exact=ref_dyadic(r1))
    _twice(V, 'container_args[nonuniform_partition,lists]',
           '%s; coordinate vector / min_pt / max_pt lists reused' % what0,
           lambda: {'vecs': _deep(vec1), 'lo': list(lo1), 'hi': list(hi1), 'none': [None] * nd},
           lambda c, k: odl.nonuniform_partition(*c['vecs'],
                                                 min_pt=c['lo'] if k != 1 else c['none'],
                                                 max_pt=c['hi'] if k != 2 else c['none']),
           [0, 1, 2, 0])
    _twice(V, 'container_args[RectGrid/IntervalProd,lists]', '%s; lists reused' % what0,
           lambda: {'vecs': _deep(vec1), 'lo': list(lo1), 'hi': list(hi1)},
           lambda c, k: odl.RectPartition(odl.IntervalProd(c['lo'], c['hi']),
                                          odl.RectGrid(*c['vecs'])), [0, 1])


def _nonmutating(nd):
    """[(name, callable(partition, set, grid))]: methods documented / expected not to change
    the object they are called on."""
    other_i = odl.IntervalProd(0.0, 2.0)
    other_g = odl.RectGrid([0.5, 1.5])
    other_p = odl.RectPartition(other_i, other_g)
    calls = []

    def add(name, f):
        calls.append((name, f))
    for ax in range(nd):
        for pos in (0, 1, 2):
            add('IntervalProd.collapse', lambda p, s, g, ax=ax, pos=pos: s.collapse(
                ax, float(s.min_pt[ax] + (s.max_pt[ax] - s.min_pt[ax]) * pos / 2.0)))
    add('IntervalProd.collapse', lambda p, s, g: s.collapse(list(range(nd)),
                                                           [float(v) for v in s.mid_pt]))
    add('IntervalProd.squeeze', lambda p, s, g: s.squeeze())
    for i in range(-nd, nd + 1):
        add('IntervalProd.insert', lambda p, s, g, i=i: s.insert(i, other_i))
        add('RectGrid.insert', lambda p, s, g, i=i: g.insert(i, other_g))
        add('RectPartition.insert', lambda p, s, g, i=i: p.insert(i, other_p))
    add('IntervalProd.insert', lambda p, s, g: s.insert(0, s))
    add('RectGrid.insert', lambda p, s, g: g.insert(0, g))
    add('RectPartition.insert', lambda p, s, g: p.insert(0, p))
    add('IntervalProd.append', lambda p, s, g: s.append(other_i, s))
    add('RectGrid.append', lambda p, s, g: g.append(other_g, g))
    add('RectPartition.append', lambda p, s, g: p.append(other_p, p))
    for idx in [0, -1, slice(None), slice(None, None, 2), list(range(nd))[::-1], [0, 0]]:
        add('IntervalProd.__getitem__', lambda p, s, g, idx=idx: s[idx])
        add('RectPartition.byaxis', lambda p, s, g, idx=idx: p.byaxis[idx])
    for idx in [0, -1, slice(None), slice(None, None, 2), Ellipsis, (Ellipsis, 0), [0]]:
        add('RectGrid.__getitem__', lambda p, s, g, idx=idx: g[idx])
        add('RectPartition.__getitem__', lambda p, s, g, idx=idx: p[idx])
    add('RectGrid.squeeze', lambda p, s, g: (g.squeeze(), g.squeeze(axis=0)))
    add('RectPartition.squeeze', lambda p, s, g: (p.squeeze(), p.squeeze(axis=0)))
    for ex in (1.0, 2.0, float('inf')):
        add('IntervalProd.dist', lambda p, s, g, ex=ex: (
            s.dist(s.max_pt + 1.0, exponent=ex), s.dist(s.min_pt - 2.0, exponent=ex),
            s.dist(s.mid_pt, exponent=ex)))
    add('IntervalProd.contains_set', lambda p, s, g: (s.contains_set(g), s.contains_set(s),
                                                      s.contains_set(p, atol=0.5)))
    add('IntervalProd.contains_all', lambda p, s, g: (s.contains_all(g.points()),
                                                      s.contains_all(g.meshgrid),
                                                      s.contains_all(g)))
    add('IntervalProd.__contains__', lambda p, s, g: (s.mid_pt in s, (s.max_pt + 1) in s,
                                                      s.approx_contains(s.max_pt + 0.1, 0.2)))
    add('IntervalProd.element', lambda p, s, g: (s.element(), s.element(
        s.mid_pt if nd > 1 else float(s.mid_pt[0]))))
    add('IntervalProd.corners', lambda p, s, g: (s.corners(), s.corners(order='F')))
    add('IntervalProd.approx_equals', lambda p, s, g: (
        s.approx_equals(odl.IntervalProd(s.min_pt - 0.01, s.max_pt), atol=0.1), s == s,
        s != other_i, hash(s)))
    add('IntervalProd.measure', lambda p, s, g: (s.measure(), s.volume, s.true_ndim, s.mid_pt,
                                                 s.extent, s.min(), s.max(), len(s)))
    add('IntervalProd.arithmetic', lambda p, s, g: (s + 1.0, s - 1.0, s * 2.0, s * -1.0,
                                                    s / 2.0, -s, +s, s + s, s - s, s * s))
    add('IntervalProd.__repr__', lambda p, s, g: (repr(s), str(s)))
    add('RectGrid.points', lambda p, s, g: (g.points(), g.points(order='F'), g.corners(),
                                            g.corner_grid(), g.meshgrid, np.asarray(g)))
    add('RectGrid.approx_equals', lambda p, s, g: (
        g.approx_equals(other_g, atol=0.1), g == g, g != other_g, hash(g),
        g.is_subgrid(g), g.is_subgrid(other_g), g[...].is_subgrid(g, atol=0.1),
        g.approx_contains(g.min_pt, atol=0.1), g.min_pt in g, g.element(), g.convex_hull()))
    add('RectGrid.min/max', lambda p, s, g: (g.min(), g.max(), g.min(out=np.zeros(nd)),
                                             g.max(out=np.zeros(nd)), g.mid_pt, g.extent,
                                             g.stride, g.size, len(g), g.is_uniform))
    add('RectGrid.__repr__', lambda p, s, g: (repr(g), str(g)))
    add('RectPartition.index', lambda p, s, g: (
        p.index(s.mid_pt if nd > 1 else float(s.mid_pt[0])),
        p.index(s.max_pt if nd > 1 else float(s.max_pt[0]), floating=True)))
    add('RectPartition.approx_equals', lambda p, s, g: (
        p.approx_equals(other_p, atol=0.1), p.approx_equals(p[...], atol=0.0), p == p[...],
        p != other_p, hash(p)))
    add('RectPartition.points', lambda p, s, g: (p.points(), p.points(order='F'), p.meshgrid,
                                                 p.min(), p.max(), p.mid_pt, p.extent, len(p),
                                                 p.size, p.has_isotropic_cells))
    add('RectPartition.__repr__', lambda p, s, g: (repr(p), str(p), repr(p.byaxis)))
    return calls


def check_nonmutating(cfg, reqref, V):
    """Every non-mutating method of the set / grid / partition is called on the very objects a
    partition holds (and was built from); the partition must stay what it was."""
    nd = len(reqref)
    lo = _fl(a.lo for a in reqref)
    hi = _fl(a.hi for a in reqref)
    vecs = [_fl(a.nodes) for a in reqref]
    for name, call in _nonmutating(nd):
        intv = odl.IntervalProd(lo, hi)
        grid = odl.RectGrid(*vecs)
        p = odl.RectPartition(intv, grid)
        s0 = snapshot(p)
        site = 'non_mutating[%s]' % name
        for ss, gg in ((intv, grid), (p.set, p.grid)):
            V.evals += 1
            try:
                call(p, ss, gg)
            except Exception as e:       # noqa
                # whether the call itself is admissible is judged elsewhere (ops family)
                V.skipped += 1
                V.sigs.add('non-mutating-call-raises:%s:%s' % (name, type(e).__name__))
        s1 = snapshot(p)
        d = snap_diff(s0, s1)
        if d:
            V.add(site, 'partition_changed_by_non_mutating_call',
                  'partition {%s}: after %s on the objects the partition was built from '
                  '(and on part.set / part.grid), %s changed from %s to %s'
                  % (describe(reqref), name, d[0], s0[d[0]], s1[d[0]]))
    intv = odl.IntervalProd(lo, hi)
    grid = odl.RectGrid(*vecs)
    p = odl.RectPartition(intv, grid)
    for name, call in _nonmutating(nd):
        try:
            call(p, intv, grid)
        except Exception:       # noqa
            pass
    V.evals += 1
    invariants(p, 'non_mutating[all methods in sequence]', V,
               'partition {%s} after all non-mutating methods' % describe(reqref))
    compare(p, reqref, ref_dyadic(reqref), 'non_mutating[all methods in sequence]', V,
            'partition {%s} after all non-mutating methods' % describe(reqref))


# ------------------------------------------------------------------------------------------
# the bounded space

def _uni_tr(a, reg):
    return [_tr(a[0], reg), _tr(a[1], reg)] + list(a[2:])


def _uni_axes(reg=None):
    out = []
    for n in (SHAPES if reg is None else REG_SHAPES):
        for lim in LIMITS:
            for f in FLAGS:
                out.append(_uni_tr([lim[0], lim[1], n, f[0], f[1]], reg))
    for f in FLAGS:
        out.append(_uni_tr([1.0, 1.0, 1, f[0], f[1]], reg))   # degenerate interval, one node
    return out


def _non_axes():
    out = []
    for vid in range(len(VECS)):
        for f in FLAGS:
            out.append([vid, 'nob', f[0], f[1]])
        for u in range(len(OFFS)):
            for v in range(len(OFFS)):
                out.append([vid, 'lim', u, v])
    return out


UNI_SMALL = [[0.0, 1.0, 2, 0, 0], [-1.0, 2.5, 3, 1, 0], [0.25, 0.75, 1, 0, 0],
             [0.0, 1.0, 5, 1, 1]]
UNI_MED = UNI_SMALL + [[-1.0, 2.5, 2, 0, 1], [0.25, 0.75, 3, 0, 0], [1.0, 1.0, 1, 1, 1],
                       [0.0, 1.0, 1, 1, 0]]
NON_SMALL = [[0, 'lim', 2, 0], [1, 'nob', 0, 0], [3, 'nob', 0, 1], [2, 'lim', 1, 1]]
NON_MED = NON_SMALL + [[1, 'lim', 0, 2], [4, 'nob', 0, 0], [5, 'lim', 1, 2], [2, 'nob', 1, 1]]


def _star(full, small, nd):
    """All nd-tuples with at most one axis outside the small alphabet."""
    seen, out = set(), []
    for ax in range(nd):
        for t in itertools.product(*[full if k == ax else small for k in range(nd)]):
            k = repr(t)
            if k not in seen:
                seen.add(k)
                out.append([list(a) for a in t])
    return out


def _complexity(axes, kind):
    if kind == 'uni':
        return sum(a[2] for a in axes)
    if kind == 'non':
        return sum(len(VECS[a[0]]) for a in axes)
    if kind == 'hist':
        return sum(len(HVECS[i]) for i in axes)
    return sum(POOL[i].n for i in axes)


G2U = [[0.0, 1.0, 2, 0, 0], [-1.0, 2.5, 3, 1, 0], [0.25, 0.75, 1, 0, 0]]
G2N = [[0, 'lim', 2, 0], [1, 'nob', 0, 0], [2, 'lim', 1, 1]]


def _prod(alph, nd):
    return [[list(a) for a in t] for t in itertools.product(alph, repeat=nd)]


def configs(tier):
    thorough = tier == 'thorough'
    U, N = _uni_axes(), _non_axes()
    bases = []           # (kind, axes, whats)
    RP = ['routes', 'points']
    G1 = ['getitem2'] if thorough else ['getitem']
    # 1-d: the full per-axis alphabets
    for a in U:
        bases.append(('uni', [a], RP + G1 + ['alias']))
    for a in N:
        bases.append(('non', [a], RP + G1 + ['alias']))
    for t in (_star(U, UNI_SMALL, 2) if thorough else _prod(UNI_SMALL, 2)):
        bases.append(('uni', t, ['alias']))
    for t in (_star(N, NON_SMALL, 2) if thorough else _prod(NON_SMALL, 2)):
        bases.append(('non', t, ['alias']))
    for t in _prod(UNI_SMALL[:3] if thorough else UNI_SMALL[:2], 3):
        bases.append(('uni', t, ['alias']))
    if thorough:
        # 2-d
        for t in _prod(U, 2):
            bases.append(('uni', t, RP))
        for t in _star(N, NON_MED, 2):
            bases.append(('non', t, RP))
        for t in _star(U, G2U, 2):
            bases.append(('uni', t, ['getitem']))
        NG = [a for a in N if a[1:] in (['nob', 0, 0], ['nob', 1, 1], ['lim', 1, 2],
                                        ['lim', 0, 1])]
        for t in _star(NG, G2N, 2):
            bases.append(('non', t, ['getitem']))
        for t in _prod(G2U, 2):
            bases.append(('uni', t, ['getitem2']))
        for t in _prod(G2N, 2):
            bases.append(('non', t, ['getitem2']))
        # 3-d
        for t in _star(U, UNI_SMALL[:3], 3):
            bases.append(('uni', t, RP))
        for t in _prod(UNI_SMALL, 3):
            bases.append(('uni', t, RP))
        for t in _prod(NON_SMALL, 3):
            bases.append(('non', t, RP))
        for t in _prod(G2U, 3):
            bases.append(('uni', t, ['getitem']))
        for t in _prod(G2N, 3):
            bases.append(('non', t, ['getitem']))
    else:
        for t in _star(U, UNI_SMALL, 2):
            bases.append(('uni', t, RP))
        for t in _star(N, NON_SMALL, 2):
            bases.append(('non', t, RP))
        for t in _prod(G2U, 2):
            bases.append(('uni', t, ['getitem']))
        for t in _prod(G2N, 2):
            bases.append(('non', t, ['getitem']))
        for t in _prod(UNI_SMALL, 3):
            bases.append(('uni', t, RP))
        for t in _prod(NON_SMALL[:3], 3):
            bases.append(('non', t, RP))
        bases.append(('uni', [G2U[1], G2U[2], G2U[0]], ['getitem']))
        bases.append(('uni', [G2U[2], G2U[0], G2U[0]], ['getitem']))
        bases.append(('non', [G2N[0], G2N[1], G2N[2]], ['getitem']))
    # magnitude regimes (see REGIMES): the 1-d alphabets in full; 2-d: both axes in the regime
    # and one axis in the regime next to a standard one (either order)
    regbases = []        # (kind, axes, whats, regs)
    for reg in REG_ORDER:
        UR = _uni_axes(reg)
        for a in UR:
            regbases.append(('uni', [a], RP + ['getitem'], [reg]))
        for a in N:
            regbases.append(('non', [a], RP + ['getitem'], [reg]))
        small_r = [_uni_tr(a, reg) for a in UNI_SMALL]
        for a in small_r:
            regbases.append(('uni', [a], ['alias'], [reg]))
        for a in NON_SMALL:
            regbases.append(('non', [a], ['alias'], [reg]))
        two = [(x, y, [reg, reg]) for x in small_r for y in small_r]
        two += [(x, y, [reg, None]) for x in small_r for y in UNI_SMALL[:3]]
        two += [(x, y, [None, reg]) for x in UNI_SMALL[:3] for y in small_r]
        for x, y, rg in two:
            regbases.append(('uni', [list(x), list(y)], RP if thorough or rg[0] == rg[1]
                             else ['routes'], rg))
        for x in NON_SMALL:
            for y in NON_SMALL:
                regbases.append(('non', [list(x), list(y)], RP, [reg, reg]))
    # products of pool partitions for insert / append / squeeze / byaxis
    np_ = len(POOL)
    for nd in (1, 2, 3):
        ids = range(np_) if (thorough or nd < 3) else range(4)
        for t in itertools.product(ids, repeat=nd):
            bases.append(('pool', list(t), ['ops']))
    for t in itertools.product(range(3), repeat=4) if thorough else []:
        bases.append(('pool', list(t), ['ops']))
    hist = []
    nh = len(HVECS)
    for nd in ((1, 2, 3) if thorough else (1, 2)):
        ids = range(nh) if nd < 3 else range(3)
        for t in itertools.product(ids, repeat=nd):
            for mode in ('fromgrid', 'RectPartition'):
                hist.append({'kind': 'hist', 'axes': list(t), 'what': 'history', 'mode': mode,
                             'nparts': 3 if thorough else 2, 'depth': 2})
                if thorough and nd < 3:
                    hist.append({'kind': 'hist', 'axes': list(t), 'what': 'history',
                                 'mode': mode, 'nparts': 3, 'depth': 3})
    cfgs, seen = [], set()
    for kind, axes, whats in bases:
        for w in whats:
            c = {'kind': kind, 'axes': axes, 'what': w.rstrip('2')}
            if w == 'getitem2':
                c['full2'] = 1
            k = repr(c)
            if k not in seen:
                seen.add(k)
                cfgs.append(c)
    # a base explored with the full second round is not explored again with the reduced one
    full = set(repr((c['kind'], c['axes'])) for c in cfgs if c.get('full2'))
    cfgs = [c for c in cfgs if not (c['what'] == 'getitem' and not c.get('full2')
                                    and repr((c['kind'], c['axes'])) in full)]
    for kind, axes, whats, rg in regbases:
        for w in whats:
            cfgs.append({'kind': kind, 'axes': axes, 'what': w, 'reg': rg})
    cfgs += hist
    cfgs.sort(key=lambda c: (len(c['axes']), 1 if c.get('reg') else 0,
                             _complexity(c['axes'], c['kind'])))
    return cfgs


def run(cfg):
    regs = cfg.get('reg')
    _STATE['unit'] = _unit_of(regs)
    _STATE['regime'] = bool(regs)
    if cfg['kind'] == 'hist':
        return run_history(cfg)
    V = Viol(_suffix_of(regs))
    b = base_of(cfg, V)
    nd = len(cfg['axes'])
    V.sigs.add('%s:%dd:%s' % (cfg['kind'], nd, cfg['what']))
    if regs:
        V.sigs.add('regime:%s' % '/'.join(str(r) for r in regs))
    if b is None:
        V.sigs.add('no-base')
        return V.result(trivial=not V.first)
    p, ref, exact, dxs = b
    site = site_of(cfg)
    V.sigs.add('exact' if exact else 'tolerance')
    V.sigs.add('nob:%r' % (p.nodes_on_bdry,))
    w = cfg['what']
    if w == 'routes':
        if cfg['kind'] == 'uni':
            uniform_routes(cfg, p, ref, exact, dxs, V)
        else:
            grid_routes(site, p, non_ref(cfg['axes'], regs), exact, V)
    elif w == 'points':
        check_points(p, site + '.index', V, 'base %s' % (cfg['axes'],), star=(nd >= 3),
                     forms=True)
    elif w == 'getitem':
        nch, ng = explore_getitem(p, ref, site, V, full2=bool(cfg.get('full2')),
                                  points_star=(nd >= 2))
        return V.result(sample={'distinct_children': nch, 'distinct_grandchildren': ng})
    elif w == 'alias':
        req = (uni_ref(cfg['axes'])[0] if cfg['kind'] == 'uni'
               else non_ref(cfg['axes'], regs))
        check_aliasing(cfg, p, req, exact, dxs, V)
        check_containers(cfg, req, exact, dxs, V)
        check_nonmutating(cfg, req, V)
    elif w == 'ops':
        others = [[POOL[i]] for i in range(len(POOL))] + [[POOL[2], POOL[1]]]
        check_ops(p, ref, V, others, thorough=(nd <= 2))
    return V.result()


def trace_functions():
    RP = OP.RectPartition
    return [OG.RectGrid.stride, RP.__init__, RP.__getitem__, RP.index, RP.squeeze, RP.insert, RP.nodes_on_bdry,
            RP.cell_sizes_vecs, RP.boundary_cell_fractions, RP.cell_sides,
            OP.uniform_partition, OP.uniform_partition_fromgrid, OP.uniform_partition_fromintv,
            OP.nonuniform_partition, OG.RectGrid.__getitem__, OG.RectGrid.insert,
            OG.RectGrid.squeeze, OG.uniform_grid_fromintv, ON.normalized_index_expression,
            ON.normalized_nodes_on_bdry, odl.IntervalProd.insert, odl.IntervalProd.collapse]


def summarize(results):
    by = {}
    children = 0
    for cfg, res in results:
        k = '%s/%dd/%s' % (cfg['kind'], len(cfg['axes']), cfg['what'])
        e = by.setdefault(k, [0, 0])
        e[0] += 1
        e[1] += res['evals']
        s = res.get('sample')
        if isinstance(s, dict):
            children += s.get('distinct_children', 0)
    return {'states_and_evaluations_by_family': by, 'distinct_child_partitions_explored': children}


def meta(tier):
    return {
        'rule': 'one state = one base partition (uniform: per-axis (limits, shape, per-side '
                'nodes_on_bdry); non-uniform: per-axis (coordinate vector, flags or explicit '
                'limits); product of pool partitions) x one family of checks. routes: every '
                'per-axis combination of the 3- and 4-parameter subsets of (min_pt, max_pt, '
                'shape, cell_sides), every documented spelling of nodes_on_bdry, fromintv, '
                'fromgrid (sequence / dict / partial dict / negative keys), RectPartition, '
                'nonuniform_partition (limits / flags / mixture). points: index(p) and '
                'index(p, floating=True) for the product of the per-axis point sets (all cell '
                'boundaries, nodes, midpoints, quarter points) and p[p.index(pt)]. getitem: every '
                'index expression of the alphabet, then from every distinct child the '
                'invariants, the point check and a second round of index expressions (depth 2). '
                'ops: insert/append/squeeze/byaxis with all positions / axis subsets / axis '
                'sequences. alias: every constructor argument that may be an array is passed '
                'as a float64/int64 ndarray and overwritten in place afterwards (+= and NaN); '
                'every writeable array returned by a property or method of the partition, its '
                'set and its grid is overwritten; the snapshot of all observables must stay '
                'identical and the model comparison and invariants must still hold; every '
                'dict / list argument (min_pt / max_pt dicts incl. partial, empty, negative '
                'keys; nodes_on_bdry, shape, cell_sides, min/max and coordinate vector lists) is '
                'reused for 2-4 calls with different other arguments (other grid of the same, '
                'lower and higher ndim; other shape; other flags) and each result must equal '
                'the result with a fresh equal container; every non-mutating method of the '
                'set, grid and partition is called on the objects the partition holds and the '
                'snapshot must stay identical. '
                'magnitude regimes: the 1-d alphabets in full (uniform: + shape 7) and 2-d '
                'products of the small alphabets (both axes in the regime; one regime axis next '
                'to a standard axis, either order) are visited again under x -> s*x + o with '
                '(s, o) = (1, 1e9), (1, -3e8) [far from the origin: |x|/stride ~ 1e9..1e10], '
                '(1e-9, 0) [tiny] and (1e9, 0) [huge], families routes / points / getitem (1-d), '
                'routes (+ points) (2-d), alias on the small alphabets; sites of these states end in '
                '@far / @tiny / @huge. Every route result of a partition built as uniform is '
                'also held to the uniform clauses (is_uniform, cell side x count = extent, '
                'requested cell side); uniform_partition operands also as tuples and, in 1-d, '
                'as NumPy scalars. '
                'history: one RectGrid object (incl. 1-point axes) shared by 2-3 '
                'partitions of different sets (uniform_partition_fromgrid / RectPartition(set, '
                'p.grid)); every sequence of readings (8 partition observables per partition, 3 '
                'grid observables) up to depth 2 (depth 3 on 4 observables, thorough); each '
                'reading equals the reading on an independently built twin and the shared '
                'grid keeps the observables of a fresh grid. All points of the domain are '
                'decided per cell by the points listed '
                '(index is piecewise affine between cell boundaries). distinct = distinct '
                '(family, exactness class, nodes_on_bdry form, route set, child count, '
                'executed-line signature)',
        'bounds': {'ndim': [1, 2, 3], 'shapes': SHAPES, 'limits': LIMITS + [[1.0, 1.0]],
                   'nodes_on_bdry': FLAGS, 'coordinate_vectors': VECS, 'limit_offsets': OFFS,
                   'slice_ends': SL_ENDS, 'slice_steps': SL_STEPS,
                   '2d': 'full product (thorough) / one axis full, other from 4 (quick)',
                   '3d': 'one axis full, others from 3, plus 4^3 (thorough) / 4^3 (quick)',
                   'depth': 2,
                   'magnitude_regimes': dict((k, list(v)) for k, v in REGIMES.items()),
                   'regime_shapes': REG_SHAPES},
        'assumptions': [
            'exact comparison where the reference numbers are dyadic; otherwise 1e-12*max(1,|v|)',
            'sub-partitions are compared exactly with the selected cells of the parent',
            'a point on an inner cell boundary may be attributed to either closed cell',
            'strided slices keep the hull of start:stop (documented in __getitem__); the hull '
            'of a non-contiguous index list is not documented and only has to contain the nodes',
            'negative slice steps, empty selections, lists inside tuples are not documented as '
            'supported and not enumerated',
            'cell_sides of an axis with a single node sitting on a boundary is not specified',
            'magnitude regimes: nothing is exact; lengths are compared with 1e-12 * (magnitude of '
            'the coordinates of the state), dimensionless ratios (cell fractions, fractional '
            'index) with 1e-12 * max(1, |x| / smallest cell width)',
            'a partition built as uniform must report is_uniform wherever its domain lies; '
            'whether a partition with non-equispaced nodes may report is_uniform (within the '
            "library's tolerance) is not judged (counted under skipped)",
        ],
    }
