"""C13 - finite-difference operators equal reference stencils; adjoints are transposes.

Exploration: configuration space.  One state = (operator kind, difference method, padding mode,
pad constant, grid shape, dtype, cell sides, constructor / memory-layout variant).  Inside a
state the real code is executed on *every* basis vector of the domain (``e_k``, and ``i e_k`` on
complex spaces), on the zero vector (affine offset), on dense probe vectors (affinity; for
domains with at most 4 entries on all of V^N) - out of place and in place - and the same is done
for the operator returned by ``.adjoint`` and by ``.derivative(point)``.

Oracle (``mc/ref/fd.py``, self-tested in ``tests/test_c13_ref.py``): textbook stencil on the array
extended by the named boundary rule, divided by the cell side; adjoint modes are minus the
transpose of the primal mode with the dual method.  Then, implementation against itself:
``matrix(op.adjoint) == matrix(op)^H``, ``Divergence(dual method, dual mode) == -Gradient^T``,
``derivative`` of the constant-padded affine variant == zero-padded operator, in-place ==
out-of-place, ``is_linear`` == (offset is zero).

History forms (every operator state, also for ``.adjoint`` and ``.derivative``): (a) the
out-of-place results of all basis vectors are kept as returned OBJECTS and read again only after
the last call - they must still be what they were when returned (``kept_result_changed``);
(b) (states with unit cell sides and all constructor variants) the one operator object that
served all of the above is then driven through the sequence
in-place (non-zero buffer) / out-of-place / in-place into the same, previously used buffer / ...
and every result must equal that of a freshly built operator (``history_differs_from_fresh``);
(c) the same for ``op.adjoint`` obtained once and reused.

Regimes (small shapes of every ndim, every operator x method x mode x pad_const):
* magnitude of the cell side: next to the special value 1 on both sides at the distances 2**-40
  and 2**-18 (``near1``, ``near1m``: a tolerance where an exact comparison with 1 is meant, a
  division skipped "for unit steps"), tiny (dyadic * 2**-30) and huge (dyadic * 2**20) cell
  sides (a magnitude guard / absolute tolerance on dx or dx**2);
* magnitude of the values: all inputs and the pad constant times 2**-40 / 2**40 (``vs``; a
  "pad_const != 0" or "input is zero" decided with a tolerance);
* sizes: one axis of 101 entries and a 12 x 11 grid (beyond the 100-entry switch of odl's element
  arithmetic, which the adjoint ``-Op`` runs through); axes of length 1 beside the
  differentiated axis (finite_diff / PartialDerivative);
* calling conventions: only non-default keywords given (documented defaults), all arguments
  positional (documented order), dx as Python int / numpy.float32, pad_const as Python int;
  spaces with nodes on one boundary only and with a constant weighting other than the cell volume;
* derived objects of derived objects: ``op.adjoint.adjoint`` (== op), ``op.derivative(p).adjoint``
  of the affine variants (== transpose of the zero-padded matrix); documented default spaces
  (``Gradient(dom).range == ProductSpace(dom, ndim)``, ``PartialDerivative(dom, ax).range == dom``).

Arithmetic: for dyadic cell sides (1, 1/2, 1/4, 2, and these times a power of two) every quantity
is a small dyadic rational times a power of two, so equality is demanded to the last bit (float32
included).  For the other cell sides (0.3, 0.7, 1.3; 1 +- 2**-40, 1 +- 2**-18) the tolerance is
4 * eps(dtype) * (largest magnitude of the compared reference).
"""
import itertools

import numpy as np
import odl
from odl.discr import diff_ops as DO

from mc import spaces as S
from mc.ref import fd

PROPERTY = 'C13'
BUDGET = {'quick': 1500, 'thorough': 3000}

KINDS = ('fd', 'pd', 'grad', 'div', 'lap')
CLS = {'fd': 'finite_diff', 'pd': 'PartialDerivative', 'grad': 'Gradient', 'div': 'Divergence',
       'lap': 'Laplacian'}
DTYPES = ('float64', 'complex128', 'float32')
# per-axis cell sides; different per axis so that a mixed-up axis shows
H = {'unit': (1.0, 1.0, 1.0), 'dyadic': (0.5, 0.25, 2.0), 'nondyadic': (0.3, 0.7, 1.3),
     # magnitude regimes of the cell side ("dx : float ... distance between sampling points":
     # every positive finite float is admissible).
     # 'tiny' / 'huge': the dyadic triple shifted by 2**-30 / 2**20 - still exact arithmetic;
     # an absolute tolerance or a magnitude guard on dx in the library shows here
     'tiny': (2.0 ** -31, 2.0 ** -32, 2.0 ** -29), 'huge': (2.0 ** 19, 2.0 ** 18, 2.0 ** 21),
     # 'near1*': cell sides next to - but different from - the special value 1 (for which the
     # division is the identity), at two distances and on both sides: 2**-40 ~ 9e-13 (inside
     # any practical tolerance band, 1000x above the 4-ulp tolerance of the oracle in double)
     # and 2**-18 ~ 3.8e-6 (inside the default band of numpy.isclose, visible in single)
     'near1': (1.0 + 2.0 ** -40, 1.0 - 2.0 ** -18, 1.0 + 2.0 ** -18),
     'near1m': (1.0 - 2.0 ** -18, 1.0 + 2.0 ** -40, 1.0 - 2.0 ** -40),
     # integral steps, handed to finite_diff as Python ints (variant 'dxint')
     'int': (2.0, 1.0, 4.0)}
BASE_HS = ('unit', 'dyadic', 'nondyadic')
HS = ('unit', 'dyadic', 'nondyadic', 'int', 'tiny', 'huge', 'near1', 'near1m')
# cell sides by which the division is not exact: tolerance 4 eps * magnitude
INEXACT_H = ('nondyadic', 'near1', 'near1m')
DEFAULT_VAR = {'fd': 'c', 'pd': 'default', 'grad': 'domain', 'div': 'range', 'lap': 'default'}
# fd: memory layout of f and out; 'list': f given as a nested list (documented "array-like")
# operators: how domain / range are passed; 'otherprec': range of the other real precision;
# 'bdry': nodes_on_bdry=True (cell side = node spacing max/(n-1))
# all kinds: 'minkw': only the keywords that differ from the documented defaults are given
# (finite_diff docstring: "Per default forward difference with dx=1 and no padding is used
# ... Parameters can be changed one by one"; signature defaults method='forward',
# pad_mode='constant', pad_const=0, dx=1.0, range=None); 'positional': every argument given
# positionally in the documented order of the signature
# fd: 'dxint' / 'dxf32': the step given as a Python int / a numpy.float32 scalar
# operators: 'weight': domain with a constant weighting other than the cell volume (uniformly
# weighted all the same: adjoint == transpose is demanded)
# all kinds: 'cint': the pad constant given as a Python int (2 instead of 1.5; constant mode)
# operators: 'bdrymix': nodes_on_bdry given per side, [(True, False), (False, True),
# (True, True)] for axes 0, 1, 2 (a grid point on one boundary only: the cell side is
# extent / (n - 1/2))
VARIANTS = {'fd': ('forder', 'strided', 'list', 'minkw', 'positional', 'dxint', 'dxf32', 'cint'),
            'pd': ('explicit', 'otherprec', 'bdry', 'bdrymix', 'minkw', 'positional', 'weight',
                   'cint'),
            'grad': ('range', 'both', 'otherprec', 'bdry', 'bdrymix', 'minkw', 'positional',
                     'weight', 'cint'),
            'div': ('domain', 'both', 'otherprec', 'bdry', 'bdrymix', 'minkw', 'positional',
                    'weight', 'cint'),
            'lap': ('explicit', 'otherprec', 'bdry', 'bdrymix', 'minkw', 'positional', 'weight',
                    'cint')}
BDRY_SIDES = ((True, False), (False, True), (True, True))
# cell sides of the variant states (default: dyadic)
VAR_H = {('fd', 'minkw'): ('unit', 'dyadic'), ('fd', 'dxint'): ('int',)}
WEIGHT = 2.0
# the documented defaults (signatures and "Per default ..." sentence of the docstrings)
FD_DEFAULTS = {'dx': 1.0, 'method': 'forward', 'pad_mode': 'constant', 'pad_const': 0}
V_SMALL = (-1.0, 0.5, 2.0)
GARBAGE = 7.25


class LibErr(Exception):
    """An exception raised by odl inside an admissible configuration."""

    def __init__(self, what, exc):
        Exception.__init__(self, what)
        self.what = what
        self.exc = exc


def _lib(what, fn, *a, **kw):
    try:
        return fn(*a, **kw)
    except Exception as e:        # noqa: B902 - every library exception is an observation
        raise LibErr(what, e)


# ------------------------------------------------------------------------------------------
# enumeration

def _shapes(tier):
    s1 = [(n,) for n in range(2, 10)]
    if tier == 'thorough':
        s2 = list(itertools.product(range(2, 6), repeat=2))
        s3 = list(itertools.product(range(2, 5), repeat=3))
    else:
        s2 = list(itertools.product(range(2, 5), repeat=2))
        s3 = list(itertools.product(range(2, 4), repeat=3))
    return s1 + s2 + s3


VAR_SHAPES = [(2,), (3,), (4,), (2, 3), (3, 2, 2)]
REGIME_HS = ('near1', 'near1m', 'tiny', 'huge')
REGIME_SHAPES = [(2,), (3,), (4,), (5,), (2, 3), (3, 3), (3, 2, 2)]
VALUE_SCALES = (-40, 40)
LARGE_SHAPES = [(101,), (12, 11)]
ONE_SHAPES = [(1, 2), (3, 1), (1, 4, 1), (2, 1, 3)]


def _combos(kind, dtype, extra, ignored=None):
    """(method, mode, c) triples; c is JSON: a number or [re, im]."""
    ignored = extra if ignored is None else ignored
    methods = fd.METHODS if kind != 'lap' else (None,)
    modes = fd.MODES if kind != 'lap' else fd.LAPLACIAN_MODES
    for mode in modes:
        for method in methods:
            cs = [0]
            if mode == 'constant':
                cs.append(1.5)
                if dtype == 'complex128' and extra:
                    cs.append([1.5, -0.5])
            elif ignored:
                # pad_const is documented to matter for 'constant' only: must be ignored
                cs.append(1.5)
            for c in cs:
                yield method, mode, c


def _admissible(kind, mode, shape):
    need = fd.MIN_SIZE[mode]
    if kind in ('fd', 'pd'):
        return any(s >= need for s in shape)        # inadmissible axes are left out in run()
    return all(s >= need for s in shape)


def configs(tier):
    thorough = tier == 'thorough'
    if thorough:
        dh = [(d, h) for d in DTYPES for h in BASE_HS]
    else:
        dh = [('float64', 'unit'), ('float64', 'nondyadic'), ('float32', 'dyadic'),
              ('complex128', 'dyadic')]
    out = []
    for shape in _shapes(tier):
        for dtype, h in dh:
            for kind in KINDS:
                # deviations: complex pad constant (thorough: everywhere) and "pad_const given
                # with a non-constant mode" (1-d and the small shapes); quick: small shapes
                small = shape in VAR_SHAPES and h != 'nondyadic'
                extra = thorough or small
                ignored = small or (thorough and len(shape) == 1)
                for method, mode, c in _combos(kind, dtype, extra, ignored):
                    if not _admissible(kind, mode, shape):
                        continue
                    out.append({'kind': kind, 'method': method, 'mode': mode, 'c': c,
                                'shape': list(shape), 'dtype': dtype, 'h': h,
                                'var': DEFAULT_VAR[kind]})
    # magnitude regimes of the cell side: next to 1 (both sides, two distances), tiny, huge
    if thorough:
        rdh = [(d, h) for d in DTYPES for h in REGIME_HS]
        rshapes = [(n,) for n in range(2, 10)] + REGIME_SHAPES[4:]
    else:
        rdh = [('float64', 'near1'), ('float64', 'near1m'), ('float32', 'near1m'),
               ('float64', 'tiny'), ('float32', 'huge'), ('complex128', 'huge')]
        rshapes = REGIME_SHAPES
    for shape in rshapes:
        for dtype, h in rdh:
            for kind in KINDS:
                for method, mode, c in _combos(kind, dtype, False):
                    if not _admissible(kind, mode, shape):
                        continue
                    out.append({'kind': kind, 'method': method, 'mode': mode, 'c': c,
                                'shape': list(shape), 'dtype': dtype, 'h': h,
                                'var': DEFAULT_VAR[kind]})
    # magnitude regimes of the VALUES: all inputs and the pad constant times 2**vs (a power of
    # two: the arithmetic stays exact); tiny values show an absolute tolerance / a "== 0"
    # written as "is close to 0" (is_linear, derivative, shortcuts for zero input)
    for shape in VAR_SHAPES:
        for dtype, h in ([(d, h) for d in DTYPES for h in ('unit', 'dyadic')] if thorough else
                         [('float64', 'dyadic'), ('float32', 'unit'), ('complex128', 'unit')]):
            for kind in KINDS:
                for vs in VALUE_SCALES:
                    for method, mode, c in _combos(kind, dtype, False):
                        if not _admissible(kind, mode, shape):
                            continue
                        out.append({'kind': kind, 'method': method, 'mode': mode,
                                    'c': c * 2.0 ** vs, 'shape': list(shape), 'dtype': dtype,
                                    'h': h, 'var': DEFAULT_VAR[kind], 'vs': vs})
    # grids with axes of length 1 next to the differentiated one (finite_diff and
    # PartialDerivative only need "at least two elements" along ``axis``; the other
    # operators differentiate along every axis and are not admissible here)
    for shape in ONE_SHAPES:
        for dtype, h in ([(d, h) for d in DTYPES for h in ('unit', 'dyadic')] if thorough else
                         [('float64', 'dyadic'), ('float32', 'unit')]):
            for kind in ('fd', 'pd'):
                for method, mode, c in _combos(kind, dtype, False):
                    if not _admissible(kind, mode, shape):
                        continue
                    out.append({'kind': kind, 'method': method, 'mode': mode, 'c': c,
                                'shape': list(shape), 'dtype': dtype, 'h': h,
                                'var': DEFAULT_VAR[kind]})
    # axis lengths / sizes beyond the size thresholds of the element arithmetic below the
    # operators (odl switches its lincomb implementation at 100 entries)
    for shape in LARGE_SHAPES:
        for dtype, h in [('float64', 'unit'), ('float32', 'dyadic')]:
            if thorough or dtype == 'float64':
                for kind in KINDS:
                    for method, mode, c in _combos(kind, dtype, False):
                        out.append({'kind': kind, 'method': method, 'mode': mode, 'c': c,
                                    'shape': list(shape), 'dtype': dtype, 'h': h,
                                    'var': DEFAULT_VAR[kind]})
    # constructor / layout deviations from the default, on small shapes with dyadic cell sides
    for shape in VAR_SHAPES:
        for dtype in (DTYPES if thorough else ('float64', 'float32')):
            for kind in KINDS:
                for var in VARIANTS[kind]:
                    if var == 'otherprec' and dtype == 'complex128':
                        continue
                    if var == 'list' and dtype != 'float64':
                        continue        # a nested list of Python floats is a float64 array
                    for h in VAR_H.get((kind, var), ('dyadic',)):
                        for method, mode, c in _combos(kind, dtype, False):
                            if not _admissible(kind, mode, shape):
                                continue
                            if var == 'cint':
                                if mode != 'constant':
                                    continue
                                c = 2 if c else 0
                            out.append({'kind': kind, 'method': method, 'mode': mode, 'c': c,
                                        'shape': list(shape), 'dtype': dtype, 'h': h,
                                        'var': var})

    def key(c):
        n = int(np.prod(c['shape']))
        return (c['var'] != DEFAULT_VAR[c['kind']], len(c['shape']), n,
                DTYPES.index(c['dtype']), HS.index(c['h']), KINDS.index(c['kind']))
    out.sort(key=key)
    return out


# ------------------------------------------------------------------------------------------
# helpers

def _const(c):
    if isinstance(c, (list, tuple)):
        return complex(c[0], c[1])
    return float(c)


def _site(cfg):
    c = _const(cfg['c'])
    parts = ([cfg['method']] if cfg['method'] else []) + [cfg['mode']]
    if c != 0:
        parts.append('pad_const!=0')
    # the constructor / layout variant is part of the detail, not of the site - except the
    # array-like input, which is a calling convention of its own
    if cfg['var'] == 'list':
        return 'finite_diff[f=nested list]'
    return '%s[%s]' % (CLS[cfg['kind']], ','.join(parts))


def _geometry(shape, h, bdry=False):
    hs = H[h][:len(shape)]
    if bdry == 'mix':
        # a node on the boundary at the sides named in BDRY_SIDES only: the boundary cells of
        # those sides are half cells, n - 1 + (number of sides without a node) / 2 cells in all
        ncell = [n - 1 + 0.5 * ((not lo) + (not hi))
                 for n, (lo, hi) in zip(shape, BDRY_SIDES)]
        max_pt = [k * s for k, s in zip(ncell, hs)]
        dxs = [m / k for m, k in zip(max_pt, ncell)]
    elif bdry:
        # nodes on the boundary: n nodes from 0 to max, spacing max / (n - 1)
        max_pt = [(n - 1) * s for n, s in zip(shape, hs)]
        dxs = [m / (n - 1) for m, n in zip(max_pt, shape)]
    else:
        max_pt = [n * s for n, s in zip(shape, hs)]
        # the cell side of a uniform partition of [0, max] into n cells
        dxs = [m / n for m, n in zip(max_pt, shape)]
    return max_pt, dxs


def _space(shape, dtype, h, bdry=False, weighting=None):
    max_pt, dxs = _geometry(shape, h, bdry)
    kw = {} if weighting is None else {'weighting': weighting}
    nob = list(BDRY_SIDES[:len(shape)]) if bdry == 'mix' else bdry
    sp = odl.uniform_discr([0.0] * len(shape), max_pt, shape, dtype=dtype, nodes_on_bdry=nob,
                           **kw)
    return sp, dxs


def _other(dtype):
    return {'float64': 'float32', 'float32': 'float64'}[dtype]


def _eps(*dtypes):
    return max(float(np.finfo(np.dtype(d)).eps) for d in dtypes)


def _probes(n, cplx):
    k = np.arange(n)
    p1 = ((3 * k * k + k + 1) % 9 - 4) / 2.0
    p2 = ((5 * k + 2) % 7 - 3).astype(float)
    ps = [p1, p2, p1 - 2.0 * p2]
    if cplx:
        ps = [p1 + 1j * p2, p2 - 0.5j * p1, (1 + 1j) * (p1 - 2.0 * p2)]
    if n <= 4:
        ps = ps + [np.array(t) * ((1 - 0.5j) if cplx else 1.0)
                   for t in itertools.product(V_SMALL, repeat=n)]
    return ps


def _uniform_weight(space):
    """Constant weight of a uniformly weighted (power) space, or None."""
    w = getattr(space.weighting, 'const', None)
    if w is None:
        return None
    if S.is_pspace(space):
        ws = [_uniform_weight(s) for s in space]
        if any(x is None for x in ws) or len(set(ws)) != 1:
            return None
        return float(w) * ws[0]
    return float(w)


class Rec(object):
    """Collects the first failing inner case per symptom and the counters of one state."""

    def __init__(self, cfg):
        self.site = _site(cfg)
        self.cfg = cfg
        self.first = {}
        self.evals = 0
        self.skipped = 0
        self.ctx = ''
        # magnitude of the inputs: basis vectors are s * e_k, probes s * p (s a power of two)
        self.s = 2.0 ** cfg.get('vs', 0)

    def bad(self, symptom, detail):
        if symptom not in self.first:
            c = self.cfg
            self.first[symptom] = ('%s shape=%s dtype=%s cell_sides=%s%s %s: %s'
                                   % (CLS[c['kind']], tuple(c['shape']), c['dtype'],
                                      tuple(repr(x) for x in H[c['h']][:len(c['shape'])]),
                                      ' inputs scaled by 2**%d' % c['vs'] if c.get('vs') else '',
                                      self.ctx, detail))

    def result(self, sig):
        return {'evals': self.evals, 'skipped': self.skipped, 'sig': sig,
                'trivial': self.evals == 0,
                'viol': [{'site': self.site, 'symptom': s, 'detail': d}
                         for s, d in sorted(self.first.items())]}


def _mismatch(got, ref, exact, eps, scale):
    """Index of the first entry of ``got`` not matching ``ref`` (None if all match)."""
    got = np.asarray(got)
    ref = np.asarray(ref)
    if got.shape != ref.shape:
        return ()
    g = got.astype(np.clongdouble if np.iscomplexobj(got) else np.longdouble)
    if exact:
        ok = (g == ref)
    else:
        ok = np.abs(g - ref) <= 4.0 * eps * scale
    if ok.all():
        return None
    return tuple(int(i) for i in np.argwhere(~ok)[0])


def _fmt(a):
    return np.array2string(np.asarray(a, dtype=complex if np.iscomplexobj(a) else float),
                           separator=',', max_line_width=10 ** 6).replace('\n', '')


def _scale(M, b, x=None):
    """Magnitude the tolerance is proportional to: the largest sum of the magnitudes of the
    terms of one output entry, max_i (|M| |x| + |b|)_i; for basis vectors max|M| + max|b|."""
    if x is None:
        m = float(np.max(np.abs(M))) if M.size else 0.0
        o = float(np.max(np.abs(b))) if b.size else 0.0
        return max(m + o, 1e-300)
    return max(float(np.max(np.abs(M) @ np.abs(np.asarray(x)) + np.abs(b))), 1e-300)


# ------------------------------------------------------------------------------------------
# images of an odl operator

def _apply(op, dom, flat, inplace, ran, rec, what, keep=None):
    """One execution; returns a flat COPY of the result taken immediately.  With ``keep`` (a
    list) the returned element OBJECT of an out-of-place call is also kept, together with
    that copy, so that the caller can look at it again after later calls (history form)."""
    x = S.from_flat(dom, flat)
    x0 = S.to_flat(x)
    try:
        if inplace:
            g = np.full(S.flat_size(ran), GARBAGE, dtype=S.dtype_of(ran))
            if S.is_complex(ran):
                g = g * (1 - 0.5j)
            out = S.from_flat(ran, g)
            r = op(x, out=out)
            if r is not out:
                rec.bad('returned_object_is_not_out',
                        '%s(x, out=out) returned another object' % what)
            y = S.to_flat(out)
        else:
            r = op(x)
            y = S.to_flat(r)
            if keep is not None:
                keep.append((r, y, flat))
    except Exception as e:        # noqa: B902
        raise LibErr('%s(x%s) x=%s' % (what, ', out=out' if inplace else '', _fmt(flat)), e)
    rec.evals += 1
    if not np.array_equal(S.to_flat(x), x0):
        rec.bad('input_modified', '%s changed its input x=%s' % (what, _fmt(flat)))
    return y


def _images(op, rec, what, inplace=False):
    """(Y, Yi, Y0): images of e_k (columns), of i e_k (complex domains, else None), of 0."""
    dom, ran = op.domain, op.range
    n = S.flat_size(dom)
    dt = S.dtype_of(dom)
    cols, icols = [], []
    keep = None if inplace else []
    for k in range(n):
        e = np.zeros(n, dtype=dt)
        e[k] = rec.s
        cols.append(_apply(op, dom, e, inplace, ran, rec, what, keep))
        if S.is_complex(dom):
            e = np.zeros(n, dtype=dt)
            e[k] = 1j * rec.s
            icols.append(_apply(op, dom, e, inplace, ran, rec, what, keep))
    y0 = _apply(op, dom, np.zeros(n, dtype=dt), inplace, ran, rec, what, keep)
    Y = np.stack(cols, axis=1)
    Yi = np.stack(icols, axis=1) if icols else None
    _check_kept(rec, what, keep)
    return Y, Yi, y0


def _check_kept(rec, what, keep):
    """History form (a): the matrix assembled from the returned OBJECTS, looked at only after
    the last call, must be the matrix assembled from immediate copies (which is the one
    compared with the reference stencil): a result once returned stays what it was."""
    for i, (r, y, flat) in enumerate(keep or ()):
        now = S.to_flat(r)
        if not np.array_equal(now, y, equal_nan=True):
            rec.bad('kept_result_changed',
                    'the element returned by out-of-place call #%d of one %s object, x=%s, was '
                    '%s when returned and is %s after %d later out-of-place calls of the same '
                    'object' % (i, what, _fmt(flat), _fmt(y), _fmt(now), len(keep) - 1 - i))
            break


def _history(rec, what, op, fresh, exact, eps, cplx):
    """History forms (b)/(c): ONE operator object (``op``: the operator, or its adjoint obtained
    once) is used in place into a non-zero buffer, out of place, in place into the SAME, now
    previously used buffer, ... ; every result must be what a freshly built operator
    (``fresh()``) returns for that input, and kept out-of-place results must stay valid."""
    dom, ran = op.domain, op.range
    nd = S.flat_size(dom)
    dt = S.dtype_of(dom)
    ps = _probes(nd, cplx)
    e0 = np.zeros(nd)
    e0[0] = 1
    xs = [(rec.s * ps[0]).astype(dt), (rec.s * ps[1]).astype(dt), (rec.s * e0).astype(dt)]
    g = np.full(S.flat_size(ran), GARBAGE, dtype=S.dtype_of(ran))
    buf = S.from_flat(ran, g * (1 - 0.5j) if S.is_complex(ran) else g)
    # (input index, in place?)
    plan = [(0, True), (1, False), (2, True), (0, False), (1, True), (2, False), (0, True)]
    keep = []
    got = []
    try:
        for i, inplace in plan:
            x = S.from_flat(dom, xs[i])
            if inplace:
                r = op(x, out=buf)
                if r is not buf:
                    rec.bad('returned_object_is_not_out', '%s(x, out=buf)' % what)
                got.append(S.to_flat(buf))
            else:
                r = op(x)
                y = S.to_flat(r)
                keep.append((r, y, xs[i]))
                got.append(y)
            rec.evals += 1
        want = []
        for i in range(len(xs)):
            want.append(S.to_flat(fresh()(S.from_flat(dom, xs[i]))))
            rec.evals += 1
    except Exception as e:        # noqa: B902
        raise LibErr('%s, call sequence on one object' % what, e)
    for step, ((i, inplace), y) in enumerate(zip(plan, got)):
        w = want[i].astype(np.clongdouble if np.iscomplexobj(want[i]) else np.longdouble)
        sc = max(float(np.max(np.abs(want[i]))) if want[i].size else 0.0, 1e-300)
        if _mismatch(y, w, exact, eps, sc) is not None:
            rec.bad('history_differs_from_fresh',
                    'one %s object, calls %s (i = in place into the same reused buffer, first '
                    'prefilled with %s; o = out of place): step %d (%s, x=%s) gave %s, a freshly '
                    'built operator gives %s'
                    % (what, ''.join('i' if q else 'o' for _, q in plan), GARBAGE, step,
                       'in place' if inplace else 'out of place', _fmt(xs[i]), _fmt(y),
                       _fmt(want[i])))
            break
    _check_kept(rec, what + ' (mixed in-place / out-of-place sequence)', keep)


def _compare_images(rec, symptom, what, imgs, M, b, exact, eps):
    """Images (Y, Yi, Y0) against the affine reference x -> M x + b."""
    Y, Yi, y0 = imgs
    s = np.longdouble(rec.s)
    sc = _scale(s * M, b)
    bad = _mismatch(y0, b, exact, eps, sc)
    if bad is not None:
        rec.bad('offset_differs' if symptom == 'matrix_differs' else symptom,
                '%s(0) expected %s got %s' % (what, _fmt(b), _fmt(y0)))
    R = s * M + b[:, None]
    bad = _mismatch(Y, R, exact, eps, sc)
    if bad is not None:
        k = bad[1] if len(bad) == 2 else 0
        rec.bad(symptom, '%s(%s*e_%d) (flat C-order index) expected %s got %s'
                % (what, rec.s, k, _fmt(R[:, k]) if len(bad) == 2 else R.shape,
                   _fmt(Y[:, k]) if len(bad) == 2 else Y.shape))
    if Yi is not None:
        Ri = 1j * s * M + b[:, None]
        bad = _mismatch(Yi, Ri, exact, eps, sc)
        if bad is not None:
            k = bad[1] if len(bad) == 2 else 0
            rec.bad(symptom, '%s(%s*1j*e_%d) expected %s got %s'
                    % (what, rec.s, k, _fmt(Ri[:, k]) if len(bad) == 2 else Ri.shape,
                       _fmt(Yi[:, k]) if len(bad) == 2 else Yi.shape))


def _check_operator(rec, cfg, build, M, b, affine, exact, eps, dual_div=None, spaces=None):
    """All clauses for one odl operator against the reference ``x -> M x + b``.
    ``spaces``: (domain, range) the documentation promises for the constructor variant (None:
    not documented / given explicitly)."""
    cplx = cfg['dtype'] == 'complex128'
    name = CLS[cfg['kind']]
    op = _lib('constructor', build)
    dom, ran = op.domain, op.range
    for which, got, want in zip(('domain', 'range'), (dom, ran), spaces or ()):
        if want is not None and got != want:
            rec.bad('default_space_wrong', '%s.%s is %r, documented: %r'
                    % (name, which, got, want))
    nd, nr = S.flat_size(dom), S.flat_size(ran)
    if (nr, nd) != M.shape:
        rec.bad('matrix_differs', 'operator maps %d -> %d entries, expected %d -> %d'
                % (nd, nr, M.shape[1], M.shape[0]))
        return
    # the history forms (7.) and the second-level derived objects run in the states with unit
    # cell sides and in every constructor variant, i.e. for every class x method x mode x
    # pad_const x shape
    with_history = cfg['h'] == 'unit' or cfg['var'] != DEFAULT_VAR[cfg['kind']]
    # 1. stencil
    imgs = _images(op, rec, name)
    _compare_images(rec, 'matrix_differs', name, imgs, M, b, exact, eps)
    Y, Yi, y0 = imgs
    # 2. in place == out of place
    imgs_in = _images(op, rec, name, inplace=True)
    sc = _scale(np.longdouble(rec.s) * M, b)
    for a_in, a_out, lab in zip(imgs_in, imgs, ('e_k', '1j*e_k', '0')):
        if a_in is None:
            continue
        bad = _mismatch(a_in, a_out.astype(np.clongdouble if np.iscomplexobj(a_out)
                                           else np.longdouble), exact, eps, sc)
        if bad is not None:
            k = bad[1] if len(bad) == 2 else 0
            rec.bad('inplace_differs', '%s(x, out=y) != %s(x) for x=%s (k=%d, y prefilled with '
                    '%s): %s vs %s' % (name, name, lab, k, GARBAGE,
                                       _fmt(a_in[:, k] if a_in.ndim == 2 else a_in),
                                       _fmt(a_out[:, k] if a_out.ndim == 2 else a_out)))
    # 3. affinity on probe vectors (all of V^N for N <= 4)
    for p in _probes(nd, cplx):
        p = rec.s * p
        got = _apply(op, dom, p.astype(S.dtype_of(dom)), False, ran, rec, name)
        pl = p.astype(np.clongdouble if cplx else np.longdouble)
        ref = M @ pl + b
        bad = _mismatch(got, ref, exact, eps, _scale(M, b, p))
        if bad is not None:
            rec.bad('not_affine', '%s(x) != M x + b for x=%s: expected %s got %s'
                    % (name, _fmt(p), _fmt(ref), _fmt(got)))
            break
    # 4. declared linearity
    if bool(op.is_linear) != (not affine):
        rec.bad('linear_flag_wrong', 'is_linear=%s but %s(0)=%s (reference offset %s)'
                % (op.is_linear, name, _fmt(y0), _fmt(b)))
    # 5. adjoint == transpose (uniformly weighted spaces with equal weights)
    wd, wr = _uniform_weight(dom), _uniform_weight(ran)
    adj_once = None
    if affine:
        # "operator with nonzero pad_const is not linear and has no adjoint"
        rec.skipped += 1
    elif wd is None or wr is None or wd != wr:
        rec.skipped += 1
    else:
        adj = _lib('%s.adjoint' % name, lambda: op.adjoint)
        if adj.domain != ran or adj.range != dom:
            rec.bad('adjoint_spaces_wrong', 'adjoint maps %r -> %r' % (adj.domain, adj.range))
        else:
            adj_once = adj
            A, Ai, a0 = _images(adj, rec, name + '.adjoint')
            T = np.conj(Y.T).astype(np.clongdouble if np.iscomplexobj(Y) else np.longdouble)
            z = np.zeros(nd)
            sct = _scale(T, z)
            bad = _mismatch(a0, z, exact, eps, sct)
            if bad is None:
                bad = _mismatch(A, T, exact, eps, sct)
            if bad is None and Ai is not None:
                bad = _mismatch(Ai, 1j * T, exact, eps, sct)
            if bad is not None:
                k = bad[1] if len(bad) == 2 else 0
                rec.bad('adjoint_not_transpose',
                        'column %d of matrix(%s.adjoint) is %s but row %d of matrix(%s) '
                        '(conjugated) is %s; adjoint(0)=%s'
                        % (k, name, _fmt(A[:, k]), k, name, _fmt(T[:, k]), _fmt(a0)))
            # in place as well (the adjoint is used in place by the solvers)
            A2, A2i, a20 = _images(adj, rec, name + '.adjoint', inplace=True)
            if (_mismatch(A2, A.astype(T.dtype), exact, eps, sct) is not None
                    or _mismatch(a20, a0.astype(T.dtype), exact, eps, sct) is not None):
                rec.bad('inplace_differs', '%s.adjoint(y, out=x) != %s.adjoint(y)' % (name, name))
            # the adjoint of the adjoint (derived object of a derived object) is the operator
            # again: same spaces, same matrix (states in which the history forms run)
            if with_history:
                aa = _lib('%s.adjoint.adjoint' % name, lambda: adj.adjoint)
                if aa.domain != dom or aa.range != ran:
                    rec.bad('adjoint_spaces_wrong', 'adjoint.adjoint maps %r -> %r'
                            % (aa.domain, aa.range))
                else:
                    B, Bi, b0 = _images(aa, rec, name + '.adjoint.adjoint')
                    ld = np.clongdouble if np.iscomplexobj(Y) else np.longdouble
                    bad = _mismatch(b0, np.zeros(nr), exact, eps, sct)
                    if bad is None:
                        bad = _mismatch(B, Y.astype(ld), exact, eps, sct)
                    if bad is None and Bi is not None:
                        bad = _mismatch(Bi, Yi.astype(ld), exact, eps, sct)
                    if bad is not None:
                        k = bad[1] if len(bad) == 2 else 0
                        rec.bad('adjoint_not_transpose',
                                'column %d of matrix(%s.adjoint.adjoint) is %s but column %d of '
                                'matrix(%s) is %s; adjoint.adjoint(0)=%s'
                                % (k, name, _fmt(B[:, k]), k, name, _fmt(Y[:, k]), _fmt(b0)))
        # divergence == - adjoint of gradient, with the dual method / mode from the
        # reference's own tables
        if dual_div is not None:
            dv = _lib('Divergence(dual)', dual_div)
            Dm, Dmi, d0 = _images(dv, rec, 'Divergence(dual)')
            T = (-Y.T).astype(np.clongdouble if np.iscomplexobj(Y) else np.longdouble)
            bad = _mismatch(Dm, T, exact, eps, _scale(T, np.zeros(1)))
            if bad is not None:
                k = bad[1] if len(bad) == 2 else 0
                rec.bad('divergence_not_minus_gradient_adjoint',
                        'Divergence(method=%s, pad_mode=%s)(e_%d) = %s but -Gradient^T e_%d = %s'
                        % (fd.METHOD_DUAL[cfg['method']], fd.MODE_DUAL[cfg['mode']], k,
                           _fmt(Dm[:, k]), k, _fmt(T[:, k])))
    # 6. derivative == zero-padded (linear part); for linear operators the operator itself
    zero = np.zeros(nd, dtype=S.dtype_of(dom))
    pts = [('0', zero), ('p', (rec.s * _probes(nd, cplx)[0]).astype(S.dtype_of(dom)))]
    if affine:
        pts.append(('none', None))
    for lab, pt in pts:
        if pt is None:
            der = _lib('%s.derivative()' % name, op.derivative)
        else:
            der = _lib('%s.derivative(point)' % name, op.derivative, S.from_flat(dom, pt))
        if der is op:
            if affine:
                rec.bad('derivative_not_zero_padded', 'derivative(%s) of the affine operator '
                        'is the operator itself' % lab)
            continue
        if der.domain != dom or der.range != ran:
            rec.bad('derivative_not_zero_padded', 'derivative maps %r -> %r'
                    % (der.domain, der.range))
            continue
        if not der.is_linear:
            rec.bad('derivative_not_zero_padded', 'derivative(%s).is_linear is False' % lab)
        _compare_images(rec, 'derivative_not_zero_padded', '%s.derivative(%s)' % (name, lab),
                        _images(der, rec, name + '.derivative'), M, np.zeros(nr, dtype=b.dtype),
                        exact, eps)
        # the derivative of the affine variant is linear: its adjoint (what a solver takes at
        # the linearisation point) is the transpose of the zero-padded matrix
        if affine and lab == 'p' and wd is not None and wd == wr:
            dadj = _lib('%s.derivative(p).adjoint' % name, lambda: der.adjoint)
            if dadj.domain != ran or dadj.range != dom:
                rec.bad('adjoint_spaces_wrong', 'derivative(p).adjoint maps %r -> %r'
                        % (dadj.domain, dadj.range))
            else:
                _compare_images(rec, 'adjoint_not_transpose',
                                '%s.derivative(p).adjoint' % name,
                                _images(dadj, rec, name + '.derivative.adjoint'),
                                np.conj(M.T), np.zeros(nd, dtype=b.dtype), exact, eps)
    # 7. history: the one operator object (used above for everything, its adjoint and
    # derivative built and used in between) and its adjoint obtained once, in a mixed
    # in-place / out-of-place sequence with a reused buffer, against freshly built operators
    # (the sequence does not depend on the cell sides: run it for the unit cell sides and for
    # every constructor variant, i.e. for every class x method x mode x pad_const x shape)
    if with_history:
        _history(rec, name, op, build, exact, eps, cplx)
        if adj_once is not None:
            _history(rec, name + '.adjoint', adj_once, lambda: build().adjoint, exact, eps,
                     cplx)


# ------------------------------------------------------------------------------------------
# one state

def _run_fd(rec, cfg):
    shape = tuple(cfg['shape'])
    dtype = np.dtype(cfg['dtype'])
    cplx = dtype.kind == 'c'
    c = _const(cfg['c'])
    method, mode, var = cfg['method'], cfg['mode'], cfg['var']
    # what is handed to odl as pad_const ('cint': the same number as a Python int)
    cp = int(c) if var == 'cint' else c
    assert cp == c
    exact = cfg['h'] not in INEXACT_H
    eps = _eps(dtype)
    dxs = H[cfg['h']]
    n = int(np.prod(shape))
    s = rec.s

    def arr(flat, is_out=False):
        a = np.asarray(flat, dtype=dtype).reshape(shape)
        if var == 'list':
            # finite_diff: "f : array-like"; out stays an ndarray ("out : numpy.ndarray")
            return np.ascontiguousarray(a) if is_out else a.tolist()
        if var == 'forder':
            return np.asfortranarray(a)
        if var == 'strided':
            big = np.full(tuple(2 * s for s in shape), GARBAGE, dtype=dtype)
            v = big[tuple(slice(None, None, 2) for _ in shape)]
            v[...] = a
            return v
        return np.ascontiguousarray(a)

    garbage = np.full(n, GARBAGE) * ((1 - 0.5j) if cplx else 1)
    inputs = []
    for k in range(n):
        e = np.zeros(n, dtype=dtype)
        e[k] = s
        inputs.append(('e_%d' % k, e))
        if cplx:
            e = np.zeros(n, dtype=dtype)
            e[k] = 1j * s
            inputs.append(('1j*e_%d' % k, e))
    inputs.append(('0', np.zeros(n, dtype=dtype)))
    for i, p in enumerate(_probes(n, cplx)):
        inputs.append(('probe%d' % i, (s * p).astype(dtype)))
    for axis in range(len(shape)):
        if shape[axis] < fd.MIN_SIZE[mode]:
            rec.skipped += 1      # documented minimum size along the differentiated axis
            continue
        dx = dxs[axis]
        rec.ctx = 'axis=%d dx=%r method=%s pad_mode=%s pad_const=%r var=%s' % (
            axis, dx, method, mode, c, var)
        # "dx : float ... Scalar": the same number as a Python int / a numpy.float32 scalar
        dxv = int(dx) if var == 'dxint' else np.float32(dx) if var == 'dxf32' else dx
        assert float(dxv) == dx

        def call(f, out=None, axis=axis, dxv=dxv):
            if var == 'positional':
                # finite_diff(f, axis, dx=1.0, method='forward', out=None,
                #             pad_mode='constant', pad_const=0)
                return DO.finite_diff(f, axis, dxv, method, out, mode, cp)
            kw = {'dx': dxv, 'method': method, 'pad_mode': mode, 'pad_const': cp}
            if var == 'minkw':
                kw = dict((k, v) for k, v in kw.items() if v != FD_DEFAULTS[k])
            if out is not None:
                kw['out'] = out
            return DO.finite_diff(f, axis=axis, **kw)
        # pad_const of a real array must be real
        M, b = fd.partial(shape, axis, dx, method, mode, c if mode == 'constant' else 0)
        kept = []
        reused = arr(garbage, is_out=True)
        for lab, flat in inputs:
            f = arr(flat)
            f0 = np.array(f, copy=True)
            what = 'finite_diff(f=%s)' % lab
            out = arr(garbage, is_out=True)
            try:
                r1 = call(f)
                r2 = call(f, out)
            except Exception as e:        # noqa: B902
                raise LibErr(what + ' f=%s' % _fmt(flat), e)
            rec.evals += 2
            r1c = np.array(r1, copy=True)
            kept.append((r1, r1c, flat))
            if len(kept) <= 4:
                # history form: the same out buffer used again (it holds the previous result)
                try:
                    call(f, reused)
                except Exception as e:        # noqa: B902
                    raise LibErr(what + ' f=%s, reused out' % _fmt(flat), e)
                rec.evals += 1
                if not np.array_equal(reused, out, equal_nan=True):
                    rec.bad('history_differs_from_fresh',
                            'f=%s: out buffer already used by %d earlier calls gives %s, a new '
                            'buffer prefilled with %s gives %s'
                            % (_fmt(flat), len(kept) - 1, _fmt(np.asarray(reused).ravel()),
                               GARBAGE, _fmt(np.asarray(out).ravel())))
            if r2 is not out:
                rec.bad('returned_object_is_not_out', what)
            if not np.array_equal(f, f0):
                rec.bad('input_modified', what + ' f=%s' % _fmt(flat))
            pl = np.asarray(flat).astype(np.clongdouble if cplx else np.longdouble)
            ref = (M @ pl + b).reshape(shape)
            sc = max(_scale(M, b, flat), _scale(M, b))
            bad = _mismatch(r1, ref, exact, eps, sc)
            if bad is not None:
                sym = ('offset_differs' if lab == '0' else
                       'not_affine' if lab.startswith('probe') else 'matrix_differs')
                rec.bad(sym, 'f=%s (shape %s, C order): expected %s got %s'
                        % (_fmt(flat), shape, _fmt(np.asarray(ref).ravel()),
                           _fmt(np.asarray(r1).ravel())))
            bad = _mismatch(out, np.asarray(r1).astype(ref.dtype), exact, eps, sc)
            if bad is not None:
                rec.bad('inplace_differs', 'f=%s: out=None gives %s, out prefilled with %s gives '
                        '%s' % (_fmt(flat), _fmt(np.asarray(r1).ravel()), GARBAGE,
                                _fmt(np.asarray(out).ravel())))
        for i, (r, rc, flat) in enumerate(kept):
            if not np.array_equal(r, rc, equal_nan=True):
                rec.bad('kept_result_changed',
                        'the array returned by call #%d (f=%s, out=None) was %s when returned and '
                        'is %s after the later calls'
                        % (i, _fmt(flat), _fmt(rc.ravel()), _fmt(np.asarray(r).ravel())))
                break


def _run_op(rec, cfg):
    kind = cfg['kind']
    shape = tuple(cfg['shape'])
    dtype = cfg['dtype']
    c = _const(cfg['c'])
    method, mode, var = cfg['method'], cfg['mode'], cfg['var']
    # what is handed to odl as pad_const ('cint': the same number as a Python int)
    cp = int(c) if var == 'cint' else c
    assert cp == c
    exact = cfg['h'] not in INEXACT_H
    nd = len(shape)
    sp, dxs = _space(shape, dtype, cfg['h'],
                     bdry='mix' if var == 'bdrymix' else (var == 'bdry'),
                     weighting=WEIGHT if var == 'weight' else None)
    eps = _eps(dtype)
    other = None
    if var == 'otherprec':
        other, _ = _space(shape, _other(dtype), cfg['h'])
        eps = _eps(dtype, _other(dtype))
    cref = c if mode == 'constant' else 0
    affine = cref != 0
    kw = {'pad_mode': mode, 'pad_const': cp}
    if kind != 'lap':
        kw['method'] = method
    if var == 'minkw':
        kw = dict((k, v) for k, v in kw.items() if v != FD_DEFAULTS[k])
    if kind == 'pd':
        for axis in range(nd):
            if shape[axis] < fd.MIN_SIZE[mode]:
                rec.skipped += 1
                continue
            rec.ctx = 'axis=%d method=%s pad_mode=%s pad_const=%s var=%s' % (axis, method, mode,
                                                                             c, var)
            M, b = fd.partial(shape, axis, dxs[axis], method, mode, cref)
            # "range : ... For the default ``None``, the range is the same as ``domain``."
            spaces = None if var in ('explicit', 'otherprec') else (sp, sp)
            if var in ('default', 'bdry', 'minkw', 'weight', 'bdrymix', 'cint'):
                build = lambda: odl.PartialDerivative(sp, axis, **kw)            # noqa: E731
            elif var == 'positional':
                # PartialDerivative(domain, axis, range=None, method='forward',
                #                   pad_mode='constant', pad_const=0)
                build = lambda: odl.PartialDerivative(sp, axis, None, method,    # noqa: E731
                                                      mode, cp)
            elif var == 'explicit':
                build = lambda: odl.PartialDerivative(                            # noqa: E731
                    sp, axis, range=_space(shape, dtype, cfg['h'])[0], **kw)
            else:
                build = lambda: odl.PartialDerivative(sp, axis, range=other, **kw)  # noqa: E731
            _check_operator(rec, cfg, build, M, b, affine, exact, eps, spaces=spaces)
        return
    rec.ctx = 'method=%s pad_mode=%s pad_const=%s var=%s' % (method, mode, c, var)
    if kind == 'grad':
        M, b = fd.gradient(shape, dxs, method, mode, cref)
        if var in ('domain', 'bdry', 'minkw', 'weight', 'bdrymix', 'cint'):
            build = lambda: odl.Gradient(sp, **kw)                                # noqa: E731
        elif var == 'positional':
            # Gradient(domain=None, range=None, method='forward', pad_mode='constant',
            #          pad_const=0)
            build = lambda: odl.Gradient(sp, None, method, mode, cp)              # noqa: E731
        elif var == 'range':
            build = lambda: odl.Gradient(range=odl.ProductSpace(sp, nd), **kw)    # noqa: E731
        elif var == 'both':
            build = lambda: odl.Gradient(domain=sp, range=sp ** nd, **kw)         # noqa: E731
        else:
            build = lambda: odl.Gradient(sp, range=other ** nd, **kw)             # noqa: E731
        dual = None
        if var == 'domain':
            dual = lambda: odl.Divergence(range=sp, method=fd.METHOD_DUAL[method],  # noqa: E731
                                          pad_mode=fd.MODE_DUAL[mode])
        # docstring examples: Gradient(dom).range == ProductSpace(dom, dom.ndim),
        # Gradient(range=ran).domain == dom
        spaces = None if var == 'otherprec' else (sp, odl.ProductSpace(sp, nd))
        _check_operator(rec, cfg, build, M, b, affine, exact, eps, dual_div=dual,
                        spaces=spaces)
    elif kind == 'div':
        M, b = fd.divergence(shape, dxs, method, mode, cref)
        if var in ('range', 'bdry', 'minkw', 'weight', 'bdrymix', 'cint'):
            build = lambda: odl.Divergence(range=sp, **kw)                        # noqa: E731
        elif var == 'positional':
            # Divergence(domain=None, range=None, method='forward', pad_mode='constant',
            #            pad_const=0)
            build = lambda: odl.Divergence(sp ** nd, None, method, mode, cp)      # noqa: E731
        elif var == 'domain':
            build = lambda: odl.Divergence(odl.ProductSpace(sp, nd), **kw)        # noqa: E731
        elif var == 'both':
            build = lambda: odl.Divergence(domain=sp ** nd, range=sp, **kw)       # noqa: E731
        else:
            build = lambda: odl.Divergence(domain=sp ** nd, range=other, **kw)    # noqa: E731
        # docstring examples: Divergence(dom).range == ran, Divergence(range=ran).domain ==
        # ProductSpace(ran, ran.ndim)
        spaces = None if var == 'otherprec' else (odl.ProductSpace(sp, nd), sp)
        _check_operator(rec, cfg, build, M, b, affine, exact, eps, spaces=spaces)
    elif kind == 'lap':
        M, b = fd.laplacian(shape, dxs, mode, cref)
        if var in ('default', 'bdry', 'minkw', 'weight', 'bdrymix', 'cint'):
            build = lambda: odl.Laplacian(sp, **kw)                               # noqa: E731
        elif var == 'positional':
            # Laplacian(domain, range=None, pad_mode='constant', pad_const=0)
            build = lambda: odl.Laplacian(sp, None, mode, cp)                     # noqa: E731
        elif var == 'explicit':
            build = lambda: odl.Laplacian(sp, range=_space(shape, dtype, cfg['h'])[0],  # noqa
                                          **kw)
        else:
            build = lambda: odl.Laplacian(sp, range=other, **kw)                  # noqa: E731
        _check_operator(rec, cfg, build, M, b, affine, exact, eps)


def _sizeclass(cfg):
    return 'n%d' % min(min(cfg['shape']), 4)


def run(cfg):
    rec = Rec(cfg)
    try:
        if cfg['kind'] == 'fd':
            _run_fd(rec, cfg)
        else:
            _run_op(rec, cfg)
    except LibErr as e:
        rec.bad('raises:' + type(e.exc).__name__, '%s raised %r' % (e.what, e.exc))
    regime = cfg['h'] if cfg['h'] in REGIME_HS else 'vs%d' % cfg['vs'] if cfg.get('vs') else ''
    sig = '%s:%s:%s:%s:%s:%s:%s%s' % (cfg['kind'], cfg['method'], cfg['mode'],
                                      'c' if _const(cfg['c']) != 0 else '0', _sizeclass(cfg),
                                      len(cfg['shape']),
                                      'ok' if not rec.first else '+'.join(sorted(rec.first)),
                                      ':' + regime if regime else '')
    return rec.result(sig)


# ------------------------------------------------------------------------------------------

def trace_functions():
    return [DO.finite_diff,
            DO.PartialDerivative._call, DO.PartialDerivative.adjoint,
            DO.PartialDerivative.derivative,
            DO.Gradient._call, DO.Gradient.adjoint, DO.Gradient.derivative,
            DO.Divergence._call, DO.Divergence.adjoint, DO.Divergence.derivative,
            DO.Laplacian._call, DO.Laplacian.adjoint, DO.Laplacian.derivative]


def summarize(results):
    arms = set()
    per_kind = {}
    for cfg, res in results:
        per_kind[cfg['kind']] = per_kind.get(cfg['kind'], 0) + 1
        if cfg['kind'] == 'fd' and len(cfg['shape']) == 1:
            arms.add((cfg['method'], cfg['mode'], _sizeclass(cfg)))
    return {'states_per_operator': per_kind,
            'finite_diff_arms_visited(method,mode,n=2|3|>=4)': len(arms),
            'finite_diff_arms_total': 3 * 10 * 3 - 3 * 2,
            'unreached_anchor_lines_explained':
                'argument-validation raises of finite_diff (axis shorter than 2 or than the '
                'documented minimum of order1 / order2, negative-axis normalisation, bad axis, '
                'dx, method, pad_mode, wrong out shape), its unreachable final else, and the '
                '"has no adjoint" raises of the affine variants are not enumerated: only '
                'admissible configurations are'}


def meta(tier):
    shapes = _shapes(tier)
    return {
        'rule': 'one state = (finite_diff | PartialDerivative | Gradient | Divergence | '
                'Laplacian) x method x pad_mode x pad_const x shape x dtype x cell sides '
                '(incl. magnitude regimes: next to 1, tiny, huge) x magnitude of the values x '
                'constructor/layout/calling-convention variant; all inputs are decided by affinity: every basis '
                'vector e_k (and 1j*e_k on complex spaces), the zero vector, three dense probe '
                'vectors and all of V^N for N <= 4 are executed out of place and in place, for '
                'the operator, its .adjoint and its .derivative(point), and compared with the '
                'reference stencil matrix / with each other. History per state: returned '
                'elements of all out-of-place calls are kept and re-read after the last call; '
                'the used operator object and its adjoint obtained once run a 7-step in-place '
                '(reused non-zero buffer) / out-of-place sequence against freshly built '
                'operators. distinct = distinct (operator, '
                'method, mode, c != 0, smallest axis size class 2|3|>=4, ndim, outcome, regime, '
                'executed-line signature of the anchored functions)',
        'bounds': {
            'methods': list(fd.METHODS), 'pad_modes': list(fd.MODES),
            'laplacian_pad_modes': list(fd.LAPLACIAN_MODES),
            'pad_const': [0, 1.5, '1.5-0.5j (complex dtype)',
                          '1.5 with a non-constant mode (must be ignored)'],
            'shapes_1d': [s for s in shapes if len(s) == 1],
            'shapes_2d': '%d shapes, sizes %s' % (len([s for s in shapes if len(s) == 2]),
                                                  sorted(set(s[0] for s in shapes
                                                             if len(s) == 2))),
            'shapes_3d': '%d shapes, sizes %s' % (len([s for s in shapes if len(s) == 3]),
                                                  sorted(set(s[0] for s in shapes
                                                             if len(s) == 3))),
            'dtype_x_cell_sides': 'all 9' if tier == 'thorough' else
                                  'f64/unit, f64/nondyadic, f32/dyadic, c128/dyadic',
            'cell_sides_per_axis': dict((k, [repr(x) for x in v]) for k, v in H.items()),
            'cell_side_regimes': {'regimes': list(REGIME_HS), 'shapes': REGIME_SHAPES,
                                  'dtype_x_regime': 'all 12' if tier == 'thorough' else
                                  'f64/near1, f64/near1m, f32/near1m, f64/tiny, f32/huge, '
                                  'c128/huge'},
            'value_scales_2**k (inputs and pad_const)': list(VALUE_SCALES),
            'large_shapes': LARGE_SHAPES, 'shapes_with_axes_of_length_1 (fd, pd)': ONE_SHAPES,
            'variants': VARIANTS, 'variant_shapes': VAR_SHAPES,
            'V_small': list(V_SMALL),
        },
        'assumptions': [
            "'symmetric' is read as NumPy's 'symmetric' (edge value doubled), as the code and "
            "the repository tests do; one docstring sentence ('not doubling the outmost "
            "values') says otherwise - documentation-only discrepancy, not judged",
            "'order1'/'order2' are read as in the finite_diff docstring ('Without padding "
            "one-sided forward or backward differences are used at the boundaries. The accuracy "
            "at the endpoints can then also be triggered by the edge order'): edge rows are the "
            "one-sided first/second order differences for every method; for order1 (all "
            "methods) and order2 (central) this equals the stencil on the linearly / "
            "quadratically extrapolated array",
            'order2 and order2_adjoint are enumerated for axis sizes >= 3 only (documented '
            'minimum); an axis of size 1 is never the differentiated one',
            'adjoint == transpose is demanded only when domain and range carry the same '
            'constant weight (always the case here: range must equal domain up to dtype); the '
            'adjoint of the affine variants is not judged',
            'exact equality for dyadic cell sides (also times 2**-30 / 2**20, and with all values '
            'times 2**-40 / 2**40); 4*eps*max|reference| for (0.3, 0.7, 1.3) and for the cell '
            'sides 1 +- 2**-40, 1 +- 2**-18; the reference is assembled in extended precision',
            'every positive finite float is an admissible cell side ("dx : float ... Scalar '
            'specifying the distance between sampling points"), a Python int or numpy.float32 '
            'scalar is an admissible dx, a Python int an admissible pad_const; an axis of length '
            '1 is admissible for finite_diff / PartialDerivative when it is not the '
            'differentiated one ("in axis {}: at least two elements required")',
            'default spaces are judged where documented (PartialDerivative range, Gradient / '
            'Divergence docstring examples); the undocumented range of Laplacian is not',
            'explicit out arrays are prefilled with the finite value 7.25 (NaN-filled out is '
            "C03's business); out=None paths see NaN-poisoned numpy.empty",
        ],
    }
