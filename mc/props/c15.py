"""C15 - sampling and interpolation reproduce the function at the nodes and between them.

Exploration: configuration space, five kinds of states

* ``sample``   space.element(callable): callable style x ndim x shape x dtype; inside a state
               every subset of coordinates the callable uses (broadcasting, the empty subset is
               a constant) x real/complex values x ``order``.  Oracle: the value of the *scalar*
               evaluation of the callable at each grid point (Python loop), exact equality.
* ``sfunc``    sampling_function / point_collocation called directly: callable style (scalar and
               tensor valued: list of callables and constants, tuple returning, array returning,
               in place) x ndim x out_dtype; inside a state all calling conventions (sparse and
               dense mesh grid, point array, every single point, with and without ``out``).
* ``interp``   nearest_/linear_/per_axis_interpolator: coordinate vectors (uniform, non-uniform,
               single node) x every per-axis scheme combination x value dtype; inside a state the
               whole *interpolation matrix* (one basis array per node, so linearity decides every
               value array) on all nodes, cell midpoints (ties), quarter points and points up to
               half (thorough: one) node spacing outside the hull, and every calling convention
               (mesh, dense mesh, mesh with single-point axes, point array, list, every single
               point, ``out``), node reproduction and exactness on affine functions.
* ``resample`` Resampling(domain, range, interp): full matrix over the basis of the domain.
* ``deform``   linear_deform / LinDeformFixedTempl / LinDeformFixedDisp: every constant
               displacement of D^d plus a field that cycles through D (the map is point-wise).

Magnitude regimes (interp, resample, deform, sample): the same states with all coordinates
mapped by x -> offset + scale * x (tiny units 2^-30, huge units 2^30, far from the origin 2^20)
and with the values scaled by 2^-40 / 2^40 -- exact maps under which the property is invariant,
so absolute / relative tolerances hidden in the library become visible.  Order of the points:
every mesh / point array also reversed, rotated, interleaved and with the points outside the
hull first / in the middle.  Derived operators: Resampling(...).inverse / .adjoint,
LinDeformFixedDisp(...).inverse, LinDeformFixedTempl(...).derivative.

Reference: mc/ref/interp_ref.py (weights by bisection in exact rational arithmetic).
"""
import functools
import itertools
import operator
import types

import numpy as np
import odl
from odl.deform import LinDeformFixedDisp, LinDeformFixedTempl, linear_deform
from odl.discr import discr_utils as DU
from odl.discr.grid import sparse_meshgrid
from odl.util import vectorize

from mc.ref import interp_ref as R

PROPERTY = 'C15'
BUDGET = {'quick': 1500, 'thorough': 3600}

# ------------------------------------------------------------------------------------------
# alphabets

# 1-d coordinate vectors.  Exact ones: dyadic nodes whose spacings are powers of two, so that
# normalised distances, weights and blends of dyadic values are exact in binary arithmetic.
AX = {
    'u2': [0.0, 1.0],
    'u3': [0.0, 1.0, 2.0],
    'u4': [0.5, 1.5, 2.5, 3.5],
    'h3': [0.0, 0.5, 1.0],
    'n3': [0.0, 1.0, 3.0],
    'n4': [-1.0, 0.0, 2.0, 2.5],
    's1': [0.5],
    'x3': [0.1, 0.4, 1.0],                    # not dyadic: tolerance, no tie points
    'x5': [0.2, 0.6, 1.0, 1.4, 1.8],          # the grid of the docstrings
}


def _exact_nodes(nodes):
    """Dyadic nodes (multiples of 1/8, small) whose spacings are powers of two."""
    import math
    for v in nodes:
        if abs(v) > 64 or v * 8 != int(v * 8):
            return False
    for a, b in zip(nodes[:-1], nodes[1:]):
        if math.frexp(b - a)[0] != 0.5:
            return False
    return True


INEXACT_AX = tuple(k for k in sorted(AX) if not _exact_nodes(AX[k]))

DTYPES = ['f64', 'f32', 'c128', 'i64', 'U']
NP_DT = {'f64': np.dtype('float64'), 'f32': np.dtype('float32'), 'c128': np.dtype('complex128'),
         'i64': np.dtype('int64'), 'U': np.dtype('<U4'), 'c64': np.dtype('complex64'),
         'i32': np.dtype('int32')}

# 1-d partitions of [0, 4] for Resampling / linear_deform: name -> (nodes, exact)
P1 = {
    'ud1': [2.0],
    'ud2': [1.0, 3.0],
    'ud4': [0.5, 1.5, 2.5, 3.5],
    'ud8': [0.25 + 0.5 * k for k in range(8)],
    'ud3': [(k + 0.5) * 4.0 / 3.0 for k in range(3)],       # not dyadic
    'udb3': [0.0, 2.0, 4.0],
    'udb5': [0.0, 1.0, 2.0, 3.0, 4.0],
    'nu3': [0.5, 1.5, 3.5],
    'nu4': [0.25, 0.75, 1.75, 3.75],
    'nx3': [0.5, 1.0, 3.5],                                   # spacing 5/2: tolerance
}
INEXACT_P1 = tuple(k for k in sorted(P1) if not _exact_nodes(P1[k]))

DISP = [0.0, 0.5, -0.5, 1.0, -1.0, 0.25, -0.25]
DISP_FAR = [1.5, -3.0, 6.0, -6.0, 40.0]

# Magnitude regimes.  Interpolation weights depend on RATIOS of lengths only and the result is
# linear in the values, so the property is invariant under  x -> offset + scale * x  of all
# coordinates (grid, domain, evaluation points, displacements) and under  f -> vscale * f  of the
# values.  With powers of two the map is exact in binary arithmetic, so the same exact-equality
# oracle applies.  The regimes put every length of the configuration below numpy's default
# absolute tolerance 1e-8 ('tiny', 'vtiny'), every node shift below the default relative
# tolerance 1e-5 of the coordinates ('far': 1e-5 * offset = 10.5 exceeds the length of the whole
# domain), resp. far above one ('huge', 'vhuge').
REGIMES = {
    'tiny': {'scale': 2.0 ** -30, 'offset': 0.0, 'vscale': 1.0},
    'huge': {'scale': 2.0 ** 30, 'offset': 0.0, 'vscale': 1.0},
    'far': {'scale': 1.0, 'offset': 2.0 ** 20, 'vscale': 1.0},
    'vtiny': {'scale': 1.0, 'offset': 0.0, 'vscale': 2.0 ** -40},
    'vhuge': {'scale': 1.0, 'offset': 0.0, 'vscale': 2.0 ** 40},
}
COORD_REGIMES = ('tiny', 'huge', 'far')
_BASE_REGIME = {'scale': 1.0, 'offset': 0.0, 'vscale': 1.0}


def _regime(cfg):
    return REGIMES[cfg['reg']] if cfg.get('reg') else _BASE_REGIME


def _tr(nodes, reg):
    """Exact image of the nodes in the regime (configs() only admits exact images)."""
    out = R.transform(nodes, reg['scale'], reg['offset'])
    if out is None:
        raise ValueError('regime %r does not map %r exactly' % (reg, nodes))
    return out


def _reg_ok(node_lists, name):
    reg = REGIMES[name]
    return all(R.transform(n, reg['scale'], reg['offset']) is not None for n in node_lists)


SAMPLE_STYLES = ['oop', 'oop_kw', 'ip', 'ip_kw', 'ip_kwreq', 'dual', 'dual_kwonly', 'vec',
                 'vec_otypes', 'vec_kw', 'obj', 'obj_ip', 'obj_dual', 'ufunc', 'const',
                 'direct_oop', 'direct_ip', 'direct_dual',
                 # callables that are not plain Python functions
                 'partial', 'partial_ip', 'method', 'method_ip', 'method_dual', 'classmethod',
                 'staticmethod', 'kwonly_param', 'varkw', 'uninspectable']
ONLY_1D = ('ufunc', 'direct_oop', 'direct_ip', 'direct_dual', 'uninspectable')
NOT_PLAIN = ('partial', 'partial_ip', 'method', 'method_ip', 'method_dual', 'classmethod')


def _scheme_list(d):
    """All ways to ask for an interpolation scheme in ``d`` dimensions."""
    out = [{'fn': 'nearest'}, {'fn': 'linear'},
           {'fn': 'per_axis', 'interp': 'nearest'}, {'fn': 'per_axis', 'interp': 'linear'}]
    for t in itertools.product(['nearest', 'linear'], repeat=d):
        out.append({'fn': 'per_axis', 'interp': list(t)})
    return out


def _axes_schemes(sc, d):
    if sc['fn'] in ('nearest', 'linear'):
        return [sc['fn']] * d
    if isinstance(sc['interp'], str):
        return [sc['interp']] * d
    return list(sc['interp'])


def _interp_arg(sc, d):
    """The ``interp`` argument for Resampling / linear_deform."""
    if sc['fn'] in ('nearest', 'linear'):
        return sc['fn']
    return sc['interp']


# ------------------------------------------------------------------------------------------
# configurations

def configs(tier):
    th = tier == 'thorough'
    out = []

    # ---- interp
    g1 = list(AX)
    if th:
        g2 = [list(p) for p in itertools.product(['u2', 'u3', 'n3', 'n4', 'u4', 's1', 'x3'],
                                                 repeat=2)]
        g3 = [list(p) for p in itertools.product(['u2', 'n3', 's1'], repeat=3)]
        g3 += [list(p) for p in itertools.product(['n4', 'u3'], repeat=3)]
        g3 += [['n4', 'u2', 'n3'], ['u2', 'n4', 's1'], ['n3', 's1', 'n4']]
        g3 += [['x3', 'u2', 'n3'], ['u2', 'h3', 'x5'], ['u3', 'u4', 'u2'], ['u4', 'u3', 'h3']]
    else:
        g2 = [list(p) for p in itertools.product(['u2', 'n3', 'n4', 's1'], repeat=2)]
        g2 += [['x3', 'n3'], ['u3', 'x3'], ['h3', 'u4']]
        g3 = [list(p) for p in itertools.product(['u2', 'n3'], repeat=3)]
        g3 += [['s1', 'u2', 'n3'], ['u2', 's1', 'u2'], ['n3', 'u2', 's1'], ['x3', 'u2', 'n3']]
    for grids in ([[a] for a in g1], g2, g3):
        for grid in grids:
            for sc in _scheme_list(len(grid)):
                for dt in (DTYPES if th or len(grid) < 3 else ('f64', 'c128', 'i64')):
                    out.append({'kind': 'interp', 'grid': grid, 'scheme': sc, 'dtype': dt,
                                'far': th, 'dense': th or len(grid) < 3,
                                'farout': len(grid) < 3})
    # the same in the other magnitude regimes (see REGIMES)
    r2 = [['n3', 'n4'], ['u2', 's1'], ['s1', 'n3'], ['h3', 'u4'], ['x3', 'n3']]
    r3 = [['u2', 'n3', 'u2']]
    if th:
        r2 = g2
        r3 += [['n4', 'u2', 'n3'], ['s1', 'u2', 'n3']]
    for grids in ([[a] for a in g1], r2, r3):
        for grid in grids:
            for name in REGIMES:
                if not _reg_ok([AX[a] for a in grid], name):
                    continue
                for sc in _scheme_list(len(grid)):
                    for dt in (('f64', 'f32', 'c128') if len(grid) == 1 else ('f64',)):
                        out.append({'kind': 'interp', 'grid': grid, 'scheme': sc, 'dtype': dt,
                                    'far': th, 'dense': len(grid) < 3, 'farout': False,
                                    'reg': name})

    # ---- sample
    shapes = [[n] for n in (1, 2, 3, 4)]
    shapes += [list(s) for s in itertools.product((1, 2, 3, 4), repeat=2)]
    shapes += [list(s) for s in itertools.product((1, 2, 3, 4) if th else (1, 2, 3), repeat=3)]
    for shp in shapes:
        for style in SAMPLE_STYLES:
            if style in ONLY_1D and len(shp) != 1:
                continue
            for dt in ('f64', 'c128', 'f32'):
                for gt in (('ud', 'udb', 'nu') if th else ('ud',)):
                    out.append({'kind': 'sample', 'grid': gt, 'shape': shp, 'style': style,
                                'dtype': dt})
    if not th:
        for shp in ([3], [2, 3], [1, 3], [2, 1, 3]):
            for style in ('oop', 'ip', 'vec', 'dual'):
                for gt in ('udb', 'nu'):
                    out.append({'kind': 'sample', 'grid': gt, 'shape': shp, 'style': style,
                                'dtype': 'f64'})

    for shp in ([3], [2, 3], [2, 1, 3]):
        for style in ('oop', 'ip', 'vec', 'dual', 'obj'):
            for gt in ('ud', 'udb', 'nu'):
                for name in COORD_REGIMES:
                    out.append({'kind': 'sample', 'grid': gt, 'shape': shp, 'style': style,
                                'dtype': 'f64', 'reg': name})

    # ---- sfunc (sampling_function / point_collocation directly)
    for d in (1, 2, 3):
        for style in SAMPLE_STYLES:
            if style in ONLY_1D and d != 1:
                continue
            for od in (None, 'f64', 'c128', 'f32'):
                out.append({'kind': 'sfunc', 'd': d, 'style': style, 'out_dtype': od, 'val': []})
        for style, vals in (('list', ([2], [3], [7], [2, 2])), ('list_ufunc', ([2],)),
                            ('tuplefunc', ([3],)), ('tuple_ident', ([2],)),
                            ('arrayfunc', ([2],)), ('tensor_ip', ([2],)),
                            ('tensor_dual', ([2],))):
            if style == 'list_ufunc' and d != 1:
                continue
            for val in vals:
                for od in (None, 'f64', 'c128', 'f32'):
                    if od is None and not style.startswith('list'):
                        continue      # "we must specify the shape explicitly in out_dtype"
                    out.append({'kind': 'sfunc', 'd': d, 'style': style, 'out_dtype': od,
                                'val': list(val)})

    # ---- resample
    one = list(P1)
    dts = ('f64', 'f32', 'c128')
    for dom in one:
        for ran in one:
            for sc in _scheme_list(1)[:2] + _scheme_list(1)[4:]:
                for dt in (dts if th or (dom, ran) in (('ud2', 'ud4'), ('ud4', 'nu3')) else
                           ('f64',)):
                    out.append({'kind': 'resample', 'dom': [dom], 'ran': [ran],
                                'scheme': sc, 'dtype': dt})
    # magnitude regimes: every 1-d pair again (among them the pairs with the same number of
    # nodes at different positions: ud4/nu4, ud3/udb3/nu3/nx3), and the derived operators
    for dom in one:
        for ran in one:
            for name in REGIMES:
                if not _reg_ok([P1[dom], P1[ran]], name):
                    continue
                for sc in _scheme_list(1)[:2] + (_scheme_list(1)[4:] if th else []):
                    out.append({'kind': 'resample', 'dom': [dom], 'ran': [ran],
                                'scheme': sc, 'dtype': 'f64', 'reg': name})
            for route in ('inverse', 'adjoint'):
                for sc in _scheme_list(1)[:2]:
                    out.append({'kind': 'resample', 'dom': [dom], 'ran': [ran],
                                'scheme': sc, 'dtype': 'f64', 'route': route})
    # 2-d: same shape, nodes shifted in one axis / in both axes
    same2 = [(['ud4', 'ud2'], ['nu4', 'ud2']), (['ud2', 'udb3'], ['ud2', 'nu3']),
             (['ud4', 'udb3'], ['nu4', 'nu3']), (['nu3', 'ud4'], ['udb3', 'ud4']),
             (['ud2', 'ud4'], ['ud4', 'nu4'])]
    for dom, ran in same2:
        for sc in _scheme_list(2)[:2] + _scheme_list(2)[4:]:
            for name in (None,) + tuple(REGIMES):
                for route in (None, 'inverse'):
                    if name is not None and route is not None and not th:
                        continue
                    c = {'kind': 'resample', 'dom': dom, 'ran': ran, 'scheme': sc,
                         'dtype': 'f64'}
                    if name is not None:
                        c['reg'] = name
                    if route is not None:
                        c['route'] = route
                    out.append(c)
    dom2 = [['ud2', 'ud2'], ['ud4', 'ud2'], ['nu3', 'ud4'], ['ud1', 'ud4'], ['udb3', 'ud2']]
    ran2 = [['ud4', 'ud4'], ['ud2', 'ud8'], ['ud1', 'ud4'], ['ud4', 'ud1'], ['ud1', 'ud1'],
            ['nu3', 'udb3'], ['ud2', 'ud2']]
    if th:
        dom2 += [['ud3', 'nu4'], ['ud8', 'udb5']]
        ran2 += [['ud3', 'ud2'], ['nu4', 'ud1']]
    for dom in dom2:
        for ran in ran2:
            for sc in _scheme_list(2)[:2] + _scheme_list(2)[4:]:
                for dt in (dts if th else ('f64',)):
                    out.append({'kind': 'resample', 'dom': dom, 'ran': ran, 'scheme': sc,
                                'dtype': dt})
    dom3 = [['ud2', 'ud2', 'ud2'], ['ud2', 'nu3', 'ud1']]
    ran3 = [['ud4', 'ud2', 'ud4'], ['ud1', 'ud2', 'ud2'], ['ud2', 'ud1', 'ud1'],
            ['ud1', 'ud1', 'ud4']]
    for dom in dom3:
        for ran in ran3:
            for sc in _scheme_list(3)[:2] + _scheme_list(3)[4:]:
                for dt in (dts if th else ('f64',)):
                    out.append({'kind': 'resample', 'dom': dom, 'ran': ran, 'scheme': sc,
                                'dtype': dt})

    # ---- sdtype: value dtype of the space x non-dyadic grids x jump functions
    for grid in ('nu', 'ud'):
        for d in (1, 2):
            for style in SD_STYLES:
                for dt in SD_DTYPES:
                    out.append({'kind': 'sdtype', 'grid': grid, 'd': d, 'style': style,
                                'dtype': dt})

    # ---- history: one callable object, every sequence of calls of length 2 (thorough: 3)
    depth = 3 if th else 2
    for variant in HIST_VARIANTS:
        for holder in HIST_HOLDERS:
            for first in sorted(_hist_menu(holder, variant)[1]):
                out.append({'kind': 'history', 'holder': holder, 'variant': variant,
                            'first': first, 'depth': depth})
    for variant in HIST_INTERP:
        for d in (1, 2):
            for first in ('farr', 'ipts', 'mesh', 'mesh_out', 'pt'):
                out.append({'kind': 'history', 'holder': 'interp', 'variant': variant, 'd': d,
                            'first': first, 'depth': depth})

    # ---- deform
    sp1 = [['ud4'], ['nu3'], ['udb5'], ['ud2']]
    sp2 = [['ud4', 'ud2'], ['nu3', 'ud4']]
    sp3 = [['ud2', 'ud4', 'ud2']]
    if th:
        sp1 += [['ud8'], ['ud3'], ['nu4']]
        sp2 += [['udb5', 'nu4'], ['ud2', 'ud1'], ['ud3', 'ud4']]
        sp3 += [['ud4', 'nu3', 'ud2']]
    for sps in (sp1, sp2, sp3):
        for spn in sps:
            d = len(spn)
            scs = _scheme_list(d)[:2] + _scheme_list(d)[4:]
            for sc in scs:
                for via in ('function', 'FixedTempl', 'FixedDisp'):
                    for dt in (dts if th or d == 1 else ('f64',)):
                        out.append({'kind': 'deform', 'space': spn, 'scheme': sc, 'via': via,
                                    'dtype': dt})
                # the derived operator: "Inverse deformation using -v as displacement"
                if d < 3 or th:
                    out.append({'kind': 'deform', 'space': spn, 'scheme': sc,
                                'via': 'FixedDisp.inverse', 'dtype': 'f64'})
                # derivative w.r.t. the displacement (Gradient: uniform partition, >= 2 nodes)
                if d < 3 and all(n.startswith('ud') and len(P1[n]) > 1 for n in spn):
                    for name in (None, 'tiny', 'far'):
                        if name is None or _reg_ok([P1[n] for n in spn], name):
                            c = {'kind': 'deform', 'space': spn, 'scheme': sc,
                                 'via': 'FixedTempl.derivative', 'dtype': 'f64'}
                            if name:
                                c['reg'] = name
                            out.append(c)
                # magnitude regimes (3-d: coordinates in tiny units only, plain schemes)
                for name in REGIMES:
                    if not _reg_ok([P1[n] for n in spn], name):
                        continue
                    if d == 3 and not th and (name != 'tiny' or sc['fn'] == 'per_axis'):
                        continue
                    if d == 3 and name not in ('tiny', 'far'):
                        continue
                    for via in ('function', 'FixedTempl', 'FixedDisp', 'FixedDisp.inverse'):
                        if via == 'FixedDisp.inverse' and d == 3:
                            continue
                        out.append({'kind': 'deform', 'space': spn, 'scheme': sc, 'via': via,
                                    'dtype': 'f64', 'reg': name})
    return out


# ------------------------------------------------------------------------------------------
# helpers

class _Rec(object):
    def __init__(self):
        self.first = {}
        self.evals = 0
        self.skipped = 0
        self.sigs = set()

    def viol(self, site, sym, detail):
        self.first.setdefault((site, sym), str(detail)[:900])

    note = None

    def result(self, sample=None):
        if sample is None:
            sample = self.note
        res = {'evals': self.evals, 'skipped': self.skipped,
               'viol': [{'site': s, 'symptom': y, 'detail': d}
                        for (s, y), d in self.first.items()],
               'sig': sorted(self.sigs) or ['none'], 'trivial': self.evals == 0}
        if sample is not None:
            res['sample'] = sample
        return res


def _tol(dt):
    return 1e-5 if np.dtype(dt) == np.dtype('float32') else 1e-12


def _same(got, want, exact, dt, mask=None, unit=1.0):
    """Equality of a result with the reference (exact, or the stated relative tolerance).

    ``unit``: magnitude of the values in the regime of the state (the tolerance is relative to
    max(unit, |reference|), so it does not become loose where the values are tiny).
    """
    got = np.asarray(got)
    want = np.asarray(want)
    if got.shape != want.shape:
        return False
    if mask is not None:
        got, want = got[mask], want[mask]
    if got.dtype.kind in 'USO' or want.dtype.kind in 'USO':
        return bool(np.array_equal(got, want))
    if exact:
        return bool(np.array_equal(got, want))
    if got.size == 0:
        return True
    scale = max(float(unit), float(np.max(np.abs(want))))
    with np.errstate(invalid='ignore'):
        return bool(np.all(np.abs(got - want) <= _tol(dt) * scale))


def _short(a):
    a = np.asarray(a)
    return np.array2string(a, threshold=40, precision=6, separator=',').replace('\n', '')


def _exc(e):
    return 'raises:' + type(e).__name__


def _partition(names, reg=_BASE_REGIME):
    """Partition of [0, 4]^d (regime: of its image) from P1 names, and my own node lists."""
    parts = []
    lo, hi = _tr([0.0, 4.0], reg)
    for nm in names:
        nodes = _tr(P1[nm], reg)
        if nm.startswith('udb'):
            p = odl.uniform_partition(lo, hi, len(nodes), nodes_on_bdry=True)
        elif nm.startswith('ud'):
            p = odl.uniform_partition(lo, hi, len(nodes))
        else:
            p = odl.nonuniform_partition(nodes, min_pt=lo, max_pt=hi)
        parts.append(p)
    part = parts[0]
    if len(parts) > 1:
        part = part.append(*parts[1:])
    return part, [_tr(P1[nm], reg) for nm in names]


def _space(names, dt, reg=_BASE_REGIME):
    part, nodes = _partition(names, reg)
    sp = odl.DiscretizedSpace(part, odl.tensor_space(part.shape, dtype=NP_DT[dt]))
    return sp, nodes


def _own_nodes(rec, sp, nodes, exact):
    """(nodes, exact) to judge a regime state with.

    Where the nodes of a partition sit is C14's business: if the coordinate vectors of the
    space are not bit for bit the images of my nodes, the state is judged on the coordinates
    the space reports, with the stated tolerance (counted under skipped).
    """
    got = [[float(v) for v in c] for c in sp.grid.coord_vectors]
    if got == [list(n) for n in nodes]:
        return nodes, exact
    rec.skipped += 1
    rec.sigs.add('grid nodes are not the exact images')
    return got, False


def _layouts(ndim):
    """Memory layouts of an ``out`` array: the documentation restricts shape and dtype only."""
    return ['C', 'strided'] + (['F'] if ndim >= 2 else [])


def _lay(name, layout):
    """Convention name with the layout (the plain name is the fresh C-contiguous array)."""
    return name if layout == 'C' else '%s[%s]' % (name, layout)


def _out_array(shape, dt, layout):
    """(out array of the given layout, guard() -> True if nothing outside of it was written)."""
    shape = tuple(shape)
    if layout == 'C':
        return np.empty(shape, dtype=dt), None
    if layout == 'F':
        return np.empty(shape, dtype=dt, order='F'), None
    # every second entry of the last axis of a larger buffer
    big = np.empty(shape[:-1] + (2 * shape[-1],), dtype=dt)
    snap = big[..., 1::2].tobytes()
    return big[..., ::2], (lambda: big[..., 1::2].tobytes() == snap)


def _value_layouts(g):
    """(name, array equal to ``g`` -- 'broadcast': to its first row -- in another memory layout).

    The interpolators take ``f : numpy.ndarray``; nothing restricts its memory layout.
    """
    out = [('F', np.asfortranarray(g))]
    out.append(('transposed', np.ascontiguousarray(g.swapaxes(0, 1)).swapaxes(0, 1)))
    big = np.empty((2 * g.shape[0], g.shape[1] + 2) + g.shape[2:], dtype=g.dtype)
    big[::2, 1:-1] = g
    out.append(('strided', big[::2, 1:-1]))
    out.append(('negative stride', np.ascontiguousarray(g[::-1])[::-1]))
    out.append(('broadcast', np.broadcast_to(g[:1].copy(), g.shape)))
    return out


def _generic(nshape, dt, vscale=1.0):
    """Array of pairwise distinct small dyadic values (strings for 'U'), times ``vscale``."""
    n = int(np.prod(nshape))
    if dt == 'U':
        return np.array(['n%d' % i for i in range(n)], dtype='<U4').reshape(nshape)
    if dt == 'i64':
        return (np.arange(n, dtype='int64') * 3 - 4).reshape(nshape)
    base = (np.arange(n) * 0.5 - 1.0) * np.where(np.arange(n) % 3 == 1, -1.0, 1.0) + 0.25
    if dt == 'c128':
        base = base + 1j * (np.arange(n)[::-1] * 0.25 - 0.5)
    return (base * vscale).astype(NP_DT[dt]).reshape(nshape)


# ------------------------------------------------------------------------------------------
# kind: interp

def _make_interp(sc, f, cvecs):
    if sc['fn'] == 'nearest':
        return DU.nearest_interpolator(f, cvecs)
    if sc['fn'] == 'linear':
        return DU.linear_interpolator(f, cvecs)
    return DU.per_axis_interpolator(f, cvecs, sc['interp'])


# One root cause, independent of scheme and dtype (``_Interpolator.__call__`` turns the mesh
# tuple into an object array): reported under one site.
MESH_SITE = 'interpolators[meshgrid input]'
SINGLE_SITE = 'interpolators[linear on a single-node axis]'


def _interp_site(sc, d, dt):
    if sc['fn'] != 'per_axis':
        return '%s_interpolator[%s]' % (sc['fn'], dt)
    ax = _axes_schemes(sc, d)
    cls = ('nearest-only' if all(a == 'nearest' for a in ax) else
           'linear-only' if all(a == 'linear' for a in ax) else 'mixed')
    return 'per_axis_interpolator[%s,%s]' % (cls, dt)


def _run_interp(cfg):
    rec = _Rec()
    grid, sc, dt = cfg['grid'], cfg['scheme'], cfg['dtype']
    d = len(grid)
    schemes = _axes_schemes(sc, d)
    site = _interp_site(sc, d, dt)
    reg = _regime(cfg)
    vs = reg['vscale']
    same = functools.partial(_same, unit=vs)
    cvecs = tuple(np.array(_tr(AX[a], reg)) for a in grid)
    nshape = tuple(len(c) for c in cvecs)
    single_lin = any(s_ == 'linear' and n == 1 for s_, n in zip(schemes, nshape))
    if single_lin:
        # one root cause (division by the zero node spacing in _find_indices): one site, and
        # the state stops at the first clause that shows it
        site = SINGLE_SITE
    exact = not any(a in INEXACT_AX for a in grid)
    npdt = NP_DT[dt]
    rec.sigs.add('%s|%s|%s' % (site, ','.join(schemes), 'exact' if exact else 'tol'))
    if cfg.get('reg'):
        rec.sigs.add('interp|regime %s|%s' % (cfg['reg'], ','.join(sorted(set(schemes)))))
        if vs != 1.0 and dt in ('i64', 'U'):
            rec.skipped += 1              # the value regimes are regimes of floating point data
            return rec.result()

    # --- admissibility
    # (a linear axis with a single node is judged AT the node -- node values are reproduced --
    # and masked as unspecified elsewhere, see mc/ref/interp_ref.py)
    if dt in ('i64', 'U') and 'linear' in schemes:
        # "Nearest neighbor interpolation is the only scheme which works with data of
        # non-numeric data type since it does not involve any arithmetic operations on the
        # values" (nearest_interpolator, Notes); a blend of integers is not an integer.
        rec.skipped += 1
        return rec.result()
    if dt == 'U' and sc['fn'] == 'per_axis':
        # the promise above is made for nearest_interpolator; per_axis_interpolator computes
        # with weights by design ("Helper for nearest interpolation mimicing the linear case")
        rec.skipped += 1
        return rec.result()

    pts = []
    for a, c, s in zip(grid, cvecs, schemes):
        # farout: 1.5, 2, 3 and 10 node spacings outside the hull.  Nearest: the closest node is
        # the edge node.  Linear: the docstrings only describe the virtual zero node one spacing
        # out ("implicitly assuming 0 at the next node"); beyond it nothing is documented and
        # the property speaks of "the documented zero-extension just outside": masked, counted.
        p = R.axis_points(c, outside=True, far=cfg['far'],
                          cells=(1.5, 2.0, 3.0, 10.0) if cfg.get('farout') else (),
                          unit=reg['scale'])
        if a in INEXACT_AX and s == 'nearest':
            keep = [t for t in p if not R.is_tie(c, t)]     # a rounded midpoint is not a tie
            rec.skipped += len(p) - len(keep)
            p = keep
            # instead: points 1e-9 of a spacing left and right of every midpoint, far above
            # double precision round-off, so the closest node is decided (also for float32
            # *values*: the points are double precision numbers)
            for i in range(len(c) - 1):
                h = float(c[i + 1] - c[i])
                p = p + [float(c[i]) + h * (0.5 - 1e-9), float(c[i]) + h * (0.5 + 1e-9)]
        pts.append(p)
    pshape = tuple(len(p) for p in pts)
    W, ok = R.tensor_matrix(cvecs, pts, schemes)
    rec.skipped += int((~ok).sum())
    if not ok.any():
        return rec.result()
    mesh = sparse_meshgrid(*[np.array(p) for p in pts])
    where = 'grid=%s scheme=%s dtype=%s' % (grid, sc, dt)
    coords = [AX[a] for a in grid]
    if cfg.get('reg'):
        where += ' regime=%s (coordinates -> %r + %r * c, values * %r)' % (
            cfg['reg'], reg['offset'], reg['scale'], vs)
        coords = [c.tolist() for c in cvecs]

    def pt_of(idx):
        return [pts[a][i] for a, i in enumerate(idx)]

    # --- (1) interpolation matrix on the mesh: one basis array per node
    g = _generic(nshape, dt, vs)
    if dt != 'U':
        units = [vs] + ([1j * vs] if dt == 'c128' else [])
        broken = False
        for idx in itertools.product(*[range(n) for n in nshape]):
            for u in units:
                e = np.zeros(nshape, dtype=npdt)
                e[idx] = u
                want = (W[(Ellipsis,) + idx] * u).astype(npdt)
                try:
                    got = _make_interp(sc, e, cvecs)(mesh)
                except Exception as ex:
                    rec.viol(site, _exc(ex), '%s basis node %s on the mesh: %r'
                             % (where, list(idx), ex))
                    broken = True
                    break
                rec.evals += 1
                if np.asarray(got).dtype != npdt:
                    rec.viol(site, 'result_dtype', '%s: result dtype %s, values dtype %s'
                             % (where, np.asarray(got).dtype, npdt))
                if not same(got, want, exact, npdt, ok):
                    bad = np.argwhere(~np.isclose(np.asarray(got), want, rtol=0,
                                                  atol=0 if exact else _tol(npdt) * vs) & ok)
                    b = tuple(bad[0]) if len(bad) else (0,) * d
                    rec.viol(site, 'matrix_differs',
                             '%s: weight of node %s (coords %s) at point %s: expected %s, got %s'
                             % (where, list(idx), coords, pt_of(b), want[b],
                                np.asarray(got)[b]))
            if broken:
                break
        if broken or (single_lin and rec.first):
            return rec.result()

    # --- (2) calling conventions on one generic value array
    def expected(vals):
        vals = np.array(vals)               # a C-ordered copy: the reference ignores layouts
        if dt == 'U':
            return vals[np.ix_(*R.nearest_select(cvecs, pts))]
        if dt == 'i64':
            return np.rint(R.apply_weights(W, vals, d)).astype(npdt)
        return R.apply_weights(W, vals, d).astype(npdt)

    want_g = expected(g)
    g0 = g.copy()
    try:
        I = _make_interp(sc, g, cvecs)
    except Exception as ex:
        rec.viol(site, _exc(ex), '%s creating the interpolator: %r' % (where, ex))
        return rec.result()

    def conv(name, call, want, post=None):
        try:
            got = call()
            if post is not None:
                got = post(got)
        except Exception as ex:
            rec.viol(site, '%s_%s' % (name, _exc(ex)), '%s: %r' % (where, ex))
            return None
        rec.evals += 1
        if not same(got, want, exact, npdt, ok if np.shape(want) == ok.shape else None):
            rec.viol(site, '%s_differs' % name, '%s coords %s: expected %s, got %s'
                     % (where, coords, _short(want), _short(got)))
        return got

    got_mesh = conv('mesh', lambda: I(mesh), want_g)
    if d == 1 and dt == 'f64' and got_mesh is not None and not ok.all():
        # what the code does where nothing is documented (evidence only, not judged)
        rec.note = {'unspecified_points': [pts[0][i] for i in np.flatnonzero(~ok)],
                    'observed': np.asarray(got_mesh)[~ok].tolist(), 'values': g.tolist(),
                    'coords': AX[grid[0]]}
    pa = np.array(list(itertools.product(*pts))).T.reshape(d, -1)       # (d, N), C order
    okf = ok.ravel()
    wantf = want_g.ravel()

    # memory layout of the value array (>= 2-d): same values, same results; never modified
    if d >= 2:
        for lname, gl in _value_layouts(g):
            wl = expected(gl)
            before = np.array(gl).tobytes()
            try:
                Il = _make_interp(sc, gl, cvecs)
            except Exception as ex:
                rec.viol(site, 'values[%s]_%s' % (lname, _exc(ex)), '%s: %r' % (where, ex))
                continue
            conv('mesh_values[%s]' % lname, lambda: Il(mesh), wl)
            try:
                got = Il(pa)
                rec.evals += 1
                if not same(got, wl.ravel(), exact, npdt, okf):
                    rec.viol(site, 'point_array_values[%s]_differs' % lname,
                             '%s values strides %s: expected %s, got %s'
                             % (where, gl.strides, _short(wl.ravel()), _short(got)))
            except Exception as ex:
                rec.viol(site, 'point_array_values[%s]_%s' % (lname, _exc(ex)),
                         '%s: %r' % (where, ex))
            if np.array(gl).tobytes() != before:
                rec.viol(site, 'values_modified', '%s value array layout %s' % (where, lname))

    def conv_flat(name, call):
        try:
            got = call()
        except Exception as ex:
            rec.viol(site, '%s_%s' % (name, _exc(ex)), '%s: %r' % (where, ex))
            return
        rec.evals += 1
        if not same(got, wantf, exact, npdt, okf):
            rec.viol(site, '%s_differs' % name, '%s coords %s points %s: expected %s, got %s'
                     % (where, coords, _short(pa), _short(wantf), _short(got)))

    conv_flat('point_array', lambda: I(pa))
    conv_flat('point_list', lambda: I(pa.tolist() if d > 1 else pa[0].tolist()))
    if d == 1:
        conv_flat('point_array', lambda: I(pa[0]))                      # shape (N,)
    if cfg['dense'] and d > 1:
        dense = tuple(np.meshgrid(*[np.array(p) for p in pts], indexing='ij'))
        conv('dense_mesh', lambda: I(dense), want_g)

    # out= (documented: "If out was given, the returned object is a reference to it")
    # whatever the memory layout of out: it "needs to have correct shape" and dtype, no more
    def with_out(x, shape, layout):
        o, guard = _out_array(shape, npdt, layout)
        r = I(x, out=o)
        if r is not o and not (isinstance(r, np.ndarray) and np.shares_memory(r, o)):
            rec.viol(site, 'out_not_returned', '%s: result is not the given out array (%s)'
                     % (where, layout))
        if guard is not None and not guard():
            rec.viol(site, 'out_wrote_outside', '%s: memory between the entries of a strided '
                     'out was modified' % where)
        return o

    for lay in _layouts(d):
        conv(_lay('mesh_out', lay), lambda: with_out(mesh, pshape, lay), want_g)
    for lay in _layouts(1):
        conv_flat(_lay('point_array_out', lay), lambda: with_out(pa, (pa.shape[1],), lay))

    # order of the points.  The value at a point does not depend on where it stands in the mesh
    # vector / point array ("results do not depend on whether points are passed singly, as
    # point arrays or as a mesh grid"; the docstring examples pass unsorted vectors): the given
    # order has the outside points last; here reversed, rotated, interleaved, outside points
    # first and outside points in the MIDDLE (first and last entry inside the hull) -- in all
    # axes at once and in one axis only.
    inside = [[float(c[0]) <= t <= float(c[-1]) for t in p] for c, p in zip(cvecs, pts)]
    perms = [R.orderings(len(p), ins) for p, ins in zip(pts, inside)]
    ident = [list(range(len(p))) for p in pts]
    variants = []
    for oname in ('reversed', 'outside in the middle', 'outside first', 'rotated',
                  'interleaved'):
        if any(oname in pm for pm in perms):
            variants.append((oname, [pm.get(oname, ident[a]) for a, pm in enumerate(perms)]))
        if d > 1:
            for a in range(d):
                if oname in perms[a]:
                    variants.append(('%s, one axis' % oname,
                                     [perms[b][oname] if b == a else ident[b]
                                      for b in range(d)]))
    for oname, pm in variants:
        pp = [np.array([pts[a][i] for i in pm[a]]) for a in range(d)]
        wp = want_g[np.ix_(*pm)]
        okp = ok[np.ix_(*pm)]
        m = sparse_meshgrid(*pp)
        o, _ = _out_array(wp.shape, npdt, 'C')
        pap = np.array(list(itertools.product(*pp))).T.reshape(d, -1)
        for name, call, w, k in (
                ('mesh', lambda: I(m), wp, okp),
                ('mesh_out', lambda: I(m, out=o), wp, okp),
                ('collocation', lambda: DU.point_collocation(I, m), wp, okp),
                ('point_array', lambda: I(pap), wp.ravel(), okp.ravel())):
            if name == 'mesh_out' and 'one axis' in oname:
                continue
            try:
                got = call()
            except Exception as ex:
                rec.viol(site, '%s_reordered_%s' % (name, _exc(ex)),
                         '%s order of the points: %s: %r' % (where, oname, ex))
                continue
            rec.evals += 1
            if not same(got, w, exact, npdt, k):
                rec.viol(site, '%s_reordered_differs' % name,
                         '%s coords %s, order of the points: %s, points per axis %s: expected '
                         '%s, got %s' % (where, coords, oname, [x.tolist() for x in pp],
                                         _short(w), _short(got)))

    # every single point
    first_bad = None
    for n, idx in enumerate(itertools.product(*[range(k) for k in pshape])):
        if not ok[idx]:
            continue
        p = pt_of(idx)
        x = p[0] if d == 1 else (np.array(p) if n % 2 == 0 else p)
        try:
            got = I(x)
        except Exception as ex:
            rec.viol(site, 'single_point_' + _exc(ex), '%s point %s: %r' % (where, p, ex))
            break
        rec.evals += 1
        if np.ndim(got) != 0:
            rec.viol(site, 'single_point_not_scalar', '%s point %s: got %r' % (where, p, got))
            break
        if first_bad is None and not same(np.asarray(got).astype(npdt), want_g[idx], exact,
                                           npdt):
            first_bad = (p, want_g[idx], got)
    if first_bad is not None:
        rec.viol(site, 'single_point_differs', '%s coords %s point %s: expected %s, got %s'
                 % ((where, coords) + first_bad))

    # mesh grids in which some axes carry a single point
    for k in range(1, d + 1):
        for sub in itertools.combinations(range(d), k):
            sel = []
            for a in range(d):
                if a in sub:
                    sel.append([min(len(cvecs[a]), pshape[a] - 1)])
                else:
                    sel.append(list(range(pshape[a])))
            m = sparse_meshgrid(*[np.array([pts[a][i] for i in sel[a]]) for a in range(d)])
            w = want_g[np.ix_(*sel)]
            lead = (len(sel[0]) == 1 and any(len(s) > 1 for s in sel[1:]))
            name = 'mesh_single_point_first_axis' if lead else 'mesh_single_point_axis'
            try:
                got = I(m)
            except Exception as ex:
                rec.viol(MESH_SITE if lead else site, '%s_%s' % (name, _exc(ex)),
                         '%s mesh shapes %s: %r' % (where, [x.shape for x in m], ex))
                continue
            rec.evals += 1
            if not same(got, w, exact, npdt, ok[np.ix_(*sel)]):
                rec.viol(site, name + '_differs', '%s mesh shapes %s: expected %s, got %s'
                         % (where, [x.shape for x in m], _short(w), _short(got)))

    if g.tobytes() != g0.tobytes():
        rec.viol(site, 'values_modified', '%s: the value array was changed by the calls' % where)

    # --- (3) node values are reproduced exactly (any grid, any scheme)
    nodes_mesh = sparse_meshgrid(*cvecs)
    try:
        got = I(nodes_mesh)
        rec.evals += 1
        # real data: x/x == 1 and 1 - 1 == 0 in IEEE arithmetic, so reproduction is exact on
        # every grid.  Complex data: odl casts the points to complex and numpy's complex
        # division does not guarantee z/z == 1, so off the dyadic grids the stated tolerance
        # applies (rule 3: exact only where the arithmetic is exact).
        if not same(got, g, exact or dt != 'c128', npdt):
            rec.viol(site, 'node_not_reproduced', '%s coords %s: values %s, at the nodes %s'
                     % (where, coords, _short(g), _short(got)))
    except Exception as ex:
        if nshape[0] == 1 and any(n > 1 for n in nshape[1:]):
            rec.viol(MESH_SITE, 'mesh_single_point_first_axis_' + _exc(ex),
                     '%s mesh of the nodes: %r' % (where, ex))
        else:
            rec.viol(site, 'nodes_mesh_' + _exc(ex), '%s: %r' % (where, ex))

    # --- (4) linear interpolation is exact on affine functions inside the hull
    if all(s == 'linear' for s in schemes) and dt in ('f64', 'f32', 'c128'):
        coef = [1.0, -2.0, 0.25][:d]
        fac = (1 + 0.5j) if dt == 'c128' else 1.0

        def aff(p):
            # affine in the coordinates of the base grid (exactly invertible regime map), so
            # that the node values are the same dyadic numbers in every regime
            return (0.5 + sum(c * ((t - reg['offset']) / reg['scale'])
                              for c, t in zip(coef, p))) * fac * vs
        inner = [[t for t in R.axis_points(c, outside=False)] for c in cvecs]
        fa = R.sample(cvecs, aff, npdt)
        wa = R.sample(inner, aff, npdt)
        try:
            got = _make_interp(sc, fa, cvecs)(sparse_meshgrid(*[np.array(p) for p in inner]))
            rec.evals += 1
            if not same(got, wa, exact, npdt):
                rec.viol(site, 'affine_not_exact', '%s coords %s: expected %s, got %s'
                         % (where, coords, _short(wa), _short(got)))
        except Exception as ex:
            rec.viol(site, 'affine_' + _exc(ex), '%s: %r' % (where, ex))
    return rec.result()


# ------------------------------------------------------------------------------------------
# callables for sample / sfunc

def _val(S, cplx):
    """value(x) = 1/2 + sum_{k in S} (k+1) x_k  (+ i (x_{S[0]} - 1), or + 2i for empty S).

    Works on mesh grids / point arrays (vectorised, broadcasting when S is a proper subset)
    and on a list of Python floats (the scalar evaluation that defines the expected values).
    """
    def val(x):
        v = 0.5
        for k in S:
            v = v + (k + 1) * x[k]
        if cplx:
            v = v + (1j * (x[S[0]] - 1) if S else 2j)
        return v
    return val


def _callable(style, S, cplx, otype=None, val=None):
    """(callable, kwargs for the call, shift added by the kwargs)."""
    val = _val(S, cplx) if val is None else val
    sc = complex if cplx else float
    if style == 'partial':
        def f(x, c=0.0):
            return val(x) + c
        return functools.partial(f, c=0.25), {}, 0.25
    if style == 'partial_ip':
        def f(x, out, c=0.0):
            out[:] = val(x) + c
        return functools.partial(f, c=0.25), {}, 0.25
    if style in ('method', 'method_ip', 'method_dual', 'classmethod', 'staticmethod'):
        class K(object):
            def m(self, x):
                return val(x)

            def m_ip(self, x, out):
                out[:] = val(x)

            def m_dual(self, x, out=None):
                if out is None:
                    return val(x)
                out[:] = val(x)

            @classmethod
            def c(cls, x):
                return val(x)

            @staticmethod
            def s(x):
                return val(x)
        k = K()
        return {'method': k.m, 'method_ip': k.m_ip, 'method_dual': k.m_dual,
                'classmethod': K.c, 'staticmethod': K.s}[style], {}, 0.0
    if style == 'kwonly_param':
        def f(x, *, c=0.0):
            return val(x) + c
        return f, {'c': 0.25}, 0.25
    if style == 'varkw':
        def f(x, **kw):
            return val(x) + kw.get('c', 0.0)
        return f, {'c': 0.25}, 0.25
    if style == 'oop':
        return (lambda x: val(x)), {}, 0.0
    if style == 'oop_kw':
        def f(x, c=0.0):
            return val(x) + c
        return f, {'c': 0.25}, 0.25
    if style == 'ip':
        def f(x, out):
            out[:] = val(x)
        return f, {}, 0.0
    if style == 'ip_kw':
        def f(x, out, c=0.0):
            out[:] = val(x) + c
        return f, {'c': 0.25}, 0.25
    if style == 'ip_kwreq':
        def f(x, *, out):
            out[:] = val(x)
        return f, {}, 0.0
    if style == 'dual':
        def f(x, out=None):
            if out is None:
                return val(x)
            out[:] = val(x)
        return f, {}, 0.0
    if style == 'dual_kwonly':
        def f(x, *, out=None):
            if out is None:
                return val(x)
            out[:] = val(x)
        return f, {}, 0.0
    if style == 'vec':
        return vectorize(lambda x: sc(val(x))), {}, 0.0
    if style == 'vec_otypes':
        return vectorize(otypes=[otype])(lambda x: sc(val(x))), {}, 0.0
    if style == 'vec_kw':
        return vectorize(lambda x, c=0.0: sc(val(x) + c)), {'c': 0.25}, 0.25
    if style == 'obj':
        class C(object):
            def __call__(self, x):
                return val(x)
        return C(), {}, 0.0
    if style == 'obj_ip':
        class C(object):
            def __call__(self, x, out):
                out[:] = val(x)
        return C(), {}, 0.0
    if style == 'obj_dual':
        class C(object):
            def __call__(self, x, out=None):
                if out is None:
                    return val(x)
                out[:] = val(x)
        return C(), {}, 0.0
    raise KeyError(style)


_CONSTS = [('float', 1.5), ('int', 2), ('npfloat', np.float64(0.25)), ('zero', 0),
           ('array0d', np.array(3.0)), ('complex', 1 + 2j)]
_UFUNCS = [('negative', np.negative, lambda t: -t), ('square', np.square, lambda t: t * t),
           ('absolute', np.absolute, lambda t: abs(t))]


def _style_class(style):
    """Site name of a callable style: styles that share the wrapper's decision share a site."""
    if style in NOT_PLAIN:
        # functools.partial objects, bound methods, class methods: one decision of
        # _func_out_type (it inspects ``func.__call__`` of everything that is not a function)
        return 'not a plain function:' + style
    if style in ('ip', 'ip_kw', 'obj_ip', 'direct_ip'):
        return 'in-place only:' + style
    if style == 'ip_kwreq':
        return 'required keyword-only out'
    if style == 'dual_kwonly':
        return 'optional keyword-only out'
    return style


def _subsets(d):
    out = [list(range(d))]
    for k in range(1, d):
        out += [list(c) for c in itertools.combinations(range(d), k)]
    out.append([])
    return out


def _cases(style, d, cplx_space, otype):
    """Inner alphabet of one callable style: (label, callable, kwargs, scalar reference)."""
    if style == 'const':
        for name, c in _CONSTS:
            if name == 'complex' and not cplx_space:
                continue
            yield name, (lambda x, c=c: c), {}, (lambda p, c=c, name=name: complex(c)
                                                  if name == 'complex' else float(c))
        return
    if style == 'ufunc':
        for name, uf, sf in _UFUNCS:
            yield name, uf, {}, (lambda p, sf=sf: sf(p[0]))
        return
    if style.startswith('direct_'):
        # 1-d functions written on ``x`` itself (``space.element(lambda x: x * 2)``)
        for cplx in ((False, True) if cplx_space else (False,)):
            def val(x, cplx=cplx):
                v = 2 * x + 0.5
                return v + 1j * (x - 1) if cplx else v
            if style == 'direct_oop':
                f = (lambda x, val=val: val(x))
            elif style == 'direct_ip':
                def f(x, out, val=val):
                    out[:] = val(x)
            else:
                def f(x, out=None, val=val):
                    if out is None:
                        return val(x)
                    out[:] = val(x)
            yield ('direct%s' % (',complex' if cplx else ''), f, {},
                   (lambda p, val=val: val(p[0])))
        if style == 'direct_oop':
            yield 'identity x', (lambda x: x), {}, (lambda p: p[0])
        elif style == 'direct_ip':
            def fi(x, out):
                out[:] = x
            yield 'identity x', fi, {}, (lambda p: p[0])
        else:
            def fd(x, out=None):
                if out is None:
                    return x
                out[:] = x
            yield 'identity x', fd, {}, (lambda p: p[0])
        return
    if style == 'uninspectable':
        # builtins, numpy.vectorize objects, *args signatures: no Python-level signature with
        # a single input.  "*args not allowed in function signature ... since they make
        # argument propagation a huge hassle" (_check_func_out_arg): a TypeError is the
        # documented answer and is counted; if the callable is accepted its values are judged.
        yield 'abs', abs, {}, (lambda p: abs(p[0]))
        yield 'operator.neg', operator.neg, {}, (lambda p: -p[0])
        yield ('numpy.vectorize', np.vectorize(lambda t: 2.0 * t + 0.5), {},
               (lambda p: 2.0 * p[0] + 0.5))
        yield '*args', (lambda *a: a[0][0] * 2.0), {}, (lambda p: p[0] * 2.0)
        return
    for S in _subsets(d):
        for cplx in ((False, True) if cplx_space else (False,)):
            f, kw, shift = _callable(style, S, cplx, otype)
            val = _val(S, cplx)
            yield ('S=%s%s' % (S, ',complex' if cplx else ''), f, kw,
                   (lambda p, val=val, shift=shift: val(p) + shift))
    # the callable returns its argument unchanged (a view of the mesh)
    for k in range(d):
        f, kw, shift = _callable(style, [k], False, otype, val=(lambda x, k=k: x[k]))
        yield ('identity x[%d]' % k, f, kw, (lambda p, k=k, shift=shift: p[k] + shift))


def _sample_space(cfg):
    shp = cfg['shape']
    d = len(shp)
    dt = NP_DT[cfg['dtype']]
    reg = _regime(cfg)

    def tr(v):
        return _tr(v, reg)
    if cfg['grid'] == 'ud':
        # cells of length one: nodes k + 1/2
        sp = odl.uniform_discr(tr([0.0] * d), tr([float(n) for n in shp]), shp, dtype=dt)
        nodes = [tr([k + 0.5 for k in range(n)]) for n in shp]
    elif cfg['grid'] == 'udb':
        # nodes on the boundary: nodes 2k on [0, 2(n-1)]; a single node sits in the middle
        sp = odl.uniform_discr(tr([0.0] * d), tr([2.0 * max(n - 1, 1) for n in shp]), shp,
                               dtype=dt, nodes_on_bdry=True)
        nodes = [tr([2.0 * k for k in range(n)] if n > 1 else [1.0]) for n in shp]
    else:
        tab = {1: [0.5], 2: [0.0, 3.0], 3: [0.5, 1.0, 3.5], 4: [0.25, 1.0, 2.0, 3.75]}
        nodes = [tr(tab[n]) for n in shp]
        part = odl.nonuniform_partition(*nodes, min_pt=tr([0.0] * d), max_pt=tr([4.0] * d))
        sp = odl.DiscretizedSpace(part, odl.tensor_space(part.shape, dtype=dt))
    return sp, nodes


def _check_owns(rec, site, sp, el, got, where):
    """A sampled element owns its values: no memory shared with the grid of the space, and
    overwriting the element in place leaves the (hashable, shared) grid bit-identical."""
    cvs = sp.grid.coord_vectors
    if site.startswith('element(callable)'):
        site = 'element(callable)[returns its input]'     # one root cause, whatever the style
    if any(np.shares_memory(got, c) for c in cvs):
        # (not overwritten here: that would corrupt the space for the rest of the state)
        rec.viol(site, 'shares_memory_with_grid',
                 '%s: element.asarray() shares memory with space.grid.coord_vectors, so '
                 'element *= 2 changes the grid and the meshgrid of the space' % where)
        return
    before = [c.tobytes() for c in cvs]
    try:
        el *= 2
    except Exception as ex:
        rec.viol(site, 'imul_' + _exc(ex), '%s: %r' % (where, ex))
        return
    if [c.tobytes() for c in sp.grid.coord_vectors] != before:
        rec.viol(site, 'grid_changed_by_element',
                 '%s: the grid of the space changed when the element was scaled in place'
                 % where)


def _run_sample(cfg):
    rec = _Rec()
    sp, nodes = _sample_space(cfg)
    d = len(cfg['shape'])
    style = cfg['style']
    dt = NP_DT[cfg['dtype']]
    site = 'element(callable)[%s]' % _style_class(style)
    cplx_space = cfg['dtype'] == 'c128'
    where = 'grid=%s shape=%s dtype=%s' % (cfg['grid'], cfg['shape'], cfg['dtype'])
    if any(n == 1 for n in cfg['shape']) and cfg['grid'] == 'udb':
        # nodes_on_bdry with one node per axis: where the node sits is C14's business
        got_nodes = [list(map(float, c)) for c in sp.grid.coord_vectors]
        nodes = got_nodes
    if cfg.get('reg'):
        # (the comparison stays exact: the reference evaluates the same Python arithmetic at
        # the coordinates the callable receives)
        nodes, _ = _own_nodes(rec, sp, nodes, True)
        where += ' regime=%s (coordinates -> %r + %r * c)' % (
            cfg['reg'], _regime(cfg)['offset'], _regime(cfg)['scale'])
        rec.sigs.add('sample|regime %s' % cfg['reg'])
    if style == 'vec':
        # numpy.vectorize without otypes takes the output type from the first point, so a
        # scalar function returning the int 0 there truncates later values (1.5 -> 1).  This is
        # numpy's documented behaviour ("determined by calling the function with the first
        # element of the input") which odl.util.vectorize passes on: counted, not judged.
        rec.skipped += 1
    for label, f, kw, sf in _cases(style, d, cplx_space, dt):
        want = R.sample(nodes, sf, dt)
        for order in (None, 'C', 'F'):
            try:
                el = sp.element(f, order=order, **kw)
                got = el.asarray()
            except Exception as ex:
                if (style == 'uninspectable' and isinstance(ex, TypeError) and
                        '*args not allowed' in str(ex)):
                    rec.skipped += 1
                    continue
                rec.viol(site, _exc(ex), '%s case %s order=%s: %r' % (where, label, order, ex))
                continue
            rec.evals += 1
            rec.sigs.add('%s|%s|%s' % (style, 'c' if cplx_space else 'r', label))
            if el not in sp or got.dtype != dt or got.shape != tuple(cfg['shape']):
                rec.viol(site, 'wrong_space', '%s case %s: element %r' % (where, label, el))
                continue
            if not np.array_equal(got, want):
                rec.viol(site, 'values_differ',
                         '%s nodes %s case %s order=%s: expected %s, got %s'
                         % (where, nodes, label, order, _short(want), _short(got)))
            if order == 'C' and not got.flags.c_contiguous:
                rec.viol(site, 'order_not_enforced', '%s case %s order=C' % (where, label))
            if order == 'F' and not got.flags.f_contiguous:
                rec.viol(site, 'order_not_enforced', '%s case %s order=F' % (where, label))
            _check_owns(rec, site, sp, el, got, '%s case %s order=%s' % (where, label, order))
    if style == 'oop' and cfg['dtype'] == 'f64':
        # vector field whose components return a mesh component
        vsite = 'tangent_bundle.element(callables)'
        try:
            v = sp.tangent_bundle.element([(lambda x, k=k: x[k]) for k in range(d)])
            rec.evals += 1
            for k in range(d):
                want = R.sample(nodes, (lambda p, k=k: p[k]), dt)
                got = v[k].asarray()
                if not np.array_equal(got, want):
                    rec.viol(vsite, 'values_differ', '%s component %d: expected %s, got %s'
                             % (where, k, _short(want), _short(got)))
                _check_owns(rec, vsite, sp, v[k], got, '%s component %d' % (where, k))
        except Exception as ex:
            rec.viol(vsite, _exc(ex), '%s: %r' % (where, ex))
    return rec.result()


# ------------------------------------------------------------------------------------------
# kind: sfunc

_SF_AXES = {1: [[0.5, 1.5, 3.0, 4.0]],
            2: [[0.5, 1.5, 3.0], [0.0, 2.5]],
            3: [[0.5, 3.0], [1.5, 0.5, 2.0], [4.0, 1.0]]}


def _members(d):
    """Member pool of a tensor-valued function given as an array-like of callables."""
    full = list(range(d))
    pool = [('oop', full), ('c', 2.0), ('oop', [0]), ('ip', full), ('dual', [d - 1]),
            ('vec', full), ('c', 3)]
    out = []
    for st, S in pool:
        if st == 'c':
            out.append((S, (lambda p, c=S: float(c))))
        else:
            f, _, _ = _callable(st, S, False)
            out.append((f, _val(S, False)))
    return out


def _tensor_case(style, d, val, cplx=False):
    """(func_or_arr, list of scalar references in C order of the value shape)."""
    full = list(range(d))
    if style == 'list':
        mem = _members(d)
        k = int(np.prod(val))
        mem = (mem * 2)[:k]
        arr = [m[0] for m in mem]
        if len(val) == 2:
            arr = [arr[:val[1]], arr[val[1]:]]
        return arr, [m[1] for m in mem]
    if style == 'list_ufunc':
        # ufunc-like member of an array of callables (1-d only: a ufunc acts on x itself)
        f, _, _ = _callable('oop', full, False)
        return [np.negative, f], [(lambda p: -p[0]), _val(full, False)]
    if style == 'tuple_ident':
        # a vector field whose components ARE mesh components
        return (lambda x: (x[0], x[d - 1])), [(lambda p: p[0]), (lambda p: p[d - 1])]
    va, v0 = _val(full, cplx), _val([0], cplx)
    if style == 'tuplefunc':
        # "a single function returning an array-like of results", with broadcasting
        zero = 0j if cplx else 0.0
        return (lambda x: (va(x), zero, v0(x))), [va, (lambda p: zero), v0]
    if style == 'arrayfunc':
        def f(x):
            a, b = np.broadcast_arrays(np.asarray(va(x)),
                                       np.asarray(v0(x)))
            return np.stack([a, b])
        return f, [va, v0]
    if style == 'tensor_ip':
        def f(x, out):
            out[0] = va(x)
            out[1] = v0(x)
        return f, [va, v0]
    if style == 'tensor_dual':
        def f(x, out=None):
            if out is None:
                a, b = np.broadcast_arrays(np.asarray(va(x)),
                                           np.asarray(v0(x)))
                return np.stack([a, b])
            out[0] = va(x)
            out[1] = v0(x)
        return f, [va, v0]
    raise KeyError(style)


def _run_sfunc(cfg):
    rec = _Rec()
    d, style, od, val = cfg['d'], cfg['style'], cfg['out_dtype'], tuple(cfg['val'])
    axes = _SF_AXES[d]
    pshape = tuple(len(a) for a in axes)
    dom = odl.IntervalProd([0.0] * d, [4.0] * d)
    sdt = NP_DT[od] if od is not None else np.dtype('float64')
    cplx = sdt.kind == 'c'
    site = 'sampling_function[%s%s%s]' % (_style_class(style), ',tensor' if val else '',
                                          ',default out_dtype' if od is None else '')
    where = 'd=%d out_dtype=%s val_shape=%s' % (d, od, list(val))
    mesh = sparse_meshgrid(*[np.array(a) for a in axes])
    pa = np.array(list(itertools.product(*axes))).T.reshape(d, -1)

    if val and style == 'tuple_ident' and od != 'f64':
        rec.skipped += 1                  # the mesh components are float64 (same dtype check)
        return rec.result()
    if val and style == 'tuplefunc' and od == 'f32':
        # the result of a tuple-returning function must already have the scalar dtype
        # (deliberate check "result is of dtype ..., expected ..."): nothing to judge
        rec.skipped += 1
        return rec.result()
    if val:
        func, refs = _tensor_case(style, d, list(val), cplx and not style.startswith('list'))
        cases = [('tensor', func, {}, refs)]
        out_dtype = None if od is None else (sdt, val)
    else:
        cases = [(lab, f, kw, [sf]) for lab, f, kw, sf in _cases(style, d, cplx, sdt)]
        out_dtype = None if od is None else sdt

    for label, f, kw, refs in cases:
        want = np.stack([R.sample(axes, sf, sdt) for sf in refs]).reshape(val + pshape)
        wantf = want.reshape(val + (-1,))
        rec.sigs.add('%s|%s|%s' % (site, 'c' if cplx else 'r', 'none' if od is None else 'dt'))
        try:
            F = DU.sampling_function(f, dom, out_dtype=out_dtype)
        except Exception as ex:
            if (style == 'uninspectable' and isinstance(ex, TypeError) and
                    '*args not allowed' in str(ex)):
                rec.skipped += 1          # the documented answer to such signatures
                continue
            rec.viol(site, 'create_' + _exc(ex), '%s case %s: %r' % (where, label, ex))
            continue

        seen_exc = set()
        inputs = list(mesh) + [pa]

        def conv(name, call, w):
            try:
                got = call()
            except Exception as ex:
                # one report per distinct failure of a case: the first convention showing it
                key = type(ex).__name__
                if key not in seen_exc:
                    seen_exc.add(key)
                    rec.viol(site, '%s_%s' % (name, _exc(ex)),
                             '%s case %s: %r' % (where, label, ex))
                return
            rec.evals += 1
            got = np.asarray(got)
            if 'out' not in name and any(np.shares_memory(got, a) for a in inputs):
                # the wrapper hands back what the callable returned, here a view of the
                # caller's own input: point_collocation "does little more than calling the
                # function ... and returning the result" -- counted, not judged (the element
                # made from it is judged: element(callable) shares_memory_with_grid)
                rec.skipped += 1
            if got.shape != np.shape(w) or not np.array_equal(got, w):
                # non-C layouts of out: one report per layout and case (first convention)
                key = name[name.index('['):] if '[' in name else None
                if key is None or key not in seen_exc:
                    seen_exc.add(key)
                    rec.viol(site, '%s_differs' % name,
                             '%s case %s axes %s: expected %s, got %s'
                             % (where, label, axes, _short(w), _short(got)))
            elif got.dtype != sdt and name not in ('point',):
                rec.viol(site, '%s_dtype' % name, '%s case %s: dtype %s, expected %s'
                         % (where, label, got.dtype, sdt))

        def with_out(x, shape, via_pc=False, layout='C'):
            o, guard = _out_array(shape, sdt, layout)
            r = (DU.point_collocation(F, x, out=o, **kw) if via_pc else F(x, out=o, **kw))
            if via_pc and r is not o:
                rec.viol(site, 'out_not_returned', '%s case %s' % (where, label))
            if guard is not None and not guard():
                rec.viol(site, 'out_wrote_outside', '%s case %s: memory between the entries '
                         'of a strided out was modified' % (where, label))
            xs = list(x) if isinstance(x, tuple) else [x]
            if any(np.shares_memory(o, a) for a in xs) or (
                    isinstance(r, np.ndarray) and any(np.shares_memory(r, a) for a in xs)):
                rec.viol(site, 'out_aliases_input', '%s case %s: out / the returned array '
                         'shares memory with the evaluation points' % (where, label))
            return o

        conv('mesh', lambda: F(mesh, **kw), want)
        conv('collocation', lambda: DU.point_collocation(F, mesh, **kw), want)
        conv('point_array', lambda: F(pa, **kw), wantf)
        if d == 1:
            if style in ONLY_1D:
                # shape (N,): the callable receives the flat array, so only functions written
                # on ``x`` itself (not ``x[0]``) are meaningful here
                conv('flat_point_array', lambda: F(pa[0], **kw), wantf)
        else:
            dense = tuple(np.meshgrid(*[np.array(a) for a in axes], indexing='ij'))
            conv('dense_mesh', lambda: F(dense, **kw), want)
        conv('mesh_out', lambda: with_out(mesh, val + pshape), want)
        conv('collocation_out', lambda: with_out(mesh, val + pshape, True), want)
        conv('point_array_out', lambda: with_out(pa, val + (pa.shape[1],)), wantf)
        # the same with out arrays that are not C-contiguous
        for lay in _layouts(len(val + pshape))[1:]:
            conv(_lay('mesh_out', lay), lambda: with_out(mesh, val + pshape, False, lay), want)
            conv(_lay('collocation_out', lay),
                 lambda: with_out(mesh, val + pshape, True, lay), want)
        for lay in _layouts(len(val) + 1)[1:]:
            conv(_lay('point_array_out', lay),
                 lambda: with_out(pa, val + (pa.shape[1],), False, lay), wantf)
        for n in range(pa.shape[1]):
            p = pa[:, n]
            x = float(p[0]) if d == 1 else (np.array(p) if n % 2 == 0 else p.tolist())
            w = wantf[..., n]
            try:
                got = F(x, **kw)
            except Exception as ex:
                key = type(ex).__name__
                if key not in seen_exc:
                    rec.viol(site, 'point_' + _exc(ex),
                             '%s case %s point %s: %r' % (where, label, p.tolist(), ex))
                break
            rec.evals += 1
            if np.shape(got) != w.shape or not np.array_equal(np.asarray(got), w):
                rec.viol(site, 'point_differs', '%s case %s point %s: expected %s, got %r'
                         % (where, label, p.tolist(), _short(w), got))
                break
    return rec.result()


# ------------------------------------------------------------------------------------------
# kind: resample

def _run_resample(cfg):
    rec = _Rec()
    sc, dt = cfg['scheme'], cfg['dtype']
    d = len(cfg['dom'])
    schemes = _axes_schemes(sc, d)
    npdt = NP_DT[dt]
    reg = _regime(cfg)
    vs = reg['vscale']
    same = functools.partial(_same, unit=vs)
    route = cfg.get('route')
    dom, dnodes = _space(cfg['dom'], dt, reg)
    ran, rnodes = _space(cfg['ran'], dt, reg)
    exact = not any(n in INEXACT_P1 for n in cfg['dom'] + cfg['ran'])
    if cfg.get('reg'):
        dnodes, exact = _own_nodes(rec, dom, dnodes, exact)
        rnodes, exact = _own_nodes(rec, ran, rnodes, exact)
    site = 'Resampling[%s]' % dt
    if route:
        # "The returned operator is resampling defined in the opposite direction" (inverse);
        # "adjoint : Resampling operator defined in the opposite direction": the operator from
        # ``domain`` to ``range`` obtained from the one built the other way round
        site = 'Resampling.%s' % route
    single_lin = any(s_ == 'linear' and len(P1[nm]) == 1 for s_, nm in zip(schemes, cfg['dom']))
    if single_lin:
        site = 'Resampling[linear on a single-node axis]'
    where = 'domain=%s range=%s on [0,4]^%d interp=%s' % (cfg['dom'], cfg['ran'], d,
                                                          _interp_arg(sc, d))
    if cfg.get('reg'):
        where += ' regime=%s (coordinates -> %r + %r * c, values * %r)' % (
            cfg['reg'], reg['offset'], reg['scale'], vs)
        rec.sigs.add('resample|regime %s|%s' % (cfg['reg'], ','.join(sorted(set(schemes)))))
    if route:
        where += ' op=Resampling(range, domain, interp).%s' % route
    W, ok = R.tensor_matrix(dnodes, rnodes, schemes)       # ran.shape + dom.shape
    rec.skipped += int((~ok).sum())
    rec.sigs.add('resample|%s|%s|%s' % (','.join(schemes), 'exact' if exact else 'tol',
                                        route or 'direct'))
    if not ok.any():
        return rec.result()
    try:
        if route:
            op = getattr(odl.Resampling(ran, dom, _interp_arg(sc, d)), route)
            if op.domain != dom or op.range != ran:
                rec.viol(site, 'wrong_spaces', '%s: domain %r range %r'
                         % (where, op.domain, op.range))
                return rec.result()
        else:
            op = odl.Resampling(dom, ran, _interp_arg(sc, d))
    except Exception as ex:
        rec.viol(site, 'create_' + _exc(ex), '%s: %r' % (where, ex))
        return rec.result()
    lead = ran.shape[0] == 1 and any(n > 1 for n in ran.shape[1:])
    pre = 'range_first_axis_single_point_' if lead else ''
    site0 = site
    if lead and not single_lin:
        site = 'Resampling[range meshgrid]'
    units = [vs] + ([1j * vs] if dt == 'c128' else [])
    for idx in itertools.product(*[range(n) for n in dom.shape]):
        for u in units:
            e = np.zeros(dom.shape, dtype=npdt)
            e[idx] = u
            want = (W[(Ellipsis,) + idx] * u).astype(npdt)
            try:
                got = op(dom.element(e)).asarray()
            except Exception as ex:
                rec.viol(site, pre + _exc(ex), '%s: %r' % (where, ex))
                return rec.result()
            rec.evals += 1
            if not same(got, want, exact, npdt, ok):
                rec.viol(site, 'matrix_differs',
                         '%s domain nodes %s range nodes %s: column of node %s expected %s, '
                         'got %s' % (where, dnodes, rnodes, list(idx), _short(want),
                                     _short(got)))
    if single_lin and rec.first:
        return rec.result()
    g = _generic(dom.shape, dt, vs)
    want = R.apply_weights(W, g, d).astype(npdt)
    try:
        got = op(dom.element(g)).asarray()
        rec.evals += 1
        if not same(got, want, exact, npdt, ok):
            rec.viol(site, 'values_differ', '%s x=%s: expected %s, got %s'
                     % (where, _short(g), _short(want), _short(got)))
    except Exception as ex:
        rec.viol(site, pre + _exc(ex), '%s: %r' % (where, ex))
    if d >= 2:
        # the same element stored in Fortran order / as a non-contiguous element
        for lname, gl in _value_layouts(g)[:2]:
            try:
                x = dom.element(gl)
                lay = 'C' if x.asarray().flags.c_contiguous else lname
                got = op(x).asarray()
                rec.evals += 1
                rec.sigs.add('resample|input %s' % lay)
                if not same(got, want, exact, npdt, ok):
                    rec.viol(site, 'values_differ[input %s]' % lname,
                             '%s x=%s (strides %s): expected %s, got %s'
                             % (where, _short(g), x.asarray().strides, _short(want),
                                _short(got)))
                if not np.array_equal(x.asarray(), g):
                    rec.viol(site, 'input_modified', where)
            except Exception as ex:
                rec.viol(site, pre + 'input[%s]_%s' % (lname, _exc(ex)), '%s: %r' % (where, ex))
    # in-place call of the operator
    site = site0
    for lay in ['C'] + (['F'] if d >= 2 else []):
        o = ran.element(np.zeros(ran.shape, dtype=npdt, order=lay), order=lay)
        name = _lay('out_call', lay)
        try:
            r = op(dom.element(g), out=o)
            rec.evals += 1
            if r is not o:
                rec.viol(site, 'out_not_returned', where)
            if not same(o.asarray(), want, exact, npdt, ok):
                rec.viol(site, name + '_differs', '%s x=%s: expected %s, got %s'
                         % (where, _short(g), _short(want), _short(o.asarray())))
        except Exception as ex:
            rec.viol(site, '%s_%s' % (name, _exc(ex)),
                     '%s: op(x, out=range.element()): %r' % (where, ex))
    return rec.result()


# ------------------------------------------------------------------------------------------
# kind: deform

def _run_deform(cfg):
    if cfg['via'] == 'FixedTempl.derivative':
        return _run_deform_derivative(cfg)
    rec = _Rec()
    sc, dt, via = cfg['scheme'], cfg['dtype'], cfg['via']
    d = len(cfg['space'])
    schemes = _axes_schemes(sc, d)
    npdt = NP_DT[dt]
    reg = _regime(cfg)
    vs, cs = reg['vscale'], reg['scale']
    same = functools.partial(_same, unit=vs)
    sp, nodes = _space(cfg['space'], dt, reg)
    exact = not any(n in INEXACT_P1 for n in cfg['space'])
    if cfg.get('reg'):
        nodes, exact = _own_nodes(rec, sp, nodes, exact)
    site = {'function': 'linear_deform', 'FixedTempl': 'LinDeformFixedTempl',
            'FixedDisp': 'LinDeformFixedDisp',
            'FixedDisp.inverse': 'LinDeformFixedDisp.inverse'}[via] + '[%s]' % dt
    single_lin = any(s_ == 'linear' and len(P1[nm]) == 1
                     for s_, nm in zip(schemes, cfg['space']))
    if single_lin:
        site = site.split('[')[0] + '[linear on a single-node axis]'
    interp = _interp_arg(sc, d)
    where = 'space=%s on [0,4]^%d interp=%s' % (cfg['space'], d, interp)
    if cfg.get('reg'):
        where += (' regime=%s (coordinates and displacements -> %r + %r * c, values * %r)'
                  % (cfg['reg'], reg['offset'], cs, vs))
        rec.sigs.add('deform|regime %s|%s' % (cfg['reg'], ','.join(sorted(set(schemes)))))
    rec.sigs.add('deform|%s|%s|%s' % (via, ','.join(schemes), 'exact' if exact else 'tol'))
    vspace = sp.real_space.tangent_bundle
    g = _generic(sp.shape, dt, vs)
    templ = sp.element(g)
    gridpts = list(itertools.product(*[range(n) for n in sp.shape]))

    DISP_ = [v * cs for v in DISP]                # displacements in the units of the regime
    fields = [[v] * len(gridpts) for v in itertools.product(DISP_, repeat=d)]
    if d <= 2:
        # large displacements: the displaced points lie several cells outside the node hull
        # (nearest: edge value; linear beyond the virtual zero node: undocumented, masked)
        for v in [v * cs for v in DISP_FAR]:
            for a in range(d):
                fields.append([tuple(v if b == a else 0.0 for b in range(d))] * len(gridpts))
            if d > 1:
                fields.append([(v,) * d] * len(gridpts))
    cyc = []
    for n in range(len(gridpts)):
        cyc.append(tuple(DISP_[(n + 3 * a) % len(DISP_)] for a in range(d)))
    fields.append(cyc)

    def call(disp, out=None):
        if via == 'function':
            if out is None:
                return linear_deform(templ, disp, interp)
            return linear_deform(templ, disp, interp, out=out)
        if via == 'FixedTempl':
            op = LinDeformFixedTempl(templ, interp=interp)
            return op(disp) if out is None else op(disp, out=out)
        if via == 'FixedDisp.inverse':
            # "Inverse deformation using ``-v`` as displacement": the inverse of the operator
            # with the displacement -v deforms by v
            op = LinDeformFixedDisp(-disp, templ_space=sp, interp=interp).inverse
        else:
            op = LinDeformFixedDisp(disp, templ_space=sp, interp=interp)
        return op(templ) if out is None else op(templ, out=out)

    last = None
    for fld in fields:
        want = np.zeros(sp.shape, dtype=npdt)
        ok = np.ones(sp.shape, dtype=bool)
        comps = [np.zeros(sp.shape) for _ in range(d)]
        for n, idx in enumerate(gridpts):
            p = [nodes[a][idx[a]] + fld[n][a] for a in range(d)]
            for a in range(d):
                comps[a][idx] = fld[n][a]
            if any(s == 'nearest' and not exact and R.is_tie(nodes[a], p[a])
                   for a, s in enumerate(schemes)):
                ok[idx] = False
                continue
            w = R.point_weights(nodes, p, schemes)
            if w is None:
                ok[idx] = False          # farther out than the documented virtual zero node
            else:
                want[idx] = (w * g).sum()
        rec.skipped += int((~ok).sum())
        if not ok.any():
            continue
        disp = vspace.element(comps)
        try:
            got = call(disp)
        except Exception as ex:
            rec.viol(site, _exc(ex), '%s displacement %s: %r' % (where, fld[0], ex))
            return rec.result()
        rec.evals += 1
        got = np.asarray(got)
        if not same(got, want, exact, npdt, ok):
            rec.viol(site, 'values_differ',
                     '%s nodes %s template %s displacement (per grid point) %s: expected %s, '
                     'got %s' % (where, nodes, _short(g), fld[:4], _short(want), _short(got)))
        last = (disp, want, ok, fld)
        if single_lin and rec.first:
            return rec.result()

    if last is not None and d >= 2:
        # the same template stored in Fortran order
        disp, want, ok, fld = last
        templ_c = templ
        try:
            templ = sp.element(np.asfortranarray(g))
            got = np.asarray(call(disp))
            rec.evals += 1
            if not same(got, want, exact, npdt, ok):
                rec.viol(site, 'values_differ[template F]',
                         '%s template %s (strides %s) displacement %s: expected %s, got %s'
                         % (where, _short(g), templ.asarray().strides, fld[:4], _short(want),
                            _short(got)))
            if not np.array_equal(templ.asarray(), g):
                rec.viol(site, 'input_modified', where)
        except Exception as ex:
            rec.viol(site, 'template[F]_' + _exc(ex), '%s: %r' % (where, ex))
        templ = templ_c

    if last is not None and d >= 2:
        # memory layout of the DISPLACEMENT components (the cycling field): each layout for all
        # components, for component 0 only and for the last component only (mixed C / non-C),
        # as wrapped arrays and as elements built with order='F'; out-of-place and in-place.
        # (a broadcast view is copied by element() and therefore not a separate layout)
        disp, want, ok, fld = last
        comps = [np.array(disp[a].asarray()) for a in range(d)]
        rspace = vspace[0]
        variants = []
        for li in range(4):
            lname = _value_layouts(comps[0])[li][0]

            def lay(c, li=li):
                return _value_layouts(c)[li][1]
            variants.append(('all components %s' % lname, [lay(c) for c in comps]))
            variants.append(('component 0 %s' % lname, [lay(comps[0])] + comps[1:]))
            variants.append(('last component %s' % lname, comps[:-1] + [lay(comps[-1])]))
        variants.append(('parts built with element(order=F)',
                         [rspace.element(c, order='F') for c in comps]))
        variants.append(('part 0 built with element(order=F)',
                         [rspace.element(comps[0], order='F')] + comps[1:]))
        for vname, parts in variants:
            try:
                dv = vspace.element(parts)
                nonc = any(not dv[a].asarray().flags.c_contiguous for a in range(d))
                rec.sigs.add('deform|displacement %s' % ('non-C' if nonc else 'C'))
                got = np.asarray(call(dv))
                rec.evals += 1
                if not same(got, want, exact, npdt, ok):
                    rec.viol(site, 'values_differ[displacement layout]',
                             '%s template %s displacement %s, %s (strides %s): expected %s, '
                             'got %s' % (where, _short(g), fld[:4], vname,
                                         [dv[a].asarray().strides for a in range(d)],
                                         _short(want), _short(got)))
                if via == 'function':
                    o = np.empty(sp.shape, dtype=npdt)
                else:
                    o = sp.element(np.zeros(sp.shape, dtype=npdt))
                call(dv, out=o)
                rec.evals += 1
                if not same(np.asarray(o), want, exact, npdt, ok):
                    rec.viol(site, 'out_call_differs[displacement layout]',
                             '%s displacement %s, %s: expected %s, got %s'
                             % (where, fld[:4], vname, _short(want), _short(np.asarray(o))))
                if any(not np.array_equal(dv[a].asarray(), comps[a]) for a in range(d)):
                    rec.viol(site, 'input_modified', '%s displacement %s' % (where, vname))
            except Exception as ex:
                rec.viol(site, 'displacement_layout_' + _exc(ex),
                         '%s %s: %r' % (where, vname, ex))

    # out=: "It must have the same shape as template ... If out was given, the returned
    # object is a reference to it."  (operators: the usual op(x, out=element))
    if last is not None:
        disp, want, ok, fld = last
        if via == 'function' and not single_lin:
            site = 'linear_deform[out=]'
            where += ' dtype=%s' % dt
        if via == 'function':
            lays = _layouts(d) + ['aliased']
        else:
            lays = ['C'] + (['F'] if d >= 2 else [])
        for lay in lays:
            name = _lay('out_call', lay)
            guard = None
            tcall = call
            if via != 'function':
                o = sp.element(np.zeros(sp.shape, dtype=npdt, order=lay), order=lay)
            elif lay == 'aliased':
                # deformation in place: out is the data array of the template itself
                t2 = sp.element(g.copy())
                o = t2.asarray()
                if not np.shares_memory(o, t2.asarray()):
                    rec.skipped += 1
                    continue

                def tcall(disp, out=None, t2=t2):
                    return linear_deform(t2, disp, interp, out=out)
            else:
                o, guard = _out_array(sp.shape, npdt, lay)    # NaN-poisoned: must be written
            try:
                r = tcall(disp, out=o)
                rec.evals += 1
                res = np.asarray(o)
                if via == 'function':
                    if not (isinstance(r, np.ndarray) and np.shares_memory(r, o)):
                        rec.viol(site, 'out_not_returned', '%s (%s)' % (where, lay))
                elif r is not o:
                    rec.viol(site, 'out_not_returned', '%s (%s)' % (where, lay))
                if guard is not None and not guard():
                    rec.viol(site, 'out_wrote_outside', where)
                if not same(res, want, exact, npdt, ok):
                    rec.viol(site, name + '_differs',
                             '%s template %s displacement (per grid point) %s, out layout %s: '
                             'expected %s, got %s' % (where, _short(g), fld[:4], lay,
                                                      _short(want), _short(res)))
                elif via == 'function' and not same(np.asarray(r), want, exact, npdt, ok):
                    rec.viol(site, name + '_returned_differs', '%s: expected %s, returned %s'
                             % (where, _short(want), _short(r)))
            except Exception as ex:
                rec.viol(site, '%s_%s' % (name, _exc(ex)),
                         '%s ndim=%d: out of the shape of the template (%s): %r'
                         % (where, d, lay, ex))
    return rec.result()


def _run_deform_derivative(cfg):
    """LinDeformFixedTempl.derivative: "W_I'(v)(u)(x) = grad I(x + v(x))^T u(x)" (class Notes).

    The gradient field G of the template does not depend on v; it is taken from the derivative
    at v = 0 (how odl discretises the gradient is not C15's business).  The vector field of the
    derivative at v must then be G evaluated at the displaced points with the scheme of the
    operator, i.e. the reference weights applied to G.
    """
    rec = _Rec()
    sc, dt = cfg['scheme'], cfg['dtype']
    d = len(cfg['space'])
    schemes = _axes_schemes(sc, d)
    npdt = NP_DT[dt]
    reg = _regime(cfg)
    vs, cs = reg['vscale'], reg['scale']
    sp, nodes = _space(cfg['space'], dt, reg)
    exact = not any(n in INEXACT_P1 for n in cfg['space'])
    if cfg.get('reg'):
        nodes, exact = _own_nodes(rec, sp, nodes, exact)
    site = 'LinDeformFixedTempl.derivative[%s]' % dt
    interp = _interp_arg(sc, d)
    where = 'space=%s on [0,4]^%d interp=%s' % (cfg['space'], d, interp)
    if cfg.get('reg'):
        where += (' regime=%s (coordinates and displacements -> %r + %r * c, values * %r)'
                  % (cfg['reg'], reg['offset'], cs, vs))
    rec.sigs.add('deform|derivative|%s|%s' % (','.join(schemes), cfg.get('reg')))
    templ = sp.element(_generic(sp.shape, dt, vs))
    gridpts = list(itertools.product(*[range(n) for n in sp.shape]))
    try:
        op = LinDeformFixedTempl(templ, interp=interp)
        G = [np.array(c.asarray()) for c in op.derivative(op.domain.zero()).vecfield]
    except Exception as ex:
        rec.viol(site, _exc(ex), '%s derivative at the zero displacement: %r' % (where, ex))
        return rec.result()
    unit = max([vs] + [float(np.max(np.abs(c))) for c in G])
    DISP_ = [v * cs for v in DISP]
    fields = [[v] * len(gridpts) for v in itertools.product(DISP_, repeat=d)]
    fields.append([tuple(DISP_[(n + 3 * a) % len(DISP_)] for a in range(d))
                   for n in range(len(gridpts))])
    for fld in fields:
        want = [np.zeros(sp.shape, dtype=npdt) for _ in range(d)]
        ok = np.ones(sp.shape, dtype=bool)
        comps = [np.zeros(sp.shape) for _ in range(d)]
        for n, idx in enumerate(gridpts):
            p = [nodes[a][idx[a]] + fld[n][a] for a in range(d)]
            for a in range(d):
                comps[a][idx] = fld[n][a]
            if any(s == 'nearest' and not exact and R.is_tie(nodes[a], p[a])
                   for a, s in enumerate(schemes)):
                ok[idx] = False
                continue
            w = R.point_weights(nodes, p, schemes)
            if w is None:
                ok[idx] = False
            else:
                for a in range(d):
                    want[a][idx] = (w * G[a]).sum()
        rec.skipped += int((~ok).sum())
        if not ok.any():
            continue
        try:
            vf = op.derivative(op.domain.element(comps)).vecfield
            got = [np.asarray(c.asarray()) for c in vf]
        except Exception as ex:
            rec.viol(site, _exc(ex), '%s displacement %s: %r' % (where, fld[0], ex))
            return rec.result()
        rec.evals += 1
        for a in range(d):
            if not _same(got[a], want[a], exact, npdt, ok, unit):
                rec.viol(site, 'gradient_field_differs',
                         '%s nodes %s displacement (per grid point) %s: component %d of the '
                         'vector field of derivative(v) is not the vector field of '
                         'derivative(0) = %s evaluated at the displaced points: expected %s, '
                         'got %s' % (where, nodes, fld[:4], a, _short(G[a]), _short(want[a]),
                                     _short(got[a])))
    return rec.result()


# ------------------------------------------------------------------------------------------
# kind: sdtype -- value dtype of the space x grids whose float64 coordinates are NOT single
# precision numbers.  "The function is evaluated at the grid points": the callable must receive
# the float64 grid coordinates whatever the value dtype of the space, and the result is the
# float64 (complex128) function value cast ONCE to the space dtype (for integer spaces numpy's
# cast of the float values, i.e. truncation, which is what every code path of dual_use_func
# does: "Cast to proper dtype if needed").

SD_DTYPES = ['f32', 'c64', 'i64', 'i32', 'f64', 'c128']
SD_STYLES = ['oop', 'ip', 'dual', 'vec', 'obj']
_SD_NODES = {1: [[0.1, 0.3, 0.7, 0.9]], 2: [[0.1, 0.3, 0.7, 0.9], [0.2, 0.6]]}


def _sd_space(cfg):
    d, dt = cfg['d'], NP_DT[cfg['dtype']]
    if cfg['grid'] == 'nu':
        nodes = _SD_NODES[d]
        part = odl.nonuniform_partition(*nodes, min_pt=[0.0] * d, max_pt=[1.0] * d)
        sp = odl.DiscretizedSpace(part, odl.tensor_space(part.shape, dtype=dt))
    else:
        # uniform grid 0.05, 0.15, ...: the coordinates are the ones the space reports
        # (where the nodes sit is C14's business)
        sp = odl.uniform_discr([0.0] * d, [1.0] * d, (10, 3)[:d], dtype=dt)
        nodes = [[float(v) for v in c] for c in sp.grid.coord_vectors]
    return sp, nodes


def _sd_cases(d, nodes, cplx):
    """(label, vectorised value(x), scalar value(p))."""
    import math
    for k in range(d):
        # returns its argument unchanged: the sampled values ARE the grid coordinates
        yield ('identity x[%d]' % k, (lambda x, k=k: x[k]), (lambda p, k=k: p[k]))
        for t in nodes[k]:
            # threshold as a float64 *array*: a Python scalar would be cast to the dtype of
            # x by numpy's value-based promotion and hide a rounded mesh
            ta = np.array([t])
            yield ('x[%d] <= %r' % (k, t),
                   (lambda x, k=k, ta=ta: np.where(x[k] <= ta, 1.0, 0.0)),
                   (lambda p, k=k, t=t: 1.0 if p[k] <= t else 0.0))
            yield ('x[%d] < %r' % (k, t),
                   (lambda x, k=k, ta=ta: np.where(x[k] < ta, 2.0, -1.0)),
                   (lambda p, k=k, t=t: 2.0 if p[k] < t else -1.0))
    yield ('floor(10 x[0])', (lambda x: np.floor(10 * x[0])),
           (lambda p: float(math.floor(10 * p[0]))))
    yield ('x[0] < 1/3', (lambda x: np.where(x[0] < 1 / 3, 1.0, 0.0)),
           (lambda p: 1.0 if p[0] < 1 / 3 else 0.0))
    if cplx:
        yield ('x[0] + i x[-1]', (lambda x: x[0] + 1j * x[-1]), (lambda p: p[0] + 1j * p[-1]))


def _sd_callable(style, val, sval, cplx):
    if style == 'oop':
        return lambda x: val(x)
    if style == 'ip':
        def f(x, out):
            out[:] = val(x)
        return f
    if style == 'dual':
        def f(x, out=None):
            if out is None:
                return val(x)
            out[:] = val(x)
        return f
    if style == 'vec':
        return vectorize(lambda x: (complex if cplx else float)(sval(x)))

    class C(object):
        def __call__(self, x):
            return val(x)
    return C()


def _run_sdtype(cfg):
    rec = _Rec()
    d, style, dtn = cfg['d'], cfg['style'], cfg['dtype']
    dt = NP_DT[dtn]
    cplx = dt.kind == 'c'
    sp, nodes = _sd_space(cfg)
    site = 'element(callable)[%s]' % _style_class(style)
    ssite = 'sampling_function[%s]' % _style_class(style)
    where = 'grid=%s nodes=%s dtype=%s' % (cfg['grid'], nodes, dtn)
    wide = np.dtype(complex if cplx else float)
    rec.sigs.add('sdtype|%s|%s' % (style, dtn))

    def cast(vals):
        with np.errstate(all='ignore'):
            return np.asarray(vals).astype(dt)           # rounded / truncated ONCE

    for label, val, sval in _sd_cases(d, nodes, cplx):
        want = cast(R.sample(nodes, sval, wide))
        f = _sd_callable(style, val, sval, cplx and 'i x' in label)
        try:
            el = sp.element(f)
            got = el.asarray()
            rec.evals += 1
            if got.dtype != dt or not np.array_equal(got, want):
                rec.viol(site, 'values_differ',
                         '%s callable %s: expected (float64 values at the float64 grid '
                         'points, cast once to %s) %s, got %s'
                         % (where, label, dt, _short(want), _short(got)))
            _check_owns(rec, site, sp, el, got, '%s callable %s' % (where, label))
        except Exception as ex:
            rec.viol(site, _exc(ex), '%s callable %s: %r' % (where, label, ex))
        # the same through sampling_function / point_collocation with out_dtype = space dtype
        try:
            F = DU.sampling_function(_sd_callable(style, val, sval, cplx and 'i x' in label),
                                     sp.domain, out_dtype=dt)
            got = np.asarray(DU.point_collocation(F, sp.meshgrid))
            o = np.empty(sp.shape, dtype=dt)
            DU.point_collocation(F, sp.meshgrid, out=o)
            pa = np.array(list(itertools.product(*nodes))).T.reshape(d, -1)
            gota = np.asarray(F(pa))
            rec.evals += 3
            for name, g_ in (('mesh', got), ('mesh_out', o),
                             ('point_array', gota.reshape(sp.shape))):
                if g_.dtype != dt or not np.array_equal(g_, want):
                    rec.viol(ssite, name + '_differs', '%s callable %s out_dtype=%s: expected '
                             '%s, got %s' % (where, label, dt, _short(want), _short(g_)))
        except Exception as ex:
            rec.viol(ssite, 'dtype_' + _exc(ex), '%s callable %s: %r' % (where, label, ex))

    # a callable that records what it receives: the float64 grid coordinates, exactly
    seen = []

    def recorder(x):
        seen.append([np.array(xi, copy=True) for xi in x])
        return x[0]

    def recorder_ip(x, out):
        seen.append([np.array(xi, copy=True) for xi in x])
        out[:] = x[0]
    for f in (recorder_ip,) if style == 'ip' else (recorder,):
        del seen[:]
        try:
            sp.element(f)
        except Exception as ex:
            rec.viol(site, 'recorder_' + _exc(ex), '%s: %r' % (where, ex))
            continue
        rec.evals += 1
        good = len(seen) >= 1
        for mesh in seen:
            good = good and len(mesh) == d
            for k, xi in enumerate(mesh[:d]):
                good = (good and xi.dtype == np.dtype('float64') and
                        xi.ravel().tobytes() == np.array(nodes[k]).tobytes())
        if not good:
            rec.viol(site, 'mesh_not_grid_points',
                     '%s: the callable received %s, the grid coordinates are float64 %s'
                     % (where, [[(xi.dtype.name, _short(xi.ravel())) for xi in m]
                                for m in seen][:2], nodes))
    return rec.result()


# ------------------------------------------------------------------------------------------
# kind: history -- one callable object used for several successive calls
#
# The object behind ``odl.util.vectorize`` creates its numpy.vectorize lazily and keeps it: it
# is the one piece of shared mutable state in the sampling path.  The object returned by
# ``sampling_function`` and the interpolator closures are used repeatedly as well.  Oracle
# (differential, confluence): the result of a call must not depend on the calls made before,
# i.e. it equals -- values, shape and dtype -- the result of the same call on a FRESH object;
# plus the plain scalar reference values where numpy.vectorize's own type inference (output
# type of the first point of *that* call) does not narrow them.

_RANK = {'b': 0, 'i': 1, 'u': 1, 'f': 2, 'c': 3}


def _hist_funcs():
    """name -> (scalar function of one point, ndim, complex?).  Return types are NOT uniform."""
    def ramp(p):
        return p[0] if p[0] > 0 else 0                 # float | int literal

    def rampneg(p):
        return -p[0] if p[0] < 0 else 0                # float first on an increasing grid

    def boolmix(p):
        return (p[0] > -1) if p[0] < 0 else p[0]       # bool | float

    def cplxmix(p):
        return 0.5 if p[0] < 0 else 1j * p[0]          # float | complex

    def uniform(p):
        return 2 * p[0] + 0.5                          # control: always float

    def dist(p):                                       # the docstring example of vectorize
        return p[0] + p[1] if p[0] < p[1] else p[0] - p[1]
    return {'ramp': (ramp, 1, False), 'rampneg': (rampneg, 1, False),
            'boolmix': (boolmix, 1, False), 'cplxmix': (cplxmix, 1, True),
            'uniform': (uniform, 1, False), 'dist': (dist, 2, False)}


HIST_VARIANTS = ['ramp', 'rampneg', 'boolmix', 'cplxmix', 'uniform', 'dist']
HIST_HOLDERS = ['wrapper', 'sampled_vec', 'sampled_plain', 'sampled_list']
HIST_INTERP = ['nearest', 'linear', 'mixed']


def _hist_spaces(d, cplx):
    dt = complex if cplx else float
    if d == 1:
        return {'L': odl.uniform_discr(-2, 0, 4, dtype=dt),      # nodes -1.75 ... -0.25
                'R': odl.uniform_discr(0, 2, 4, dtype=dt),       # nodes  0.25 ...  1.75
                'B': odl.uniform_discr(-2, 2, 4, dtype=dt)}      # nodes -1.5, -0.5, 0.5, 1.5
    return {'L': odl.uniform_discr([0, 0], [1, 1], (3, 2), dtype=dt),
            'R': odl.uniform_discr([-1, -1], [1, 1], (2, 2), dtype=dt),
            'B': odl.uniform_discr([-2, 0], [2, 4], (4, 2), dtype=dt)}


def _hist_menu(holder, variant):
    """(make() -> fresh object, menu: name -> (call(obj) -> array, points, cast dtype))."""
    sf, d, cplx = _hist_funcs()[variant]
    sdt = np.dtype(complex if cplx else float)
    sp = _hist_spaces(d, cplx)
    dom = odl.IntervalProd([-2.0] * d, [4.0] * d)

    def gridpts(space):
        return [list(map(float, q)) for q in space.points()]

    if d == 1:
        pts = {'pt_neg': [[-0.5]], 'pt_pos': [[0.75]], 'iarr': [[-2], [1], [3]],
               'farr': [[-1.5], [0.25], [1.5]]}
        arg = {'pt_neg': -0.5, 'pt_pos': 0.75, 'iarr': np.array([-2, 1, 3]),
               'farr': np.array([[-1.5, 0.25, 1.5]])}
        sarg = dict(arg, iarr=np.array([[-2, 1, 3]]))
    else:
        pts = {'pt_neg': [[0, 1]], 'pt_pos': [[0.75, 0.5]], 'iarr': [[0, 1], [-2, 4]],
               'farr': [[0.25, 0.5], [1.5, -0.5]]}
        arg = {'pt_neg': [0, 1], 'pt_pos': [0.75, 0.5], 'iarr': np.array([[0, -2], [1, 4]]),
               'farr': np.array([[0.25, 1.5], [0.5, -0.5]])}
        sarg = dict(arg, pt_neg=np.array([0, 1]), pt_pos=np.array([0.75, 0.5]))
    menu = {}
    if holder == 'wrapper':
        def make():
            return vectorize(sf)
        for k in ('pt_neg', 'pt_pos', 'iarr', 'farr'):
            menu[k] = ((lambda w, k=k: np.asarray(w(arg[k]))), pts[k], None)
        for k, space in sp.items():
            menu['el_' + k] = ((lambda w, space=space: space.element(w).asarray()),
                               gridpts(space), sdt)

            def outcall(w, space=space):
                o = np.empty(space.shape, dtype=sdt)
                DU.sampling_function(w, space.domain, out_dtype=sdt)(space.meshgrid, out=o)
                return o
            if k != 'L':
                menu['out_' + k] = (outcall, gridpts(space), sdt)
        return make, menu

    # the object returned by sampling_function, used repeatedly with different input kinds
    def make():
        if holder == 'sampled_vec':
            base = vectorize(sf)
        elif holder == 'sampled_plain':
            # natively vectorised version of the same function
            def base(x):
                x = [np.asarray(xi) for xi in x]
                shape = np.broadcast(*x).shape
                flat = [np.broadcast_to(xi, shape).ravel() for xi in x]
                vals = [sf([fl[n] for fl in flat]) for n in range(int(np.prod(shape)))]
                return np.array(vals, dtype=sdt).reshape(shape)
        else:
            base = [vectorize(sf), 2.0]
        if holder == 'sampled_list':
            return DU.sampling_function(base, dom, out_dtype=(sdt, (2,)))
        return DU.sampling_function(base, dom, out_dtype=sdt)

    lst = holder == 'sampled_list'

    def wrap(call):
        return (lambda F: np.asarray(call(F)))
    for k in ('pt_neg', 'pt_pos', 'iarr', 'farr'):
        menu[k] = (wrap(lambda F, k=k: F(sarg[k])), pts[k], sdt)
    for k, space in sp.items():
        menu['mesh_' + k] = (wrap(lambda F, space=space: F(space.meshgrid)),
                             gridpts(space), sdt)

        def outcall(F, space=space):
            o = np.empty(((2,) if lst else ()) + space.shape, dtype=sdt)
            F(space.meshgrid, out=o)
            return o
        if k != 'L':
            menu['out_' + k] = (outcall, gridpts(space), sdt)
    return make, menu


def _bits_equal(a, b):
    a, b = np.asarray(a), np.asarray(b)
    return a.dtype == b.dtype and a.shape == b.shape and a.tobytes() == b.tobytes()


def _run_history(cfg):
    rec = _Rec()
    holder, variant, first, depth = cfg['holder'], cfg['variant'], cfg['first'], cfg['depth']
    if holder == 'interp':
        return _run_history_interp(cfg, rec)
    sf, d, cplx = _hist_funcs()[variant]
    make, menu = _hist_menu(holder, variant)
    site = {'wrapper': 'vectorize[history]'}.get(holder, 'sampling_function[history,%s]'
                                                  % holder)
    where = 'function=%s holder=%s' % (variant, holder)
    names = sorted(menu)

    # each call alone, on a fresh object; and against the plain scalar reference
    fresh = {}
    for nm in names:
        call, pts, cast = menu[nm]
        vals = [sf(q) for q in pts]
        ranks = [_RANK[np.asarray(v).dtype.kind] for v in vals]
        narrowed = holder != 'sampled_plain' and ranks[0] < max(ranks)
        try:
            fresh[nm] = np.array(call(make()))
        except Exception as ex:
            if narrowed:
                # numpy.vectorize inferred a real output type from the first point and cannot
                # store the complex values of the later ones: numpy's documented behaviour,
                # the call is left out of the menu of this state
                rec.skipped += int(nm == first)
                continue
            rec.viol(site, 'fresh_%s_%s' % (nm.split('_')[0], _exc(ex)),
                     '%s call %s on a fresh object: %r' % (where, nm, ex))
            continue
        if nm != first:
            continue                      # the reference is compared once per menu entry
        if narrowed:
            # numpy.vectorize takes the output type of a call from its first point: documented
            # numpy behaviour that odl.util.vectorize passes on -- counted, not judged
            rec.skipped += 1
            continue
        want = np.array(vals)
        if cast is not None:
            want = want.astype(cast)
        got = fresh[nm]
        if holder == 'sampled_list':
            want = np.stack([want.ravel(), np.full(want.size, 2.0, dtype=want.dtype)])
            got = got.reshape(2, -1)
        rec.evals += 1
        if got.size != want.size or not np.array_equal(got.reshape(want.shape), want):
            rec.viol(site, 'values_differ', '%s call %s points %s: expected %s, got %s'
                     % (where, nm, pts, _short(want), _short(got)))
    if first not in fresh:
        return rec.result()

    for tail in itertools.product(names, repeat=depth - 1):
        seq = (first,) + tail
        obj = make()
        for k, nm in enumerate(seq):
            if nm not in fresh:
                break
            try:
                got = menu[nm][0](obj)
            except Exception as ex:
                rec.viol(site, 'later_call_' + _exc(ex),
                         '%s sequence %s: call %d raises %r (alone it works)'
                         % (where, list(seq), k, ex))
                break
            rec.evals += 1
            if not _bits_equal(got, fresh[nm]):
                rec.viol(site, 'result_depends_on_earlier_calls',
                         '%s: after the calls %s on the same object, call %s gives %s (%s); '
                         'on a fresh object it gives %s (%s)'
                         % (where, list(seq[:k]), nm, _short(got), np.asarray(got).dtype,
                            _short(fresh[nm]), fresh[nm].dtype))
                break
        rec.sigs.add('history|%s|%s|%s' % (holder, variant, 'c' if cplx else 'r'))
    return rec.result()


def _run_history_interp(cfg, rec):
    d = cfg['d']
    cvecs = (np.array([0.0, 1.0, 3.0]), np.array([0.0, 2.0]))[:d]
    interp = {'nearest': 'nearest', 'linear': 'linear',
              'mixed': ['nearest', 'linear'][:d] if d > 1 else ['linear']}[cfg['variant']]
    g = _generic(tuple(len(c) for c in cvecs), 'f64')
    site = 'interpolators[history]'
    where = 'scheme=%s ndim=%d' % (cfg['variant'], d)

    def make():
        if cfg['variant'] == 'nearest':
            return DU.nearest_interpolator(g.copy(), cvecs)
        if cfg['variant'] == 'linear':
            return DU.linear_interpolator(g.copy(), cvecs)
        return DU.per_axis_interpolator(g.copy(), cvecs, interp)

    if d == 1:
        args = {'pt': lambda: 0.5, 'ipts': lambda: np.array([0, 1, 3]),
                'farr': lambda: np.array([2.5, -0.25, 0.5]),
                'mesh': lambda: sparse_meshgrid(np.array([0.25, 2.0, 3.5]))}
        oshape = (3,)
    else:
        args = {'pt': lambda: [0.5, 1.0], 'ipts': lambda: np.array([[0, 3, 1], [2, 0, 2]]),
                'farr': lambda: np.array([[2.5, -0.25, 0.5], [0.5, 2.5, 1.0]]),
                'mesh': lambda: sparse_meshgrid(np.array([0.25, 2.0, 3.5]),
                                                np.array([1.0, -0.5]))}
        oshape = (3, 2)
    menu = {}
    for k in args:
        def call(I, k=k):
            x = args[k]()
            keep = [np.array(xi, copy=True) for xi in (x if isinstance(x, tuple) else [x])]
            r = np.asarray(I(x))
            now = x if isinstance(x, tuple) else [x]
            if not all(np.array_equal(np.asarray(a), b) for a, b in zip(now, keep)):
                rec.viol(site, 'input_modified', '%s input kind %s' % (where, k))
            return r
        menu[k] = call

    def outcall(I):
        o = np.empty(oshape)
        I(args['mesh'](), out=o)
        return o
    menu['mesh_out'] = outcall
    names = sorted(menu)
    fresh = {}
    for nm in names:
        try:
            fresh[nm] = np.array(menu[nm](make()))
        except Exception as ex:
            rec.viol(site, 'fresh_%s_%s' % (nm, _exc(ex)), '%s: %r' % (where, ex))
    first = cfg['first']
    if first not in fresh:
        return rec.result()
    for tail in itertools.product(names, repeat=cfg['depth'] - 1):
        seq = (first,) + tail
        I = make()
        for k, nm in enumerate(seq):
            if nm not in fresh:
                break
            try:
                got = menu[nm](I)
            except Exception as ex:
                rec.viol(site, 'later_call_' + _exc(ex), '%s sequence %s: %r'
                         % (where, list(seq), ex))
                break
            rec.evals += 1
            if not _bits_equal(got, fresh[nm]):
                rec.viol(site, 'result_depends_on_earlier_calls',
                         '%s: after %s call %s gives %s, fresh %s'
                         % (where, list(seq[:k]), nm, _short(got), _short(fresh[nm])))
                break
        rec.sigs.add('history|interp|%s|%d' % (cfg['variant'], d))
    return rec.result()


# ------------------------------------------------------------------------------------------

_RUN = {'interp': _run_interp, 'sample': _run_sample, 'sfunc': _run_sfunc,
        'resample': _run_resample, 'deform': _run_deform, 'history': _run_history,
        'sdtype': _run_sdtype}


def run(cfg):
    with np.errstate(all='ignore'):
        return _RUN[cfg['kind']](cfg)


def _nested(func, names):
    """Code objects of closures defined inside ``func`` (the tracer wants ``__code__``)."""
    out = []

    def walk(code):
        for c in code.co_consts:
            if isinstance(c, types.CodeType):
                if c.co_name in names:
                    out.append(types.SimpleNamespace(__code__=c))
                walk(c)
    walk(func.__code__)
    return out


def trace_functions():
    fs = [DU._Interpolator._find_indices, DU._Interpolator.__call__,
          DU._compute_nearest_weights_edge, DU._compute_linear_weights_edge,
          DU._PerAxisInterpolator._evaluate, DU._NearestInterpolator._evaluate,
          DU._check_interp_input, DU.sampling_function, DU._make_dual_use_func,
          DU._func_out_type, DU._check_func_out_arg, DU.point_collocation,
          odl.DiscretizedSpace.element, linear_deform, odl.Resampling._call]
    fs += _nested(DU.sampling_function, ('_default_oop', '_default_ip', 'array_wrapper_func'))
    fs += _nested(DU._make_dual_use_func, ('dual_use_func',))
    return fs


def summarize(results):
    per = {}
    for cfg, res in results:
        k = cfg['kind']
        a = per.setdefault(k, {'states': 0, 'evals': 0, 'skipped': 0})
        a['states'] += 1
        a['evals'] += res['evals']
        a['skipped'] += res['skipped']
    return {'per_kind': per}


def meta(tier):
    th = tier == 'thorough'
    return {
        'rule': 'one state = one configuration of one of seven kinds (sample, sfunc, interp, '
                'resample, deform, history, sdtype).  history: one callable object (vectorize wrapper, '
                'sampling_function result, interpolator) x first call x every continuation up '
                'to the depth; each call must equal bit for bit the same call on a fresh '
                'object.  "For all value arrays" is decided by linearity: the full '
                'interpolation matrix (one basis array per node, plus i*e_k for complex) is '
                'compared with reference weights computed by bisection in exact rational '
                'arithmetic, on the tensor product of per-axis point alphabets; "for all '
                'callables" by the scalar evaluation of the same callable in a Python loop; '
                'linear_deform is point-wise, so all displacement vectors of D^d decide it.  '
                'distinct = (site, per-axis schemes, exact/tolerance regime) x executed-line '
                'signature of the anchored functions.',
        'bounds': {
            'ndim': [1, 2, 3],
            'coordinate_vectors': AX,
            'evaluation_points_per_axis': 'nodes, midpoints (ties), quarter points, 1/4 and 1/2'
                                          + (' and 1' if th else '') + ' node spacing outside',
            'value_dtypes': DTYPES,
            'schemes': 'nearest_interpolator, linear_interpolator, per_axis_interpolator with '
                       'a string and with every tuple in {nearest, linear}^d',
            'conventions': 'sparse mesh, dense mesh, mesh with single-point axes (every subset '
                           'of axes), point array (d,N), nested list, every single point, out=',
            'sdtype': 'space dtypes %s on grids with coordinates that are not float32 numbers '
                      '([0.1,0.3,0.7,0.9] x [0.2,0.6]; uniform 0.05,0.15,...): identity per '
                      'axis, step functions <= and < at EVERY node, floor(10x), x<1/3, a '
                      'recorder of the mesh the callable receives; styles %s; element() and '
                      'sampling_function/point_collocation with out_dtype' % (SD_DTYPES,
                                                                                SD_STYLES),
            'history': 'functions with non-uniform return type (int|float, bool|float, '
                       'float|complex, ints for integer points) and a float-only control; '
                       'menu: single points, integer and float point arrays, element() / mesh '
                       'on three spaces, out=; all sequences of length %d' % (3 if th else 2),
            'value_array_layouts': 'C, Fortran, transposed view, strided slice of a larger array, '
                                   'negative stride, broadcast row (ndim >= 2; mesh and point '
                                   'array input; the value array must stay unmodified); '
                                   'Resampling / linear_deform also with F-ordered elements; '
                                   'linear_deform and the LinDeform operators also with the '
                                   'DISPLACEMENT components in F / transposed / strided / '
                                   'negative-stride layout (all, first only, last only) and '
                                   'as elements built with order=F, out-of-place and in-place',
            'out_layouts': 'fresh C-contiguous, Fortran-ordered (ndim >= 2), every second entry '
                           'of the last axis of a larger buffer (the gaps must stay untouched); '
                           'linear_deform also with out = the data array of the template',
            'magnitude_regimes': {k: REGIMES[k] for k in sorted(REGIMES)},
            'magnitude_regimes_applied_to': 'interp (all 1-d grids x schemes x f64/f32/c128, '
                                            'five 2-d grids, one 3-d grid), resample (every 1-d '
                                            'pair, five 2-d pairs of equal shape with shifted '
                                            'nodes), deform (every space x scheme x entry point, '
                                            'f64; 3-d: tiny only), sample (3 shapes x 5 styles x '
                                            '3 grids; coordinate regimes).  "far" only where '
                                            'the image of every node is exact',
            'point_orders': 'given (outside points last), reversed, rotated, interleaved, '
                            'outside points first, outside points in the middle (first and last '
                            'entry inside the hull); all axes at once and one axis only; mesh, '
                            'mesh with out, point_collocation(interpolator, mesh), point array',
            'derived_operators': 'Resampling(range, domain, interp).inverse / .adjoint (full '
                                 'matrix, 1-d all pairs; 2-d equal-shape pairs), '
                                 'LinDeformFixedDisp(-v).inverse, LinDeformFixedTempl.derivative '
                                 '(vector field at v = reference weights applied to the vector '
                                 'field at 0; uniform partitions, 1-d / 2-d)',
            'sample_shapes': '{1,2,3,4}^d, d=1,2; ' + ('{1,2,3,4}^3' if th else '{1,2,3}^3'),
            'callable_styles': SAMPLE_STYLES,
            'partitions_of_[0,4]': P1,
            'displacements': DISP,
        },
        'extra': {'unreached_anchor_lines_explained':
                  'all unreached lines are (a) raise statements for inadmissible input (bad '
                  'out type/shape/dtype, points outside the domain, non-callable members, '
                  '*args signatures, multi-input ufuncs), which rule 2 does not enumerate, '
                  '(b) the Python 2 branch of _check_func_out_arg, (c) the non-callable arms '
                  'of DiscretizedSpace.element (C20), (d) _Interpolator.__call__ '
                  '"return values.item()", dead because _check_interp_input reshapes scalar '
                  'input before the call'},
        'assumptions': [
            'exact equality on dyadic grids whose spacings are powers of two; on the two '
            'non-dyadic grids (x3, x5, ud3) relative tolerance 1e-12 (1e-5 single precision) '
            'and no tie points for the nearest scheme (a rounded midpoint is not a tie); points '
            '1e-9 of a spacing beside each midpoint are used there instead',
            'node values must be reproduced exactly on every grid for real, integer and string '
            'data; for complex data on the non-dyadic grids within the tolerance (odl casts '
            'the points to complex, numpy complex division gives z/z = 1 +- 1 ulp)',
            'point arrays are not required to be sorted: the Notes of nearest_interpolator say '
            'they are assumed sorted, but the docstring examples of all three interpolators '
            'and linear_deform pass unsorted arrays',
            'counted as unspecified, not judged: linear scheme on an axis with a single node '
            'away from that node (AT the node the node value must be reproduced); linear '
            'scheme farther outside than the documented virtual zero node (evaluated at 1.5, '
            '2, 3, 10 spacings out in 1-d/2-d: nearest judged, linear masked); integer or string '
            'values with a linear axis; string values with per_axis_interpolator',
            'magnitude regimes: the maps x -> offset + scale * x (scale a power of two, offset '
            '2^20 only on grids whose images are exactly representable) and f -> 2^k f are exact '
            'in binary arithmetic, interpolation weights depend on ratios of lengths only and '
            'the result is linear in the values: the same exact-equality oracle is used; where '
            'a tolerance applies it is relative to the magnitude of the values of the regime',
            'mesh vectors are not required to be sorted either (same reason as point arrays)',
            'LinDeformFixedTempl.derivative: only the documented structure "grad I evaluated at '
            'x + v(x)" is judged (against the gradient field the operator itself reports at '
            'v = 0), not the discretisation of the gradient; LinDeformFixedDisp.adjoint '
            '(documented as an approximation) is not judged',
            'numpy.vectorize infers the output type from the first point (a scalar function '
            'returning an int there truncates the rest); scalar functions used here return '
            'float/complex everywhere, the pitfall is numpy\'s documented behaviour',
        ],
    }
