"""C18 - Fourier and wavelet transforms invert exactly and agree across back-ends.

Exploration: configuration space (K) plus, for the FFTW back-end, call histories (H).

* ``dft``   one state = shape x transformed axes x dtype x halfcomplex x sign x back-end
            (x planning effort for pyfftw).  Inside the state the full matrix of the forward
            operator (all unit vectors, i*e_k on complex spaces, one dense vector) is compared
            with a direct-summation reference (``mc/ref/fourier.py``, validated against
            ``numpy.fft`` by ``tests/test_c18_ref.py``), out-of-place and with a NaN-prefilled
            ``out``; the explicitly built inverse, the ``.inverse`` property and pre-planned
            (``init_fftw_plan``, then ``clear_fftw_plan``) operators must map the reference
            images back to the inputs; ``inverse.inverse`` acts like the forward operator and a
            second ``.inverse`` like the first; inputs must stay untouched.
* ``hist``  pyfftw only: every history of length <= depth over {call again with the same input,
            call with another input, build a second operator of the same configuration and call
            it, call with ``out=``}, starting from empty FFTW wisdom; every step is compared with
            the reference (FFTW plans and FFTW wisdom are hidden state).
* ``ft``    FourierTransform: shape x axes x per-axis shift x dtype x halfcomplex x sign x back-end
            x temporaries.  Oracles: ``ft.inverse(ft(x)) == x``; ``ft(x)`` equals the exact
            Fourier integral of the piecewise constant interpolant at the documented reciprocal
            grid nodes (the formula in the docstrings of dft_preprocess_data /
            dft_postprocess_data / reciprocal_grid); in-place == out-of-place.
            Temporaries life cycle on both operators (created on the forward one and
            inherited, created on the inverse itself, on both, created and cleared); axes in
            every order / counted from the end with per-axis shifts that differ (``dft`` and
            ``grid`` likewise).
            Derived / planned objects: ``ft.inverse.inverse`` and a second ``ft.inverse`` act
            like the first ones; pyfftw: ``init_fftw_plan()`` / ``clear_fftw_plan()`` (twice) on
            fresh and on used operators do not change the values.
* ``grid``  ``reciprocal_grid`` equals the documented nodes and ``realspace_grid`` maps it back to
            the original grid: shape x axes x per-axis shift x halfcomplex x argument form.
* ``gauss`` the error against the analytic transform of a (translated) Gaussian on [-10, 10]
            at least halves with every doubling of the grid.
* ``wt``    WaveletTransform: wavelet x nlevels x pad mode x shape x axes x dtype;
            ``W.inverse(W(e_k)) == e_k``; for orthogonal wavelets with periodisation and lengths
            divisible by 2**nlevels the matrices of ``W.adjoint`` / ``W.inverse.adjoint`` equal
            the weighted transposes.  Shapes show every parity pattern of the transformed axes
            (1-3 d); the same operators are also reached through the other documented entry
            points (``pywt.Wavelet`` object, ``axes`` None / int / negative, the inverse built by
            its own constructor, ``W.inverse.inverse``), on complex spaces and with ``out=``.

Hidden state owned by the harness: FFTW wisdom is process-global, so every state starts with
``pyfftw.forget_wisdom()``; FFTW_MEASURE picks algorithms by *timing*, so whether a plan flagged
FFTW_DESTROY_INPUT really overwrites the caller's array is not a function of the configuration --
that effect is not judged, its deterministic cause is counted (see ``_exposed_to_destroy_input``).
"""
import functools
import itertools
import warnings

import numpy as np
import odl
from odl.trafos import (DiscreteFourierTransform, DiscreteFourierTransformInverse,
                        FourierTransform, FourierTransformInverse, WaveletTransform,
                        WaveletTransformInverse)
from odl.trafos.backends import pyfftw_bindings
from odl.trafos.backends.pywt_bindings import PAD_MODES_ODL2PYWT
from odl.trafos.util import ft_utils

from mc.ref import fourier as R

try:
    import pyfftw
    HAVE_FFTW = bool(pyfftw_bindings.PYFFTW_AVAILABLE)
except ImportError:            # pragma: no cover
    pyfftw = None
    HAVE_FFTW = False
try:
    import pywt
    HAVE_PYWT = True
except ImportError:            # pragma: no cover
    pywt = None
    HAVE_PYWT = False

PROPERTY = 'C18'
BUDGET = {'quick': 1500, 'thorough': 3000}

SIZES = (2, 3, 4, 5)
DTYPES = ('float64', 'complex128', 'float32', 'complex64')
# real-space boxes of the FourierTransform domains: x[0] != 0 and non-dyadic strides so that
# every phase factor is non-trivial
LO = (-1.0, 0.5, -2.0)
HI = (1.5, 2.0, 1.0)
PAD_MODES = ('constant', 'periodic', 'symmetric', 'order0', 'order1', 'pywt_periodic',
             'reflect', 'antireflect', 'antisymmetric')
COEFF_CAP = {'quick': 1500, 'thorough': 6000}
GAUSS_N = {'even': (16, 32, 64, 128, 256), 'odd': (17, 33, 65, 129, 257)}
GAUSS_N2 = {'even': (16, 32, 64), 'odd': (15, 31, 63)}    # <= 4096 points: single-threaded FFTW
GAUSS_C = (1.0, -0.5)

# tolerances (relative to the largest reference entry, never tuned per case)
TOL_DFT = {8: 1e-12, 4: 1e-5}       # DESIGN: 1e-12 double, 1e-5 single
TOL_FT = {8: 1e-10, 4: 1e-5}        # DESIGN: inverse(ft(x)) = x to 1e-10; 1e-5 single
TOL_WT = {8: 1e-9, 4: 1e-4}         # PyWavelets tabulates the sym*/bior* filters to ~1e-12; the
#   extrapolating pad modes (order1, antireflect) amplify that over the levels


def _prec(dtype):
    dt = np.dtype(dtype)
    return dt.itemsize // 2 if dt.kind == 'c' else dt.itemsize


def _is_real(dtype):
    return np.dtype(dtype).kind == 'f'


def _axes(cfg):
    """(axes as handed to odl -- any order, possibly counted from the end --, the same axes
    normalised to 0..ndim-1 in the same order, used by the reference model)."""
    nd = len(cfg['shape']) if 'shape' in cfg else cfg['ndim']
    arg = [int(a) for a in cfg['axes']]
    return arg, [a % nd for a in arg]


def _order_tag(ax_arg, axes):
    return ('perm' if list(axes) != sorted(axes) else 'asc') + ('-neg' if min(ax_arg) < 0 else '')


def _orders(nd, full=False):
    """Axes sequences that are not ascending non-negative lists: every permutation of every
    subset of >= 2 axes (halved / per-axis options then belong to the axes in the GIVEN order),
    and the spellings counted from the end (all entries negative, or only the first)."""
    out = []
    for sub in _subsets(nd):
        perms = [list(q) for q in itertools.permutations(sub)]
        for q in perms[1:]:
            out.append(q)
        picks = perms if (full or len(perms) == 1) else [perms[0], perms[-1]]
        for q in picks:
            out.append([a - nd for a in q])
            if len(q) > 1 and full:
                out.append([q[0] - nd] + q[1:])
    return out


def _subsets(n):
    for r in range(1, n + 1):
        for c in itertools.combinations(range(n), r):
            yield list(c)


def _fmt(a, n=12):
    """Short deterministic rendering: entries below 1e-7 of the largest one are printed as 0."""
    a = np.asarray(a).ravel()[:n]
    if a.size and np.all(np.isfinite(a)):
        big = float(np.abs(a).max())
        if a.dtype.kind == 'c':
            re_, im_ = a.real.copy(), a.imag.copy()
            re_[np.abs(re_) < 1e-7 * big] = 0
            im_[np.abs(im_) < 1e-7 * big] = 0
            a = re_ + 1j * im_
        else:
            a = np.where(np.abs(a) < 1e-7 * big, 0, a)
    if a.dtype.kind == 'c':
        return '[' + ', '.join('%.5g%+.5gj' % (v.real, v.imag) for v in a) + ']'
    return '[' + ', '.join('%.5g' % v for v in a) + ']'


def _differs(got, ref, tol):
    got = np.asarray(got)
    ref = np.asarray(ref)
    if got.shape != ref.shape:
        return True
    if not np.all(np.isfinite(got)):
        return True
    scale = float(np.abs(ref).max()) if ref.size else 0.0
    scale = scale if scale > 0 else 1.0
    return bool(np.abs(got - ref).max() > tol * scale)


class Acc(object):
    """Collects the first violation per (site, symptom) and the counters of one state."""

    def __init__(self):
        self.first = {}
        self.evals = 0
        self.skipped = 0
        self.exposed = 0
        self.tags = set()

    def add(self, site, symptom, detail):
        self.first.setdefault((site, symptom), str(detail)[:900])
        self.tags.add(symptom.split(':')[0])

    def viol(self):
        return [{'site': s, 'symptom': y, 'detail': d} for (s, y), d in self.first.items()]

    def result(self, sig, sample=None):
        out = {'evals': self.evals, 'viol': self.viol(), 'skipped': self.skipped,
               'exposed': self.exposed,
               'sig': '%s:%s' % (sig, '+'.join(sorted(self.tags)) or 'ok'),
               'trivial': self.evals == 0}
        if sample is not None:
            out['sample'] = sample
        return out


class Op(object):
    """An operator under test with its site name and its call count (fresh plan or not)."""

    def __init__(self, op, site, note=''):
        self.op = op
        self.site = site
        self.note = note
        self.ncalls = 0


# Promote "a plan flagged FFTW_DESTROY_INPUT is executed on the caller's input array" from an
# unspecified (counted) case to a violation.  Off: the docstrings say the flag is on by default.
JUDGE_DESTROY_INPUT_EXPOSURE = False


def _exposed_to_destroy_input(op, x):
    """True if op's FFTW plan was last executed directly on x's memory, is flagged
    FFTW_DESTROY_INPUT and is not a multi-dimensional c2r transform (which FFTW documents to
    destroy its input always, i.e. deterministically)."""
    plan = getattr(op, '_fftw_plan', None)
    if plan is None:
        return False
    try:
        flagged = 'FFTW_DESTROY_INPUT' in plan.flags
        shared = np.shares_memory(plan.input_array, x.asarray())
        c2r_multi = (np.dtype(plan.input_dtype).kind == 'c'
                     and np.dtype(plan.output_dtype).kind == 'f' and len(plan.axes) > 1)
    except Exception:
        return False
    return bool(flagged and shared and not c2r_multi)


def _exc(e):
    return '%s: %s' % (type(e).__name__, str(e)[:160])


def _call(acc, o, x_arr, ref, tol, symptom, ctx, mode='oop', kw=None):
    """Execute ``o.op`` on a fresh element holding ``x_arr`` and compare with ``ref``.

    Returns the result array if it agrees with the reference, else None.
    """
    kw = kw or {}
    op = o.op
    first = o.ncalls == 0
    o.ncalls += 1
    # NB: element() may wrap an array without copying; the operator gets its own copy
    x_arr = np.array(x_arr, dtype=op.domain.dtype, copy=True)
    x = op.domain.element(np.array(x_arr, copy=True))
    x0 = np.array(x.asarray(), copy=True)

    def once():
        if mode == 'oop':
            y = op(x, **kw)
            return np.array(y.asarray(), copy=True), True
        out = op.range.element()            # NaN-filled by mc.poison
        y = op(x, out=out, **kw)
        return np.array(out.asarray(), copy=True), (y is out)

    what = '%s %s%s' % (ctx, mode, (' ' + o.note) if o.note else '')
    try:
        got, same = once()
    except Exception as e:                   # admissible configuration: an exception is a finding
        acc.add(o.site, 'raises:' + type(e).__name__, '%s: %s' % (what, _exc(e)))
        return None
    acc.evals += 1
    if not same:
        acc.add(o.site, 'returned_object_is_not_out', what)
    modified = not np.array_equal(x.asarray(), x0)
    if _exposed_to_destroy_input(op, x):
        # The plan just executed directly on the caller's array carries FFTW_DESTROY_INPUT, and
        # the transform is not one that FFTW always destroys: whether the input survives is then
        # at the discretion of the algorithm the FFTW_MEASURE planner picked by *timing*, i.e.
        # not a function of the configuration.  The effect is therefore not judged; the
        # deterministic cause is counted (and judged only if the switch below is set).
        # Docstring of _call_pyfftw: "'FFTW_DESTROY_INPUT' is enabled by default" -> unspecified.
        acc.skipped += 1
        acc.exposed += 1
        if JUDGE_DESTROY_INPUT_EXPOSURE:
            acc.add(o.site, 'caller_input_exposed_to_FFTW_DESTROY_INPUT', what)
    elif modified:
        # (what FFTW leaves in a destroyed input is unspecified, so it is not printed)
        acc.add(o.site, 'input_modified',
                '%s: the input element %s holds other values after the call' % (what, _fmt(x0)))
    if modified:
        x = op.domain.element(np.array(x_arr, copy=True))
    if not _differs(got, ref, tol):
        return got
    sym = symptom
    if first:
        # hidden-state classification: is only the first call of the fresh operator wrong?
        try:
            again, _ = once()
            acc.evals += 1
            if not _differs(again, ref, tol):
                sym = 'first_call_differs'
        except Exception:
            pass
    acc.add(o.site, sym, '%s: input %s expected %s got %s (tol %g rel.)'
            % (what, _fmt(x_arr), _fmt(ref), _fmt(got), tol))
    return None


# ------------------------------------------------------------------------------------------
# DFT

def _dft_site(cls, impl, dtype, hc, sign, shape, axes):
    if hc:
        store = 'halfcomplex-' + ('odd' if shape[axes[-1]] % 2 else 'even')
    else:
        store = 'full'
    return '%s[%s,%s,%s,sign%s,%s]' % (cls, impl, 'real' if _is_real(dtype) else 'complex', store,
                                       sign, 'rank1' if len(axes) == 1 else 'rank>1')


def _dft_space(shape, dtype):
    nd = len(shape)
    return odl.uniform_discr([0.0] * nd, [float(n) for n in shape], shape, dtype=dtype)


def _dft_ops(cfg):
    shape, dt = tuple(cfg['shape']), cfg['dtype']
    ax_arg, axes = _axes(cfg)
    hc, sign, impl = bool(cfg['hc']), cfg['sign'], cfg['impl']
    isign = '+' if sign == '-' else '-'
    sp = _dft_space(shape, dt)

    def fwd():
        return Op(DiscreteFourierTransform(sp, axes=ax_arg, sign=sign, halfcomplex=hc, impl=impl),
                  _dft_site('DiscreteFourierTransform', impl, dt, hc, sign, shape, axes))

    def inv():
        return Op(DiscreteFourierTransformInverse(sp, axes=ax_arg, sign=isign, halfcomplex=hc,
                                                  impl=impl),
                  _dft_site('DiscreteFourierTransformInverse', impl, dt, hc, isign, shape, axes))
    return sp, fwd, inv


def _dft_inputs(shape, dt, axes, sign, hc):
    """Stack of inputs (unit vectors, i*e_k, one dense vector) and their reference images."""
    n = int(np.prod(shape))
    X = [R.basis_stack(shape, dt)]
    if not _is_real(dt):
        X.append(R.basis_stack(shape, dt, imag=True))
    ramp = (np.arange(n, dtype=float) % 5 - 1.5).reshape((1,) + shape)
    if not _is_real(dt):
        ramp = ramp + 1j * ramp[:, ::-1] * 0.5
    X.append(ramp.astype(dt))
    X = np.concatenate(X)
    Y = R.dft_apply(X, axes, sign, hc, offset=1)
    return X, Y


def _run_dft(cfg):
    acc = Acc()
    shape, dt = tuple(cfg['shape']), cfg['dtype']
    ax_arg, axes = _axes(cfg)
    hc, sign, impl = bool(cfg['hc']), cfg['sign'], cfg['impl']
    isign = '+' if sign == '-' else '-'
    kw = {'flags': ('FFTW_ESTIMATE',)} if cfg.get('effort') == 'estimate' else {}
    tol = TOL_DFT[_prec(dt)]
    ctx0 = 'shape=%s axes=%s dtype=%s%s' % (list(shape), ax_arg, dt,
                                           ' flags=FFTW_ESTIMATE' if kw else '')
    try:
        sp, mk_fwd, mk_inv = _dft_ops(cfg)
        fwd, inv = mk_fwd(), mk_inv()
    except Exception as e:
        acc.add(_dft_site('DiscreteFourierTransform', impl, dt, hc, sign, shape, axes),
                'raises:' + type(e).__name__, 'constructor %s: %s' % (ctx0, _exc(e)))
        return acc.result('dft:build')
    X, Y = _dft_inputs(shape, dt, axes, sign, hc)
    nb = len(X)
    # objects of a class whose whole matrix is visited in this state (or in the pyfftw twin of
    # this state) anyway -- the .inverse property and the pre-planned operators -- are called
    # on the dense vector and on three unit vectors only
    few = set([0, 1, nb // 2, nb - 1])
    # the .inverse property (always built on the default back-end by odl)
    try:
        pinv_op = fwd.op.inverse
        pinv = Op(pinv_op, _dft_site('DiscreteFourierTransformInverse', pinv_op.impl, dt, hc,
                                     pinv_op.sign, shape, axes), note='(via .inverse)')
    except Exception as e:
        acc.add(fwd.site, 'raises:' + type(e).__name__, '.inverse %s: %s' % (ctx0, _exc(e)))
        pinv = None
    for k in range(nb):
        ctx = '%s input#%d' % (ctx0, k)
        y = _call(acc, fwd, X[k], Y[k], tol, 'matrix_differs', ctx, 'oop', kw)
        _call(acc, fwd, X[k], Y[k], tol, 'matrix_differs', ctx, 'ip', kw)
        # the inverse gets odl's own forward image where that one is right, else the reference
        yin = y if y is not None else Y[k]
        _call(acc, inv, yin, X[k], tol, 'inverse_does_not_recover_input', ctx, 'oop', kw)
        _call(acc, inv, Y[k], X[k], tol, 'inverse_does_not_recover_input', ctx, 'ip', kw)
        if pinv is not None and k in few:
            _call(acc, pinv, yin, X[k], tol, 'inverse_does_not_recover_input', ctx, 'oop', kw)
    if not _is_real(dt):
        # complex-to-complex: the inverse is a bijection, check its whole matrix as well
        Z = R.idft_apply(X, axes, isign, offset=1)
        inv2 = mk_inv()
        for k in range(nb):
            z = _call(acc, inv2, X[k], Z[k], tol, 'matrix_differs', '%s input#%d' % (ctx0, k),
                      'oop', kw)
            if z is not None:
                _call(acc, fwd, z, X[k], tol, 'forward_of_inverse_differs',
                      '%s input#%d' % (ctx0, k), 'oop', kw)
    if impl == 'pyfftw' and not kw:
        # pre-planned operators
        for mk, A, B, sym in ((mk_fwd, X, Y, 'matrix_differs'),
                              (mk_inv, Y, X, 'inverse_does_not_recover_input')):
            o = mk()
            o.note = '(after init_fftw_plan)'
            try:
                o.op.init_fftw_plan()
            except Exception as e:
                acc.add(o.site, 'raises:' + type(e).__name__,
                        'init_fftw_plan() %s: %s' % (ctx0, _exc(e)))
                continue
            o.ncalls = 1         # a plan exists: not a "fresh" first call
            for k in sorted(few):
                _call(acc, o, A[k], B[k], tol, sym, '%s input#%d' % (ctx0, k), 'oop')
            # ... and cleared again ("Delete the FFTW plan of this transform"): the operator has
            # to plan afresh and return the same values; a second clear is a documented no-op
            try:
                o.op.clear_fftw_plan()
                o.op.clear_fftw_plan()
            except Exception as e:
                acc.add(o.site, 'raises:' + type(e).__name__,
                        'clear_fftw_plan() %s: %s' % (ctx0, _exc(e)))
                continue
            o.note = '(after init_fftw_plan, calls, clear_fftw_plan)'
            o.ncalls = 0
            for k in sorted(few):
                _call(acc, o, A[k], B[k], tol, sym, '%s input#%d' % (ctx0, k),
                      'ip' if k == 1 else 'oop')
    # derived objects: inverse.inverse is the forward transform again ("Inverse Fourier
    # transform" of the inverse), and .inverse requested a second time, after the calls above,
    # is the same operator as the first one (both built on odl's default back-end)
    derived = []
    try:
        ii = inv.op.inverse
        if not isinstance(ii, DiscreteFourierTransform) or ii.domain != sp:
            acc.add(inv.site, 'derived_operator_has_other_type_or_spaces',
                    '%s: .inverse of the inverse is %r' % (ctx0, ii))
        else:
            derived.append((Op(ii, _dft_site('DiscreteFourierTransform', ii.impl, dt, hc, sign,
                                             shape, axes), note='(via inverse.inverse)'),
                            X, Y, 'matrix_differs'))
    except Exception as e:
        acc.add(inv.site, 'raises:' + type(e).__name__, '.inverse %s: %s' % (ctx0, _exc(e)))
    if pinv is not None:
        try:
            p2 = fwd.op.inverse
            derived.append((Op(p2, pinv.site, note='(via .inverse, requested again)'),
                            Y, X, 'inverse_does_not_recover_input'))
        except Exception as e:
            acc.add(fwd.site, 'raises:' + type(e).__name__, '.inverse %s: %s' % (ctx0, _exc(e)))
    for o, A, B, sym in derived:
        for k in sorted(few):
            _call(acc, o, A[k], B[k], tol, sym, '%s input#%d' % (ctx0, k),
                  'ip' if k == 1 else 'oop', kw if o.op.impl == 'pyfftw' else None)
    par = ''.join('o' if shape[a] % 2 else 'e' for a in axes) + ':' + _order_tag(ax_arg, axes)
    return acc.result('dft:%s:%s:%s:%s:%s:%s' % (impl, 'r' if _is_real(dt) else 'c', int(hc), sign,
                                                 par, cfg.get('effort', 'd')))


HIST_ACTIONS = 'sonp'


def _run_hist(cfg):
    """Call histories on the FFTW back-end, starting from empty wisdom."""
    acc = Acc()
    shape, dt = tuple(cfg['shape']), cfg['dtype']
    ax_arg, axes = _axes(cfg)
    hc, sign = bool(cfg['hc']), cfg['sign']
    tol = TOL_DFT[_prec(dt)]
    sp, mk_fwd, mk_inv = _dft_ops(cfg)
    X, Y = _dft_inputs(shape, dt, axes, sign, hc)
    a, b = len(X) - 1, min(1, len(X) - 1)         # dense vector and e_1
    if cfg['dir'] == 'fwd':
        mk, A, B, sym = mk_fwd, X, Y, 'matrix_differs'
    else:
        mk, A, B, sym = mk_inv, Y, X, 'inverse_does_not_recover_input'
    try:
        cur = mk()
    except Exception as e:
        return acc.result('hist:build')
    for i, act in enumerate(cfg['hist']):
        ctx = 'shape=%s axes=%s dtype=%s history=%s step=%d' % (list(shape), ax_arg, dt,
                                                                 cfg['hist'], i)
        if act == 'n':
            cur = mk()
        k = b if act == 'o' else a
        # a mismatch on an operator that has been called before gets its own symptom
        _call(acc, cur, A[k], B[k], tol, sym if cur.ncalls == 0 else 'later_call_differs', ctx,
              'ip' if act == 'p' else 'oop')
    return acc.result('hist:%s:%s:%s:%s' % (cfg['dir'], 'r' if _is_real(dt) else 'c', int(hc),
                                            cfg['hist']))


# ------------------------------------------------------------------------------------------
# FourierTransform

def _ft_site(cls, impl, dtype, hc, sign, shifts, tmp):
    if all(shifts):
        sh = 'shift=all'
    elif hc:
        # documented: shift must be True "in the halved axis" only
        sh = 'shift=not-all(halved axis shifted)'
    else:
        sh = 'shift=not-all'
    return '%s[%s,%s,%s,sign%s,%s,%s]' % (cls, impl, 'real' if _is_real(dtype) else 'complex',
                                          'halfcomplex' if hc else 'full', sign, sh,
                                          'tmp' if tmp not in ('none', 'create-clear') else 'notmp')


def _ft_space(shape, dtype):
    nd = len(shape)
    return odl.uniform_discr(list(LO[:nd]), list(HI[:nd]), shape, dtype=dtype)


def _ft_build(cfg):
    shape, dt = tuple(cfg['shape']), cfg['dtype']
    ax_arg, axes = _axes(cfg)
    hc, sign, impl = bool(cfg['hc']), cfg['sign'], cfg['impl']
    shifts, tmp = [bool(s) for s in cfg['shift']], cfg['tmp']
    sp = _ft_space(shape, dt)
    kwargs = dict(impl=impl, axes=ax_arg, sign=sign, halfcomplex=hc, shift=shifts)
    if tmp == 'ctor':
        ran = ft_utils.reciprocal_space(sp, axes=ax_arg, halfcomplex=hc, shift=shifts)
        kwargs['tmp_r'] = np.full(shape, np.nan, dtype=dt)
        kwargs['tmp_f'] = np.full(ran.shape, np.nan, dtype=ran.dtype)
    ft = FourierTransform(sp, **kwargs)
    if tmp in ('create', 'create-both', 'create-clear'):
        ft.create_temporaries(r=True, f=True)
    elif tmp == 'create-r':
        ft.create_temporaries(r=True, f=False)
    elif tmp == 'create-f':
        ft.create_temporaries(r=False, f=True)
    if tmp == 'create-clear':
        ft.clear_temporaries()
    return sp, ft


def _ft_inverse(ft, cfg):
    """``ft.inverse`` in the temporaries life cycle of the state.

    tmp = none / ctor / create / create-r / create-f : the inverse inherits what the forward
          operator holds (the ``.inverse`` property hands tmp_r, tmp_f over);
    create-inv   : create_temporaries() is called on the inverse itself, the forward has none;
    create-both  : on the forward operator and then again on the inverse ("Existing temporaries
                   are overridden");
    create-clear : created on the forward operator and cleared again before use; on the inverse
                   created and cleared as well.
    """
    inv = ft.inverse
    tmp = cfg['tmp']
    if tmp in ('create-inv', 'create-both', 'create-clear'):
        inv.create_temporaries(r=True, f=True)
    if tmp == 'create-clear':
        inv.clear_temporaries()
    return inv


def _run_ft(cfg):
    acc = Acc()
    shape, dt = tuple(cfg['shape']), cfg['dtype']
    ax_arg, axes = _axes(cfg)
    hc, sign, impl = bool(cfg['hc']), cfg['sign'], cfg['impl']
    shifts, tmp = [bool(s) for s in cfg['shift']], cfg['tmp']
    isign = '+' if sign == '-' else '-'
    tol = TOL_FT[_prec(dt)]
    # the site names say whether THAT operator works on temporaries
    fsite = _ft_site('FourierTransform', impl, dt, hc, sign, shifts,
                     'none' if tmp == 'create-inv' else tmp)
    isite = _ft_site('FourierTransformInverse', impl, dt, hc, isign, shifts, tmp)
    ctx0 = 'domain=uniform_discr(%s,%s,%s,%s) axes=%s shift=%s tmp=%s' % (
        list(LO[:len(shape)]), list(HI[:len(shape)]), list(shape), dt, ax_arg, shifts, tmp)
    try:
        sp, ft = _ft_build(cfg)
        fwd = Op(ft, fsite)
    except Exception as e:
        acc.add(fsite, 'raises:' + type(e).__name__, 'constructor %s: %s' % (ctx0, _exc(e)))
        return acc.result('ft:build')
    try:
        inv = Op(_ft_inverse(ft, cfg), isite, note='(ft.inverse)')
    except Exception as e:
        acc.add(fsite, 'raises:' + type(e).__name__, '.inverse %s: %s' % (ctx0, _exc(e)))
        return acc.result('ft:build-inverse')
    # documented reciprocal grid
    nd = len(shape)
    for i, (ax, sh) in enumerate(zip(axes, shifts)):
        s = (HI[ax] - LO[ax]) / shape[ax]
        want = R.recip_nodes(shape[ax], s, sh, hc and i == len(axes) - 1)
        got = np.asarray(ft.range.grid.coord_vectors[ax])
        acc.evals += 1
        if _differs(got, want, 1e-12):
            acc.add(fsite, 'reciprocal_grid_differs', '%s axis %d: documented %s got %s'
                    % (ctx0, ax, _fmt(want), _fmt(got)))
    n = int(np.prod(shape))
    X = [R.basis_stack(shape, dt)]
    if not _is_real(dt):
        X.append(R.basis_stack(shape, dt, imag=True))
    ramp = (np.arange(n, dtype=float) % 5 - 1.5).reshape((1,) + shape)
    if not _is_real(dt):
        ramp = ramp + 1j * ramp[:, ::-1] * 0.5
    X.append(ramp.astype(dt))
    X = np.concatenate(X)
    Y = R.ft_apply(X, LO, HI, axes, shifts, sign, hc, offset=1)
    for k in range(len(X)):
        ctx = '%s input#%d' % (ctx0, k)
        y = _call(acc, fwd, X[k], Y[k], tol, 'differs_from_documented_formula', ctx, 'oop')
        _call(acc, fwd, X[k], Y[k], tol, 'differs_from_documented_formula', ctx, 'ip')
        yin = y if y is not None else Y[k]
        _call(acc, inv, yin, X[k], tol, 'inverse_does_not_recover_input', ctx, 'oop')
        _call(acc, inv, Y[k], X[k], tol, 'inverse_does_not_recover_input', ctx, 'ip')
    if not _is_real(dt):
        # C2C ("one-to-one"): forward(inverse(y)) == y on the unit vectors of the range
        for k in range(n):
            z = None
            try:
                z = np.array(inv.op(inv.op.domain.element(np.array(X[k], copy=True))).asarray(),
                             copy=True)
                acc.evals += 1
            except Exception as e:
                acc.add(isite, 'raises:' + type(e).__name__, '%s unit vector %d: %s'
                        % (ctx0, k, _exc(e)))
            if z is not None and np.all(np.isfinite(z)):
                _call(acc, fwd, z, X[k], tol, 'forward_of_inverse_differs',
                      '%s range unit vector %d' % (ctx0, k), 'oop')
    nb = len(X)
    few = sorted(set([0, 1, nb // 2, nb - 1]))
    # derived objects (they share the temporaries of ft): "Inverse of the inverse, the forward
    # FT", and .inverse requested a second time after the calls above
    derived = []
    try:
        ii = inv.op.inverse
        if not isinstance(ii, FourierTransform) or ii.domain != sp or ii.range != ft.range:
            acc.add(isite, 'derived_operator_has_other_type_or_spaces',
                    '%s: .inverse of the inverse is %r' % (ctx0, ii))
        else:
            # (it inherits whatever temporaries the inverse holds)
            derived.append((Op(ii, _ft_site('FourierTransform', impl, dt, hc, sign, shifts, tmp),
                               note='(ft.inverse.inverse)'), X, Y,
                            'differs_from_documented_formula'))
        derived.append((Op(ft.inverse, isite, note='(ft.inverse, requested again)'), Y, X,
                        'inverse_does_not_recover_input'))
    except Exception as e:
        acc.add(fsite, 'raises:' + type(e).__name__, '.inverse %s: %s' % (ctx0, _exc(e)))
    for o, A, B, sym in derived:
        for k in few:
            _call(acc, o, A[k], B[k], tol, sym, '%s input#%d' % (ctx0, k),
                  'ip' if k == 1 else 'oop')
    if impl == 'pyfftw':
        # pre-planned operators ("Initialize the FFTW plan for this transform for later use";
        # the plan is laid out on the temporaries if there are any), then the plan deleted
        # again: the values must be those of the unplanned operator.  Once on the operators
        # that have been called above, once on fresh ones.
        try:
            sp2, ft2 = _ft_build(cfg)
            fresh = [(Op(ft2, fsite), X, Y, 'differs_from_documented_formula'),
                     (Op(_ft_inverse(ft2, cfg), isite), Y, X, 'inverse_does_not_recover_input')]
        except Exception as e:
            acc.add(fsite, 'raises:' + type(e).__name__, 'constructor %s: %s' % (ctx0, _exc(e)))
            fresh = []
        used = [(fwd, X, Y, 'differs_from_documented_formula'),
                (inv, Y, X, 'inverse_does_not_recover_input')]
        for hist, group in (('fresh operator', fresh), ('used operator', used)):
            for o, A, B, sym in group:
                for step in ('init_fftw_plan', 'clear_fftw_plan', 'clear_fftw_plan'):
                    try:
                        getattr(o.op, step)()
                    except Exception as e:
                        acc.add(o.site, 'raises:' + type(e).__name__,
                                '%s() on a %s %s: %s' % (step, hist, ctx0, _exc(e)))
                        break
                    o.note = '(%s, after %s)' % (hist, step)
                    o.ncalls = max(o.ncalls, 1)
                    for k in few:
                        _call(acc, o, A[k], B[k], tol, sym, '%s input#%d' % (ctx0, k),
                              'ip' if k == 1 else 'oop')
    par = ''.join(('o' if shape[a] % 2 else 'e') + ('S' if s else 'n')
                  for a, s in zip(axes, shifts)) + ':' + _order_tag(ax_arg, axes)
    return acc.result('ft:%s:%s:%s:%s:%s:%s' % (impl, 'r' if _is_real(dt) else 'c', int(hc), sign,
                                                par, tmp))


def _run_grid(cfg):
    """reciprocal_grid as documented, and realspace_grid as its inverse.

    Docstring of realspace_grid: "Given a reciprocal grid xi[j] = xi[0] + j * sigma ... this
    function calculates the original grid x[k] = x[0] + k * s by using a provided x[0] and
    calculating the stride s", s = 2*pi / (sigma * N), N[i] = 2 * M[i] - 1 (odd) or
    2 * M[i] - 2 (even) in the halved axis.
    """
    acc = Acc()
    shape = tuple(cfg['shape'])
    ax_given, axes = _axes(cfg)
    shifts, hc, form = [bool(t) for t in cfg['shift']], bool(cfg['hc']), cfg['form']
    nd = len(shape)
    site = 'reciprocal_grid/realspace_grid[%s]' % ('halfcomplex' if hc else 'full')
    ctx0 = 'grid=uniform_discr(%s,%s,%s).grid axes=%s shift=%s halfcomplex=%s args=%s' % (
        list(LO[:nd]), list(HI[:nd]), list(shape), ax_given, shifts, hc, form)
    grid = odl.uniform_discr(list(LO[:nd]), list(HI[:nd]), shape).grid
    # the same request written with the documented argument forms
    #   axes : "int or sequence of ints ... None means all axes"
    #   shift : "bool or sequence of bools"
    if form == 'scalar':
        ax_arg = None if len(axes) == nd else ax_given[0]
        sh_arg = shifts[0]
    elif form == 'tuple':
        ax_arg, sh_arg = tuple(ax_given), tuple(shifts)
    else:
        ax_arg, sh_arg = ax_given, shifts
    try:
        rg = ft_utils.reciprocal_grid(grid, shift=sh_arg, axes=ax_arg, halfcomplex=hc)
        acc.evals += 1
    except Exception as e:
        acc.add(site, 'raises:' + type(e).__name__, 'reciprocal_grid %s: %s' % (ctx0, _exc(e)))
        return acc.result('grid:raise')
    want_shape = list(shape)
    if hc:
        want_shape[axes[-1]] = shape[axes[-1]] // 2 + 1
    if list(rg.shape) != want_shape:
        acc.add(site, 'reciprocal_grid_differs', '%s: shape %s, documented %s'
                % (ctx0, list(rg.shape), want_shape))
        return acc.result('grid:shape')
    for ax in range(nd):
        got = np.asarray(rg.coord_vectors[ax])
        if ax in axes:
            i = axes.index(ax)
            s_ = (HI[ax] - LO[ax]) / shape[ax]
            want = R.recip_nodes(shape[ax], s_, shifts[i], hc and i == len(axes) - 1)
        else:
            want = np.asarray(grid.coord_vectors[ax])
        if _differs(got, want, 1e-12):
            acc.add(site, 'reciprocal_grid_differs', '%s axis %d: documented %s got %s'
                    % (ctx0, ax, _fmt(want), _fmt(got)))
    par = 'odd' if shape[axes[-1]] % 2 else 'even'
    kw = {'halfcomplex': True, 'halfcx_parity': par} if hc else {}
    x0_arg = {'scalar': list(grid.min_pt), 'tuple': tuple(grid.min_pt)}.get(form, grid.min_pt)
    try:
        back = ft_utils.realspace_grid(rg, x0_arg, axes=ax_arg, **kw)
        acc.evals += 1
    except Exception as e:
        acc.add(site, 'raises:' + type(e).__name__, 'realspace_grid %s: %s' % (ctx0, _exc(e)))
        return acc.result('grid:raise')
    if list(back.shape) != list(shape):
        acc.add(site, 'realspace_grid_does_not_invert', '%s: shape %s instead of %s'
                % (ctx0, list(back.shape), list(shape)))
    else:
        for ax in range(nd):
            got = np.asarray(back.coord_vectors[ax])
            want = np.asarray(grid.coord_vectors[ax])
            if _differs(got, want, 1e-12):
                acc.add(site, 'realspace_grid_does_not_invert', '%s axis %d: original nodes %s, '
                        'got %s' % (ctx0, ax, _fmt(want), _fmt(got)))
    pat = ''.join(('o' if shape[a] % 2 else 'e') + ('S' if t else 'n')
                  for a, t in zip(axes, shifts))
    return acc.result('grid:%d:%s:%s:%s:%s' % (nd, int(hc), pat, form,
                                               _order_tag(ax_given, axes)))


def _run_gauss(cfg):
    acc = Acc()
    dt, hc, sign, impl = cfg['dtype'], bool(cfg['hc']), cfg['sign'], cfg['impl']
    nd, shifts = cfg['ndim'], [bool(s) for s in cfg['shift']]
    ax_arg, axes = _axes(cfg)
    ns = (GAUSS_N if nd == 1 else GAUSS_N2)[cfg['parity']]
    site = _ft_site('FourierTransform', impl, dt, hc, sign, shifts, 'none')
    errs = []
    for n in ns:
        sp = odl.uniform_discr([-10.0] * nd, [10.0] * nd, [n] * nd, dtype=dt)
        try:
            ft = FourierTransform(sp, impl=impl, axes=ax_arg, sign=sign, halfcomplex=hc,
                                  shift=shifts)
            mesh = sp.meshgrid
            f = np.ones(sp.shape)
            for i in range(nd):
                f = f * R.gaussian(mesh[i], GAUSS_C[i])
            got = np.asarray(ft(sp.element(f.astype(dt))).asarray())
            acc.evals += 1
            rmesh = ft.range.meshgrid
            ana = np.ones(ft.range.shape, dtype=complex)
            for i in range(nd):
                if i in axes:
                    ana = ana * R.gaussian_ft(rmesh[i], GAUSS_C[i], sign)
                else:
                    ana = ana * R.gaussian(rmesh[i], GAUSS_C[i])
        except Exception as e:
            acc.add(site, 'raises:' + type(e).__name__, 'gaussian n=%d %s: %s' % (n, cfg, _exc(e)))
            return acc.result('gauss:raise')
        if got.shape != ana.shape or not np.all(np.isfinite(got)):
            acc.add(site, 'gaussian_not_converging', 'n=%d: non-finite / wrong shape' % n)
            return acc.result('gauss:bad')
        errs.append(float(np.abs(got - ana).max()))
    for i in range(len(ns) - 1):
        if not errs[i + 1] <= errs[i] / 2.0:
            acc.add(site, 'gaussian_not_converging',
                    'exp(-|x-c|^2/2), c=%s on [-10,10]^%d, axes=%s shift=%s dtype=%s: max error '
                    'vs analytic transform for n=%s is %s (must at least halve per doubling)'
                    % (list(GAUSS_C[:nd]), nd, ax_arg, shifts, dt, list(ns),
                       ['%.3g' % e for e in errs]))
            break
    return acc.result('gauss:%d:%s:%s:%s:%s' % (nd, impl, int(hc), sign, cfg['parity']),
                      sample={'n': list(ns), 'max_err': ['%.3g' % e for e in errs]})


# ------------------------------------------------------------------------------------------
# wavelets

def _family(wname):
    return pywt.Wavelet(wname).short_family_name


@functools.lru_cache(maxsize=None)
def _coeff_size(shape, wname, mode, nl, axes):
    pm = PAD_MODES_ODL2PYWT[mode]
    if nl is None:
        nl = pywt.dwtn_max_level(shape, wname, axes)
    with warnings.catch_warnings():
        warnings.simplefilter('ignore')
        shapes = pywt.wavedecn_shapes(tuple(shape), wname, mode=pm, level=nl, axes=tuple(axes))
    return int(pywt.wavedecn_size(shapes))


def _diag_weights(space):
    n = int(space.size)
    w = np.zeros(n)
    for k in range(n):
        e = np.zeros(n, dtype=space.dtype)
        e[k] = 1
        el = space.element(e.reshape(space.shape))
        w[k] = float(np.real(space.inner(el, el)))
    return w


WT_FORMS = ('wobj', 'axes-none', 'axes-int', 'axes-neg', 'inv-ctor', 'inv-inv')


def _wt_build(sp, cfg):
    """The forward / inverse pair of one state, reached through the entry point ``cfg['form']``.

    plain      WaveletTransform(sp, <name>, axes=<list>) and its ``.inverse``
    wobj       the wavelet given as a ``pywt.Wavelet`` ("wavelet : string or `pywt.Wavelet`")
    axes-none  ``axes=None`` ("The default value of ``None`` corresponds to all axes")
    axes-int   a single axis given as a plain int (handled by the constructor: np.isscalar(axes))
    axes-neg   axes counted from the end, NumPy / PyWavelets style (odl's own tests use axes=-1)
    inv-ctor   the inverse built by its own constructor ``WaveletTransformInverse(range=sp, ...)``
    inv-inv    the derived objects ``W.inverse.inverse`` (forward) and ``W.inverse.inverse.inverse``
    """
    form = cfg.get('form', 'plain')
    axes = list(cfg['axes'])
    wname, nl, mode = cfg['wavelet'], cfg['nlevels'], cfg['pad_mode']
    wav = pywt.Wavelet(wname) if form == 'wobj' else wname
    if form == 'axes-none':
        ax = None
    elif form == 'axes-int':
        ax = int(axes[0])
    elif form == 'axes-neg':
        ax = [a - sp.ndim for a in axes]
    else:
        ax = axes
    if form == 'inv-ctor':
        W = WaveletTransform(sp, wav, nlevels=nl, pad_mode=mode, axes=ax)
        Wi = WaveletTransformInverse(sp, wav, nlevels=nl, pad_mode=mode, axes=ax)
    elif form == 'inv-inv':
        W = WaveletTransform(sp, wav, nlevels=nl, pad_mode=mode, axes=ax).inverse.inverse
        Wi = W.inverse
    else:
        W = WaveletTransform(sp, wav, nlevels=nl, pad_mode=mode, axes=ax)
        Wi = W.inverse
    return W, Wi


def _run_wt(cfg):
    acc = Acc()
    shape, axes, dt = tuple(cfg['shape']), list(cfg['axes']), cfg['dtype']
    wname, nl, mode = cfg['wavelet'], cfg['nlevels'], cfg['pad_mode']
    form = cfg.get('form', 'plain')
    fam = _family(wname)
    tol = TOL_WT[_prec(dt)]
    cplx = not _is_real(dt)
    site = 'WaveletTransform[%s,%s]' % (fam, mode)
    ctx0 = 'wavelet=%s nlevels=%s pad_mode=%s shape=%s axes=%s dtype=%s%s' % (
        wname, nl, mode, list(shape), axes, dt, '' if form == 'plain' else ' entry=' + form)
    nd = len(shape)
    sp = odl.uniform_discr([0.0] * nd, [2.0] * nd, shape, dtype=dt)     # cell volume != 1
    with warnings.catch_warnings():
        warnings.simplefilter('ignore')
        try:
            W, Wi = _wt_build(sp, cfg)
        except Exception as e:
            acc.add(site, 'raises:' + type(e).__name__, 'constructor %s: %s' % (ctx0, _exc(e)))
            return acc.result('wt:build')
        if not (isinstance(W, WaveletTransform) and isinstance(Wi, WaveletTransformInverse)
                and W.domain == sp and Wi.range == sp and Wi.domain == W.range):
            # docstrings: "inverse : `WaveletTransformInverse`" / "inverse : `WaveletTransform`"
            acc.add(site, 'derived_operator_has_other_type_or_spaces',
                    '%s: forward %r, inverse %r' % (ctx0, W, Wi))
            return acc.result('wt:build')
        n = int(sp.size)
        nc = int(W.range.size)
        levels = W.nlevels
        # 'dmey' is documented as "Discrete FIR approximation of the Meyer wavelet": its filter
        # bank is not an exact perfect-reconstruction pair (PyWavelets' own waverec(wavedec(x))
        # is off by 2e-3), so exact inversion / orthogonality is not promised for it.  Those
        # clauses are counted as unspecified; odl must still add nothing to the back-end error.
        approx_only = fam == 'dmey'
        E = R.basis_stack(shape, dt)
        M = np.zeros((nc, n), dtype=dt)
        ok = True

        def roundtrip(xa, what, out):
            """W then W.inverse on one input (out-of-place or with out=); returns coeffs."""
            x = sp.element(np.array(xa, copy=True))
            if out:
                c = W.range.element()           # NaN-filled by mc.poison
                r_el = sp.element()
                if W(x, out=c) is not c or Wi(c, out=r_el) is not r_el:
                    acc.add(site, 'returned_object_is_not_out', '%s %s' % (ctx0, what))
                r = np.array(r_el.asarray(), copy=True)
            else:
                c = W(x)
                r = np.array(Wi(c).asarray(), copy=True)
            acc.evals += 1
            if not np.array_equal(x.asarray(), xa):
                acc.add(site, 'input_modified', '%s %s' % (ctx0, what))
            if r.dtype != np.dtype(dt):
                acc.add(site, 'result_dtype_differs', '%s: %s' % (ctx0, r.dtype))
            if approx_only:
                acc.skipped += 1
                cs = pywt.wavedecn(xa, wname, mode=PAD_MODES_ODL2PYWT[mode], level=levels,
                                   axes=tuple(axes))
                rr = pywt.waverecn(cs, wname, mode=PAD_MODES_ODL2PYWT[mode], axes=tuple(axes))
                rr = rr[tuple(slice(0, m) for m in shape)]
                if not np.array_equal(rr, r):
                    acc.add(site, 'differs_from_backend_roundtrip', '%s %s' % (ctx0, what))
            elif _differs(r, xa, tol):
                acc.add(site, 'reconstruction_differs',
                        '%s: W.inverse(W(x)) for x = %s is %s (shape %s, max dev %.3g, tol %g)'
                        % (ctx0, what, _fmt(r), list(r.shape),
                           float(np.abs(r - xa).max()) if r.shape == xa.shape else np.inf, tol))
            return np.array(c.asarray(), copy=True)

        try:
            for k in range(n):
                M[:, k] = roundtrip(E[k], 'unit vector %d' % k, False)
                if cplx:
                    roundtrip(1j * E[k], 'i * unit vector %d' % k, False)
            # one dense vector, out-of-place and with out= (both operators)
            dense = (np.arange(n, dtype=float) % 5 - 1.5).reshape(shape)
            if cplx:
                dense = dense + 0.5j * dense[::-1]
            dense = dense.astype(dt)
            for out in (False, True):
                roundtrip(dense, 'the dense vector%s' % (' (out=)' if out else ''), out)
        except Exception as e:
            acc.add(site, 'raises:' + type(e).__name__, '%s: %s' % (ctx0, _exc(e)))
            ok = False
        divisible = all(shape[a] % (2 ** levels) == 0 for a in axes)
        did_adj = False
        if ok and W.is_orthogonal and mode == 'pywt_periodic' and divisible:
            if approx_only:
                acc.skipped += 1
            else:
                did_adj = True
                _wt_adjoint(acc, site, ctx0, sp, W, Wi, M, tol)
    par = ''.join('o' if shape[a] % 2 else 'e' for a in axes)
    return acc.result('wt:%s:%s:L%s:%s:%s:%s:%s:%s' % (
        fam, mode, levels, par, 'redundant' if nc > n else 'crit',
        'adj' if did_adj else 'noadj', form, 'c' if cplx else 'r'))


def _wt_adjoint(acc, site, ctx0, sp, W, Wi, M, tol):
    """<W x, c> = <x, W^* c>:  matrix(W.adjoint) == G_dom^-1 M^T G_ran, same for the inverse."""
    n, nc = int(sp.size), int(W.range.size)
    wd = _diag_weights(sp)
    wr = _diag_weights(W.range)
    try:
        Wa = W.adjoint
        Wia = Wi.adjoint
    except Exception as e:
        acc.add(site, 'raises:' + type(e).__name__, '.adjoint %s: %s' % (ctx0, _exc(e)))
        return
    A = np.zeros((n, nc), dtype=sp.dtype)
    Mi = np.zeros((n, nc), dtype=sp.dtype)
    B = np.zeros((nc, n), dtype=sp.dtype)
    try:
        for j in range(nc):
            c = np.zeros(nc, dtype=sp.dtype)
            c[j] = 1
            A[:, j] = np.asarray(Wa(W.range.element(c)).asarray()).ravel()
            Mi[:, j] = np.asarray(Wi(W.range.element(c)).asarray()).ravel()
            acc.evals += 2
        for k in range(n):
            e = np.zeros(n, dtype=sp.dtype)
            e[k] = 1
            B[:, k] = np.asarray(Wia(sp.element(e.reshape(sp.shape))).asarray()).ravel()
            acc.evals += 1
    except Exception as e:
        acc.add(site, 'raises:' + type(e).__name__, 'adjoint call %s: %s' % (ctx0, _exc(e)))
        return
    wantA = (M.conj().T * wr[None, :]) / wd[:, None]
    if _differs(A, wantA, tol):
        i, j = np.unravel_index(np.abs(A - wantA).argmax(), A.shape)
        acc.add(site, 'adjoint_not_transpose',
                '%s: W.adjoint matrix entry (%d,%d) = %s, <W e_i, c_j>/<e_i,e_i> gives %s'
                % (ctx0, i, j, _fmt(A[i, j]), _fmt(wantA[i, j])))
    wantB = (Mi.conj().T * wd[None, :]) / wr[:, None]
    if _differs(B, wantB, tol):
        i, j = np.unravel_index(np.abs(B - wantB).argmax(), B.shape)
        acc.add(site, 'inverse_adjoint_not_transpose',
                '%s: W.inverse.adjoint matrix entry (%d,%d) = %s, weighted transpose gives %s'
                % (ctx0, i, j, _fmt(B[i, j]), _fmt(wantB[i, j])))


# ------------------------------------------------------------------------------------------
# enumeration

def _shapes(ndims, sizes):
    for nd in ndims:
        for shape in itertools.product(sizes, repeat=nd):
            yield list(shape)


DBL = ('float64', 'complex128')
MIXED3 = ([4, 5, 3], [3, 2, 5])
MIXED3_T = ([4, 5, 3], [3, 2, 5], [2, 5, 4], [5, 2, 3])


def _core3(shape):
    """3-d shapes that get the full option product in the thorough tier: {2,3}^3, {4,5}^3 (every
    per-axis parity pattern, degenerate and generic lengths) and four mixed shapes; pre- and
    post-processing are separable per axis, so other mixtures add little."""
    return max(shape) <= 3 or min(shape) >= 4 or shape in MIXED3_T


def _variants(dtypes):
    """(dtype, halfcomplex, sign) admissible by the constructor docs."""
    out = []
    for dt in dtypes:
        if _is_real(dt):
            # sign '+' cannot be combined with halfcomplex (documented ValueError)
            out += [(dt, False, '-'), (dt, True, '-'), (dt, False, '+')]
        else:
            # "If dom_dtype is a complex type, this option [halfcomplex] has no effect"
            out += [(dt, False, '-'), (dt, False, '+')]
    return out


def _cfg_dft(tier):
    thorough = tier == 'thorough'
    impls = ['numpy'] + (['pyfftw'] if HAVE_FFTW else [])
    cfgs = []

    def emit(shape, dtypes, estimate, orders=False):
        for axes in (_orders(len(shape)) if orders else _subsets(len(shape))):
            for dt, hc, sign in _variants(dtypes):
                for impl in impls:
                    c = {'kind': 'dft', 'shape': shape, 'axes': axes, 'dtype': dt,
                         'hc': int(hc), 'sign': sign, 'impl': impl}
                    cfgs.append(c)
                    if impl == 'pyfftw' and estimate:
                        cfgs.append(dict(c, effort='estimate'))
    for shape in _shapes((1,), SIZES):
        emit(shape, DTYPES, True)
    for shape in _shapes((2,), SIZES):
        single = thorough or shape in ([2, 3], [4, 5], [5, 3], [4, 4])
        emit(shape, DTYPES if single else DBL, thorough)
    for shape in _shapes((3,), SIZES if thorough else (2, 3)):
        emit(shape, DTYPES if (thorough and _core3(shape)) else DBL, thorough and max(shape) <= 3)
    if not thorough:
        for shape in MIXED3:
            emit(shape, DBL, False)
    # axes in every order / counted from the end (the halved axis is the last one GIVEN)
    for shape in [[2], [5], [2, 3], [4, 5], [5, 3], [4, 4]] + [list(t) for t in MIXED3]:
        emit(shape, DTYPES if (thorough and len(shape) < 3) else DBL, False, orders=True)
    return cfgs


def _cfg_hist(tier):
    if not HAVE_FFTW:
        return []
    thorough = tier == 'thorough'
    depth = 3
    bases = [([4], [0]), ([5], [0]), ([3, 4], [0, 1]), ([4, 3], [0])]
    if thorough:
        bases += [([2], [0]), ([3], [0]), ([4, 5], [1]), ([5, 4], [0, 1]), ([2, 3, 4], [0, 2]),
                  ([3, 2, 2], [0, 1, 2])]
    variants = _variants(DTYPES if thorough else DBL)
    acts = HIST_ACTIONS if thorough else 'son'
    cfgs = []
    # shorter histories are prefixes of the maximal ones and every step is checked, so only
    # histories of full depth are enumerated
    for hist in itertools.product(acts, repeat=depth):
        for shape, axes in bases:
            for dt, hc, sign in variants:
                for direction in ('fwd', 'inv'):
                    cfgs.append({'kind': 'hist', 'shape': shape, 'axes': axes, 'dtype': dt,
                                 'hc': int(hc), 'sign': sign, 'impl': 'pyfftw',
                                 'dir': direction, 'hist': ''.join(hist)})
    return cfgs


def _cfg_ft(tier):
    thorough = tier == 'thorough'
    impls = ['numpy'] + (['pyfftw'] if HAVE_FFTW else [])
    cfgs = []

    def emit(shape, dtypes, tmps, orders=False):
        for axes in (_orders(len(shape)) if orders else _subsets(len(shape))):
            for shifts in itertools.product((1, 0), repeat=len(axes)):
                for dt, hc, sign in _variants(dtypes):
                    if hc and not shifts[-1]:
                        # documented and enforced by the constructor: "this must be set to True
                        # in the halved axis in half-complex transforms" -> not admissible
                        continue
                    for impl in impls:
                        for tmp in tmps:
                            cfgs.append({'kind': 'ft', 'shape': shape, 'axes': axes,
                                         'shift': list(shifts), 'dtype': dt, 'hc': int(hc),
                                         'sign': sign, 'impl': impl, 'tmp': tmp})
    # temporaries life cycle on both operators (see _ft_inverse)
    cycle = ('create-inv', 'create-both', 'create-clear')
    if thorough:
        for shape in _shapes((1, 2), SIZES):
            ctor = len(shape) == 1 or shape in ([2, 3], [4, 5], [5, 3], [4, 4])
            emit(shape, DTYPES, ('none', 'create', 'ctor') + cycle if ctor
                 else ('none', 'create', 'create-inv'))
        # 3-d (the per-axis factors are separable, see _core3): {2,3}^3, two shapes of {4,5}^3
        # showing both parities in every axis position, four mixed shapes; double precision
        for shape in _shapes((3,), (2, 3)):
            emit(shape, DBL, ('none', 'create'))
        for shape in ([4, 5, 4], [5, 4, 5]):
            emit(shape, DBL, ('none',))
        for shape in MIXED3_T:
            emit(shape, DBL, ('none', 'create') if shape in MIXED3 else ('none',))
    else:
        for shape in _shapes((1,), SIZES):
            emit(shape, DTYPES, ('none', 'create') + cycle)
        for shape in _shapes((2,), SIZES):
            more = shape in ([2, 3], [4, 5], [5, 3], [4, 4])
            emit(shape, DBL, ('none', 'create', 'create-inv', 'create-both') if more
                 else ('none',))
            if shape in ([3, 4], [5, 2]):
                emit(shape, ('float32', 'complex64'), ('none',))
        for shape in ([2, 3, 2], [5, 2, 4]):
            emit(shape, DBL, ('none',))
    # axes in every order / counted from the end, with per-axis shifts that differ
    for shape in ([3], [4], [2, 3], [4, 5], [5, 3], [4, 4], [3, 4], [5, 2]):
        emit(shape, DTYPES if thorough else DBL, ('none', 'create') if thorough else ('none',),
             orders=True)
    for shape in (MIXED3_T if thorough else ([5, 2, 4],)):
        emit(list(shape), DBL, ('none',), orders=True)
    return cfgs


def _cfg_grid(tier):
    """reciprocal_grid / realspace_grid called directly: every shape x axes subset x per-axis
    shift x halfcomplex (the function documents halfcomplex for shifted and unshifted last
    axes alike), each in the documented argument forms."""
    thorough = tier == 'thorough'
    cfgs = []
    shapes = list(_shapes((1, 2), SIZES))
    shapes += list(_shapes((3,), SIZES if thorough else (2, 3))) + ([] if thorough else list(MIXED3))
    for shape in shapes:
        full = thorough or max(shape) <= 3 or shape in MIXED3
        for axes in list(_subsets(len(shape))) + _orders(len(shape), full=full):
            for shifts in itertools.product((1, 0), repeat=len(axes)):
                for hc in (0, 1):
                    forms = ['list', 'tuple']
                    if (len(set(shifts)) == 1 and len(axes) in (1, len(shape))
                            and axes == sorted(axes) and (len(axes) == 1 or min(axes) >= 0)):
                        forms.append('scalar')
                    for form in forms:
                        cfgs.append({'kind': 'grid', 'shape': shape, 'axes': axes,
                                     'shift': list(shifts), 'hc': hc, 'form': form})
    return cfgs


def _cfg_gauss(tier):
    thorough = tier == 'thorough'
    impls = ['numpy'] + (['pyfftw'] if HAVE_FFTW else [])
    dts = DTYPES if thorough else DBL
    cfgs = []
    for nd in ((1, 2) if thorough else (1,)):
        for axes in _subsets(nd):
            for shifts in itertools.product((1, 0), repeat=len(axes)):
                for dt, hc, sign in _variants(dts):
                    if hc and not shifts[-1]:
                        continue
                    for impl in impls:
                        for par in ('even', 'odd'):
                            cfgs.append({'kind': 'gauss', 'ndim': nd, 'axes': axes,
                                         'shift': list(shifts), 'dtype': dt, 'hc': int(hc),
                                         'sign': sign, 'impl': impl, 'parity': par})
    return cfgs


QUICK_WAVELETS = ('haar', 'db2', 'db7', 'db38', 'sym2', 'sym9', 'sym20', 'coif1', 'coif8',
                  'coif17', 'bior1.3', 'bior2.2', 'bior3.9', 'bior6.8', 'rbio1.5', 'rbio3.1',
                  'rbio6.8', 'dmey')


# entry points other than the plain one: wavelets with a short / a long / a biorthogonal filter
FORM_WAVELETS = ('haar', 'db2', 'bior2.2', 'coif1')
# 3-d: the wavelets whose transforms of these tiny shapes stay below the coefficient cap anyway
WAVELETS_3D = ('haar', 'db2', 'sym2', 'coif1', 'bior1.3', 'bior2.2', 'rbio3.1')
# every parity pattern of the transformed axes (the inverse trims one sample PER odd axis):
# 2-d  ee eo oe oo;  3-d  through the axes subsets of these shapes every pattern of length 2 and
# 3 occurs with odd axes in every position
SHAPES_2D = ([4, 8], [6, 5], [5, 6], [5, 7])
SHAPES_3D = {'quick': ([3, 4, 5], [4, 5, 3], [5, 3, 3]),
             'thorough': ([4, 4, 4], [3, 4, 5], [4, 5, 3], [5, 3, 4], [5, 3, 3], [3, 5, 3],
                          [3, 3, 5], [4, 4, 3])}


def _wt_forms(shape, axes):
    fs = ['wobj', 'axes-neg', 'inv-ctor', 'inv-inv']
    if len(axes) == len(shape):
        fs.append('axes-none')
    if len(axes) == 1:
        fs.append('axes-int')
    return fs


def _cfg_wt(tier):
    if not HAVE_PYWT:
        return []
    thorough = tier == 'thorough'
    cap = COEFF_CAP[tier]
    every = sorted(pywt.wavelist(kind='discrete'), key=lambda w: (pywt.Wavelet(w).dec_len, w))
    some = [w for w in every if w in QUICK_WAVELETS]         # simplest (shortest filter) first
    shapes = [[8], [9], [12]] + ([[16]] if thorough else []) + [list(t) for t in SHAPES_2D]
    if thorough:
        shapes += [[8, 8], [6, 10]]
    shapes += [list(t) for t in SHAPES_3D[tier]]
    cfgs = []

    def emit(shape, axes, w, nl, mode, dt, form=None):
        if _coeff_size(tuple(shape), w, mode, nl, tuple(axes)) > cap:
            return                  # bound on the size of the coefficient space
        c = {'kind': 'wt', 'wavelet': w, 'nlevels': nl, 'pad_mode': mode, 'shape': shape,
             'axes': axes, 'dtype': dt}
        if form:
            c['form'] = form
        cfgs.append(c)

    for shape in shapes:
        nd = len(shape)
        for axes in _subsets(nd):
            # every wavelet on all axes; the short list on proper axes subsets and in 3-d
            if nd == 3 and not (thorough and shape == [4, 4, 4]):
                wl = [w for w in some if w in WAVELETS_3D]
            else:
                wl = every if (thorough and len(axes) == nd) else some
            for w in wl:
                for nl in (1, 2, None):
                    for mode in PAD_MODES:
                        dts = ['float64']
                        if shape in ([8], [9], [5, 6], [5, 7]) or (thorough and nd == 1):
                            dts.append('float32')
                        if shape in ([9], [5, 6]) or (thorough and shape in ([8], [5, 7])):
                            # complex spaces: same transform on real and imaginary part
                            dts.append('complex128')
                            if w in FORM_WAVELETS:
                                dts.append('complex64')
                        for dt in dts:
                            emit(shape, axes, w, nl, mode, dt)
    # the same operators reached through the other documented entry points
    for shape in shapes:
        if len(shape) == 3 and shape != [3, 4, 5] and not thorough:
            continue
        for axes in _subsets(len(shape)):
            for form in _wt_forms(shape, axes):
                for w in (some if (thorough and len(shape) < 3) else FORM_WAVELETS):
                    for nl in (1, None):
                        for mode in PAD_MODES:
                            emit(shape, axes, w, nl, mode, 'float64', form)
    return cfgs


def configs(tier):
    return (_cfg_grid(tier) + _cfg_dft(tier) + _cfg_hist(tier) + _cfg_ft(tier) + _cfg_gauss(tier)
            + _cfg_wt(tier))


RUNNERS = {'grid': _run_grid, 'dft': _run_dft, 'hist': _run_hist, 'ft': _run_ft,
           'gauss': _run_gauss, 'wt': _run_wt}


def run(cfg):
    if HAVE_FFTW:
        # FFTW wisdom is process-global hidden state: every state starts without it
        pyfftw.forget_wisdom()
    with warnings.catch_warnings():
        warnings.simplefilter('ignore')
        with np.errstate(all='ignore'):
            return RUNNERS[cfg['kind']](cfg)


def trace_functions():
    fs = [ft_utils.reciprocal_grid, ft_utils.realspace_grid, ft_utils.dft_preprocess_data, ft_utils.dft_postprocess_data,
          ft_utils._interp_kernel_ft, pyfftw_bindings.pyfftw_call,
          pyfftw_bindings._pyfftw_destroys_input,
          DiscreteFourierTransform._call_numpy, DiscreteFourierTransform._call_pyfftw,
          DiscreteFourierTransformInverse._call_numpy, DiscreteFourierTransformInverse._call_pyfftw,
          FourierTransform._call_numpy, FourierTransform._call_pyfftw,
          FourierTransform._preprocess, FourierTransform._postprocess,
          FourierTransformInverse._call_numpy, FourierTransformInverse._call_pyfftw,
          FourierTransformInverse._preprocess, FourierTransformInverse._postprocess,
          WaveletTransform._call, WaveletTransformInverse._call]
    return fs


def summarize(results):
    by_kind = {}
    for cfg, res in results:
        d = by_kind.setdefault(cfg['kind'], {'states': 0, 'evals': 0})
        d['states'] += 1
        d['evals'] += res['evals']
    return {'per_kind': by_kind,
            'calls_executing_a_DESTROY_INPUT_plan_on_the_callers_array(counted in skipped)':
                sum(res.get('exposed', 0) for _, res in results)}


def meta(tier):
    thorough = tier == 'thorough'
    return {
        'rule': 'one state = one transform configuration (or one FFTW call history); inside a '
                'state the whole matrix is visited (every unit vector e_k, i*e_k on complex '
                'spaces, plus one dense vector), which decides "all inputs" by linearity; every '
                'execution is compared with a direct-summation reference (DFT: trigonometric sum; '
                'FT: exact Fourier integral of the piecewise constant interpolant at the documented '
                'reciprocal nodes) or with the identity (inverse o forward, wavelet '
                'reconstruction) or the weighted transpose (wavelet adjoints). numpy and pyfftw '
                'are compared with the same reference, hence with each other (2 tol). '
                'distinct = distinct (kind, option class, per-axis parity/shift pattern, outcome, '
                'executed-line signature of the anchored functions)',
        'bounds': {
            'dft': 'ndim 1-2: sizes {2,3,4,5}^ndim; ndim 3: '
                   + ('{2,3,4,5}^3 (single precision on {2,3}^3, {4,5}^3 and 4 mixed shapes)'
                      if thorough else '{2,3}^3 + 2 mixed shapes')
                   + '; every non-empty axes subset; f32/f64/c64/c128; halfcomplex; sign; '
                     'numpy/pyfftw; pyfftw default (FFTW_MEASURE) and FFTW_ESTIMATE flags; '
                     'out-of-place, out=, .inverse (twice), inverse.inverse, init_fftw_plan, '
                     'clear_fftw_plan',
            'hist': 'pyfftw, all histories of length 3 over {%s}' % (HIST_ACTIONS if thorough
                                                                     else 'son'),
            'ft': 'same sizes (3-d: ' + ('{2,3}^3, [4,5,4], [5,4,5] and 4 mixed shapes, double '
                                          'precision' if thorough else '2 shapes')
                  + ') x per-axis shift x '
                  'temporaries (see temporaries_life_cycle)'
                  + ' x {operator, .inverse, .inverse again, .inverse.inverse, init_fftw_plan / '
                    'clear_fftw_plan on fresh and used operators}',
            'grid': 'reciprocal_grid / realspace_grid: sizes {2,3,4,5}^ndim (ndim 1-2; 3-d: '
                    + ('all' if thorough else '{2,3}^3 + 2 mixed shapes') + ') x axes subsets x '
                    'per-axis shift x halfcomplex x argument form {list, tuple, scalar / None}; '
                    'axes also in every order (permutations of every subset) and counted from '
                    'the end, with per-axis shifts that differ',
            'axes_orders': 'dft / ft: on a subset of the shapes (1-d [2],[5] / [3],[4]; 2-d '
                           '[2,3],[4,5],[5,3],[4,4](,[3,4],[5,2]); 3-d mixed shapes) the axes are '
                           'also given as every non-identity permutation of every subset and in '
                           'negative spelling; the halved axis / the per-axis shifts follow the '
                           'GIVEN order',
            'temporaries_life_cycle': 'none, create (on the forward operator, inherited through '
                                      '.inverse), create-inv (create_temporaries on the inverse '
                                      'itself), create-both, create-clear (clear_temporaries '
                                      'before use)' + (', ctor' if thorough else ''),
            'gauss': {'n_1d': GAUSS_N, 'n_2d': GAUSS_N2 if thorough else None,
                      'centre': list(GAUSS_C)},
            'wt': {'wavelets': 'all %d discrete PyWavelets wavelets' % len(
                pywt.wavelist(kind='discrete')) if thorough else list(QUICK_WAVELETS),
                'nlevels': [1, 2, 'None (= pywt.dwtn_max_level)'],
                'pad_modes': list(PAD_MODES),
                'coefficient_count_cap': COEFF_CAP[tier],
                'shapes': '1-d 8, 9, 12%s; 2-d %s (every parity pattern)%s; 3-d %s (odd axes in '
                          'every position of every axes subset; wavelets %s)' % (
                              ', 16' if thorough else '', [list(t) for t in SHAPES_2D],
                              ', [8,8], [6,10]' if thorough else '',
                              [list(t) for t in SHAPES_3D[tier]], list(WAVELETS_3D)),
                'dtypes': 'float64; float32 and complex128 / complex64 on some shapes',
                'entry_points': {'forms': ['plain'] + list(WT_FORMS),
                                 'wavelets': ('quick list (3-d: %s)' % list(FORM_WAVELETS)
                                              if thorough else list(FORM_WAVELETS)),
                                 'nlevels': [1, 'None']},
                'inputs': 'all unit vectors (and i * e_k on complex spaces), one dense vector '
                          'out-of-place and with out='},
            'tolerances': {'dft': TOL_DFT, 'ft': TOL_FT, 'wavelet': TOL_WT},
        },
        'assumptions': [
            'a DFT with a size-1 axis cannot be constructed (default range has zero extent): '
            'unspecified, not enumerated',
            'sign="+" with halfcomplex and shift=False in the halved axis are rejected by the '
            'constructors as documented: not enumerated',
            'forward o inverse = identity is only demanded for complex-to-complex transforms '
            '(R2C / R2HC inverses are documented to lose information)',
            '"periodic extension" of the adjoint clause = pad_mode "pywt_periodic" with lengths '
            'divisible by 2**nlevels (docstring: no extra boundary coefficients exactly then)',
            '"dmey" is documented as an FIR approximation: exact reconstruction / orthogonality '
            'counted as unspecified; odl must reproduce the back-end round trip bit for bit',
            'input preservation on the pyfftw DFT path is judged by effect only where the effect is '
            'deterministic (no FFTW_DESTROY_INPUT plan on the caller array, or multi-dimensional '
            'c2r which always destroys); otherwise it depends on the algorithm FFTW_MEASURE picks '
            'by timing and the docstring says the flag is on by default: counted as unspecified',
            'Gaussian convergence: finite horizon n <= 257 (1-d), <= 64 (2-d), max-norm error on '
            'the reciprocal grid',
        ],
    }
