"""C03 - operator call protocol: in-place equals out-of-place, input untouched, result in range.

Exploration
 * K: every registry instance (class x option set) x its closure under the operator-producing
   attributes (.adjoint .inverse .derivative(x) .gradient .proximal(s) .convex_conj .T, depth 1
   quick / 2 thorough) x admissible points x input layout {C, F} x prior contents of ``out``
   {fresh (poisoned), 1e30, result for another input}.
 * rejection: inputs that cannot be converted, ``out`` from a wrong space / wrong type,
   ``out`` for functionals; ``out`` must stay untouched.
 * H: synthetic subclass lattices with all accepted ``_call`` signatures x return conventions,
   instantiated in all orders (class-level dispatch cache must not depend on history).
 * introspection: every concrete Operator subclass of the odl namespace must be reached by the
   registry or its closure, or carry an explicit reason (coverage report, not a violation).
"""
import importlib
import inspect
import itertools
import pkgutil

import numpy as np
import odl

from mc import spaces as S
from mc.registry import operators as OR

PROPERTY = 'C03'
BUDGET = {'quick': 1500, 'thorough': 5400}


def configs(tier):
    thorough = tier == 'thorough'
    cfgs = []
    for spec in OR.SPECS:
        opts = spec.opts
        for i, o in enumerate(opts):
            cfgs.append({'kind': 'inst', 'spec': spec.name, 'i': i, 'depth': 3 if thorough else 2,
                         'npts': 5 if thorough else 4})
    for spec in OR.SPECS:
        for i in range(len(spec.opts) if thorough else min(2, len(spec.opts))):
            cfgs.append({'kind': 'reject', 'spec': spec.name, 'i': i})
    sigs = ['x', 'x_out', 'x_outopt', 'x_kwout']
    for a in sigs:
        for c in sigs:
            for ran in ('space', 'field'):
                cfgs.append({'kind': 'dispatch', 'A': a, 'C': c, 'range': ran})
    for sig in ('x_out', 'x_outopt', 'x_kwout'):
        for ret in ('none', 'out', 'new', 'wrongspace'):
            cfgs.append({'kind': 'returns', 'sig': sig, 'ret': ret})
    for bad in BAD_SIGS:
        cfgs.append({'kind': 'badsig', 'sig': bad})
    for ret in ('castable-list', 'wrong-size', 'object'):
        cfgs.append({'kind': 'oopret', 'ret': ret})
    cfgs.append({'kind': 'introspect'})
    return cfgs


# ------------------------------------------------------------------------------------------

def _tol(space):
    dt = S.dtype_of(space)
    return 2e-5 if dt in (np.dtype('float32'), np.dtype('complex64')) else 1e-12


def _close(a, b, tol):
    a = np.asarray(a)
    b = np.asarray(b)
    if a.shape != b.shape:
        return False
    if a.dtype.kind in 'biu' or a.dtype.kind in 'OSU':
        return bool(np.array_equal(a, b))
    fa, fb = np.isfinite(a), np.isfinite(b)
    if not np.array_equal(fa, fb):
        return False
    if not np.array_equal(a[~fa], b[~fb], equal_nan=True):
        return False
    sc = 1.0 + np.maximum(np.abs(a[fa]), np.abs(b[fb]))
    return bool(np.all(np.abs(a[fa] - b[fb]) <= tol * sc))


def _fill(space, val):
    n = S.flat_size(space)
    return S.from_flat(space, np.full(n, val, dtype=S.dtype_of(space)))


def _in(y, space):
    try:
        return y in space
    except Exception:
        return False


def _elem_variants(space, p):
    """The same point as elements with different memory layouts (tensor spaces, ndim >= 2)."""
    out = [('C', S.from_flat(space, p))]
    if (not S.is_field(space) and not S.is_pspace(space) and getattr(space, 'ndim', 1) >= 2):
        arr = np.asfortranarray(np.asarray(p).reshape(space.shape).astype(space.dtype))
        try:
            out.append(('F', space.element(arr)))
        except Exception:
            pass
    return out


def check_protocol(op, pts, label, first, stats):
    """Protocol clauses for one operator on a list of flat points."""
    dom, ran = op.domain, op.range
    tol = max(_tol(ran), _tol(dom)) if not S.is_field(ran) else 1e-12
    ref_other = None
    held = None
    for k, p in enumerate(pts):
        for lay, x in _elem_variants(dom, p):
            x0 = S.to_flat(x)
            try:
                y = op(x)
                # history: the result of the previous out-of-place call is still held by "the
                # caller"; a later call must not overwrite it (a shared result buffer would)
                if held is not None and not np.array_equal(S.to_flat(held[0]), held[1],
                                                           equal_nan=True):
                    first.setdefault((label, 'earlier_result_overwritten_by_later_call'),
                                     'y = op(x_prev) held %s; after op(x) with x=%s it holds %s'
                                     % (held[1].tolist(), np.asarray(p).tolist(),
                                        S.to_flat(held[0]).tolist()))
                held = None
                if not S.is_field(ran) and hasattr(y, 'space'):
                    held = (y, np.array(S.to_flat(y), copy=True))
            except NotImplementedError:
                stats['notimpl'] += 1
                return
            except Exception as e:
                first.setdefault((label, 'call_raises:' + type(e).__name__),
                                 'x=%s: %r' % (np.asarray(p).tolist(), e))
                stats['evals'] += 1
                continue
            stats['evals'] += 1
            if not _in(y, ran):
                first.setdefault((label, 'result_not_in_range'),
                                 'x=%s: op(x)=%r not in %r' % (np.asarray(p).tolist(), y, ran))
                continue
            if not np.array_equal(S.to_flat(x), x0, equal_nan=True):
                first.setdefault((label, 'input_modified_by_call'),
                                 'x=%s became %s' % (x0.tolist(), S.to_flat(x).tolist()))
            yf = S.to_flat(y)
            if yf.dtype.kind in 'fc' and not np.all(np.isfinite(yf)):
                # either the point is outside the domain of definition (singularity: not judged)
                # or the result contains uninitialised memory: repeat under another poison
                from mc import poison
                poison.set_float_fill(12345.678)
                try:
                    y2 = S.to_flat(op(S.from_flat(dom, p)))
                except Exception:
                    y2 = yf
                finally:
                    poison.set_float_fill(np.nan)
                stats['evals'] += 1
                if y2.shape != yf.shape or not np.array_equal(y2, yf, equal_nan=True):
                    first.setdefault((label, 'result_contains_uninitialised_memory'),
                                     'x=%s: op(x) = %s with NaN-poisoned allocations but %s with '
                                     'another poison' % (np.asarray(p).tolist(), yf.tolist(),
                                                         y2.tolist()))
                else:
                    stats['notimpl'] += 1
                continue
            if S.is_field(ran):
                # out= must be refused for functionals (Operator.__call__: TypeError)
                if k == 0 and lay == 'C':
                    try:
                        op(x, out=y)
                        first.setdefault((label, 'out_accepted_for_functional'), '')
                    except TypeError:
                        pass
                    except Exception as e:
                        first.setdefault((label, 'functional_out_raises:' + type(e).__name__),
                                         repr(e)[:200])
                    stats['evals'] += 1
                continue
            outs = [('fresh', ran.element()), ('1e30', _fill(ran, 1e30 if S.dtype_of(ran).kind in 'fc'
                                                            else 7))]
            if ref_other is not None:
                outs.append(('other-result', S.from_flat(ran, ref_other)))
            for oname, o in outs:
                try:
                    r = op(x, out=o)
                except Exception as e:
                    first.setdefault((label, 'inplace_call_raises:' + type(e).__name__),
                                     'x=%s out=%s: %r' % (np.asarray(p).tolist(), oname, e))
                    stats['evals'] += 1
                    continue
                stats['evals'] += 1
                if r is not o:
                    first.setdefault((label, 'returned_object_is_not_out'),
                                     'x=%s out=%s' % (np.asarray(p).tolist(), oname))
                of = S.to_flat(o)
                if not _close(of, yf, tol):
                    first.setdefault((label, 'inplace_differs_from_out_of_place'),
                                     'x=%s (layout %s) prior out=%s: op(x)=%s, op(x,out) left %s'
                                     % (np.asarray(p).tolist(), lay, oname, yf.tolist(),
                                        of.tolist()))
                if not np.array_equal(S.to_flat(x), x0, equal_nan=True):
                    first.setdefault((label, 'input_modified_by_inplace_call'),
                                     'x=%s became %s' % (x0.tolist(), S.to_flat(x).tolist()))
            if lay == 'C':
                ref_other = yf


def closure(op, pts, spec, depth):
    """Operators reachable through the operator-producing attributes (label, operator, dk)."""
    found = []
    seen = set()

    def visit(o, label, d, dk):
        if d == 0:
            return
        x = None
        if pts:
            try:
                x = S.from_flat(o.domain, pts[0]) if o.domain == op.domain else None
            except Exception:
                x = None
        cands = []
        for attr in ('adjoint', 'inverse', 'gradient', 'convex_conj', 'T'):
            try:
                cands.append((attr, getattr(o, attr)))
            except Exception:
                pass
        if x is not None:
            try:
                cands.append(('derivative(x)', o.derivative(x)))
            except Exception:
                pass
        if isinstance(o, odl.solvers.Functional):
            try:
                cands.append(('proximal(0.5)', o.proximal(0.5)))
            except Exception:
                pass
        for attr, c in cands:
            if not isinstance(c, odl.Operator) or c is o:
                continue
            key = (type(c).__name__, attr, d)
            lab = label + '.' + attr
            if lab in seen:
                continue
            seen.add(lab)
            # inverse / conjugates may have other domains of definition: use neutral points
            cdk = dk if attr in ('adjoint', 'T') else 'any'
            if attr in ('convex_conj',):
                cdk = 'unit'
            found.append((lab, c, cdk))
            visit(c, lab, d - 1, cdk)

    visit(op, spec, depth, 'any')
    return found


def _site_of(label, op):
    return '%s<%s>' % (label, type(op).__name__)


def run(cfg):
    k = cfg['kind']
    if k == 'inst':
        return _run_inst(cfg)
    if k == 'reject':
        return _run_reject(cfg)
    if k == 'dispatch':
        return _run_dispatch(cfg)
    if k == 'returns':
        return _run_returns(cfg)
    if k == 'badsig':
        return _run_badsig(cfg)
    if k == 'oopret':
        return _run_oopret(cfg)
    if k == 'introspect':
        return _run_introspect(cfg)
    raise KeyError(k)


def _build(cfg):
    spec = OR.BY_NAME[cfg['spec']]
    o = spec.opts[cfg['i']]
    return spec, o, spec.build(o)


def _run_inst(cfg):
    spec = OR.BY_NAME[cfg['spec']]
    o = spec.opts[cfg['i']]
    stats = {'evals': 0, 'notimpl': 0}
    first = {}
    try:
        op = spec.build(o)
    except Exception as e:
        if o.get('rejected') and isinstance(e, (ValueError, TypeError)):
            # an option set the constructor documents as rejected: a clean refusal is the
            # specified behaviour (if it ever builds, everything below applies to it)
            return {'evals': 1, 'sig': 'refused-as-documented'}
        return {'evals': 1, 'sig': 'build-raises',
                'viol': [{'site': '%s[%s]' % (spec.name, _optstr(o)),
                          'symptom': 'construction_raises:' + type(e).__name__,
                          'detail': 'options %r: %r' % (o, e)}]}
    dk = o.get('dk', spec.dk)
    pts = OR.points(op.domain, dk, cfg['npts'])
    if dk in ('any', 'pos', 'nonzero', 'unit') and S.dtype_of(op.domain).kind in 'fc':
        # one input of tiny, non-dyadic magnitude: "x bit-for-bit unchanged" also when an
        # implementation perturbs x and undoes the perturbation arithmetically
        pts = list(pts) + [(np.asarray(pts[0]) * (2.0 ** -30 / 3.0)).astype(pts[0].dtype)]
    root = '%s[%s]' % (spec.name, _optstr(o))
    check_protocol(op, pts, root, first, stats)
    classes = set([type(op).__name__])
    for lab, c, cdk in closure(op, pts, root, cfg['depth']):
        classes.add(type(c).__name__)
        try:
            cpts = OR.points(c.domain, cdk if c.domain != op.domain else dk, min(cfg['npts'], 3))
        except Exception:
            continue
        # the closure is judged on points where the plain call succeeds (its own domain of
        # definition is not in the registry); a failing plain call there is not judged
        sub = {}
        check_protocol(c, cpts, lab, sub, stats)
        for (l2, sym), det in sub.items():
            if sym.startswith('call_raises'):
                stats['notimpl'] += 1
                continue
            first.setdefault((l2, sym), det)
    viol = [{'site': _short(l), 'symptom': s, 'detail': d} for (l, s), d in first.items()]
    return {'evals': stats['evals'], 'viol': viol, 'skipped': stats['notimpl'],
            'sig': sorted(classes), 'sample': sorted(classes), 'trivial': stats['evals'] == 0}


def _short(label):
    return label


def _optstr(o):
    return ','.join('%s=%s' % (k, str(o[k]).replace(' ', '')) for k in sorted(o)
                    if k not in ('i',))


# ------------------------------------------------------------------------------------------
# rejection

class _Junk(object):
    pass


def _bad_inputs(dom):
    """Inputs that cannot be converted to a domain element."""
    n = S.flat_size(dom)
    bad = [('object', _Junk())]
    if S.is_field(dom):
        bad.append(('string', 'abc'))
        bad.append(('vector', odl.rn(2).one()))
    elif S.is_pspace(dom):
        bad.append(('wrong-length-list', [0.0] * (len(dom) + 1) if len(dom) != 1 else [[0.0] * 7] * 3))
        bad.append(('string', 'abc'))
    else:
        bad.append(('array-too-long', np.zeros(n + 1)))
        bad.append(('nested-wrong-shape', [[1.0] * 7] * 5))
        bad.append(('larger-space-element', odl.rn(n + 1).one()))
    return bad


def _bad_outs(ran):
    n = S.flat_size(ran)
    bad = [('ndarray', np.zeros(getattr(ran, 'shape', (n,)))), ('larger-space', odl.rn(n + 1).zero())]
    if not S.is_pspace(ran):
        bad.append(('product-space', (odl.rn(n) ** 2).zero()))
    return bad


def _run_reject(cfg):
    spec = OR.BY_NAME[cfg['spec']]
    o = spec.opts[cfg['i']]
    try:
        op = spec.build(o)
    except Exception:
        return {'evals': 0, 'skipped': 1, 'trivial': True, 'sig': 'unbuildable'}
    first = {}
    evals = 0
    dk = o.get('dk', spec.dk)
    pts = OR.points(op.domain, dk, 1)
    x = S.from_flat(op.domain, pts[0])
    try:
        op(x)
    except Exception:
        return {'evals': 0, 'skipped': 1, 'trivial': True, 'sig': 'not-callable'}
    for name, b in _bad_inputs(op.domain):
        outs = [None]
        if not S.is_field(op.range):
            outs.append(_fill(op.range, 5.0 if S.dtype_of(op.range).kind != 'b' else 1))
        for out in outs:
            o0 = None if out is None else S.to_flat(out)
            try:
                if out is None:
                    op(b)
                else:
                    op(b, out=out)
                first.setdefault('bad_input_accepted', 'input kind %s was accepted' % name)
            except odl.OpTypeError:
                pass
            except Exception as e:
                first.setdefault('bad_input_wrong_exception:' + type(e).__name__,
                                 'input kind %s: %r' % (name, e))
            evals += 1
            if out is not None and not np.array_equal(S.to_flat(out), o0, equal_nan=True):
                first.setdefault('out_written_before_rejection', 'input kind %s' % name)
    if not S.is_field(op.range):
        for name, b in _bad_outs(op.range):
            b0 = np.array(S.to_flat(b) if hasattr(b, 'space') else b, copy=True)
            try:
                op(x, out=b)
                first.setdefault('bad_out_accepted', 'out kind %s was accepted' % name)
            except odl.OpRangeError:
                pass
            except Exception as e:
                first.setdefault('bad_out_wrong_exception:' + type(e).__name__,
                                 'out kind %s: %r' % (name, e))
            evals += 1
            b1 = S.to_flat(b) if hasattr(b, 'space') else b
            if not np.array_equal(np.asarray(b1), b0, equal_nan=True):
                first.setdefault('out_written_before_rejection', 'out kind %s' % name)
    viol = [{'site': spec.name + '[rejection]', 'symptom': s, 'detail': d}
            for s, d in first.items()]
    return {'evals': evals, 'viol': viol, 'sig': 'reject:%s:%d' % (type(op).__name__, evals)}


# ------------------------------------------------------------------------------------------
# dispatch lattice

def _mk_call(sig, factor):
    if sig == 'x':
        def _call(self, x):
            return factor * x
    elif sig == 'x_out':
        def _call(self, x, out):
            out.lincomb(factor, x)
    elif sig == 'x_outopt':
        def _call(self, x, out=None):
            if out is None:
                return factor * x
            out.lincomb(factor, x)
            return out
    else:
        def _call(self, x, *, out=None):
            if out is None:
                return factor * x
            out.lincomb(factor, x)
    return _call


def _mk_fcall(sig, factor):
    if sig == 'x':
        def _call(self, x):
            return factor * x.inner(x)
    elif sig == 'x_out':
        def _call(self, x, out):
            raise RuntimeError
    elif sig == 'x_outopt':
        def _call(self, x, out=None):
            return factor * x.inner(x)
    else:
        def _call(self, x, *, out=None):
            return factor * x.inner(x)
    return _call


def _run_dispatch(cfg):
    sp = odl.rn(2)
    first = {}
    evals = 0
    field = cfg['range'] == 'field'
    mk = _mk_fcall if field else _mk_call
    x = sp.element([1.0, -2.0])
    expect = {'A': 2.0, 'B': 2.0, 'C': 3.0}
    for order in itertools.permutations(['A', 'B', 'C']):
        A = type('A', (odl.Operator,), {'_call': mk(cfg['A'], 2.0)})
        B = type('B', (A,), {})
        Cc = type('C', (A,), {'_call': mk(cfg['C'], 3.0)})
        classes = {'A': A, 'B': B, 'C': Cc}
        insts = {}
        for nm in order:
            sig = cfg['C'] if nm == 'C' else cfg['A']
            try:
                insts[nm] = classes[nm](sp, odl.RealNumbers() if field else sp, linear=False)
                if field and sig == 'x_out':
                    first.setdefault('mandatory_out_accepted_for_functional', 'class %s' % nm)
            except ValueError as e:
                if not (field and sig == 'x_out'):
                    first.setdefault('instantiation_raises:ValueError', repr(e)[:200])
            except Exception as e:
                first.setdefault('instantiation_raises:' + type(e).__name__, repr(e)[:200])
            evals += 1
        for nm, op in insts.items():
            f = expect[nm]
            want = f * 5.0 if field else np.array([1.0, -2.0]) * f
            try:
                got = op(x)
                gv = float(got) if field else got.asarray()
                if not np.allclose(gv, want, rtol=0, atol=0):
                    first.setdefault('dispatch_wrong_value',
                                     'order %s class %s: op(x)=%r expected %r' % (order, nm, gv, want))
                if not field:
                    o = sp.element([np.nan, np.nan])
                    r = op(x, out=o)
                    if r is not o or not np.array_equal(o.asarray(), want):
                        first.setdefault('dispatch_wrong_inplace_value',
                                         'order %s class %s: out=%r expected %r'
                                         % (order, nm, o.asarray(), want))
            except Exception as e:
                first.setdefault('dispatch_call_raises:' + type(e).__name__,
                                 'order %s class %s: %r' % (order, nm, e))
            evals += 2
    viol = [{'site': 'dispatch[A=%s,C=%s,%s]' % (cfg['A'], cfg['C'], cfg['range']),
             'symptom': s, 'detail': d} for s, d in first.items()]
    return {'evals': evals, 'viol': viol, 'sig': 'dispatch:%s:%s:%s' % (cfg['A'], cfg['C'],
                                                                       cfg['range'])}


BAD_SIGS = ['varargs', 'out_first', 'out_only', 'wrong_out_name', 'too_many', 'no_x',
            'out_default_not_none', 'kwout_default_not_none', 'staticmethod', 'classmethod']


def _run_badsig(cfg):
    """Signatures that `_dispatch_call_args` documents as illegal must be refused when the class
    is first instantiated (ValueError / TypeError), never silently mis-dispatched."""
    k = cfg['sig']
    if k == 'varargs':
        def _call(self, x, *args):
            return x
    elif k == 'out_first':
        def _call(self, out, x):
            return x
    elif k == 'out_only':
        def _call(self, out):
            return out
    elif k == 'wrong_out_name':
        def _call(self, x, y):
            return x
    elif k == 'too_many':
        def _call(self, x, out, z):
            return x
    elif k == 'no_x':
        def _call(self):
            return None
    elif k == 'out_default_not_none':
        def _call(self, x, out=1):
            return x
    elif k == 'kwout_default_not_none':
        def _call(self, x, *, out=1):
            return x
    elif k == 'staticmethod':
        _call = staticmethod(lambda x: x)
    else:
        _call = classmethod(lambda cls, x: x)
    Op = type('Op', (odl.Operator,), {'_call': _call})
    first = {}
    try:
        Op(odl.rn(2), odl.rn(2))
        first['illegal_signature_accepted'] = 'signature kind %s' % k
    except (ValueError, TypeError):
        pass
    except Exception as e:
        first['raises:' + type(e).__name__] = repr(e)[:200]
    return {'evals': 1, 'sig': 'badsig:' + k,
            'viol': [{'site': 'dispatch[illegal signature %s]' % k, 'symptom': s, 'detail': d}
                     for s, d in first.items()]}


def _run_oopret(cfg):
    """Out-of-place `_call` results are cast into the range; an uncastable result must raise
    OpRangeError (never be returned as is)."""
    ret = cfg['ret']

    def _call(self, x):
        if ret == 'castable-list':
            return [2.0, -4.0]
        if ret == 'wrong-size':
            return odl.rn(3).one()
        return object()
    Op = type('Op', (odl.Operator,), {'_call': _call})
    op = Op(odl.rn(2), odl.rn(2))
    first = {}
    try:
        y = op(odl.rn(2).element([1.0, -2.0]))
        if ret != 'castable-list':
            first['foreign_result_returned'] = 'ret=%s: %r' % (ret, y)
        elif y not in op.range or not np.array_equal(y.asarray(), [2.0, -4.0]):
            first['castable_result_not_cast_into_range'] = repr(y)
    except odl.OpRangeError:
        if ret == 'castable-list':
            first['castable_result_refused'] = ''
    except Exception as e:
        first['raises:' + type(e).__name__] = repr(e)[:200]
    return {'evals': 1, 'sig': 'oopret:' + ret,
            'viol': [{'site': 'returns[out-of-place,%s]' % ret, 'symptom': s, 'detail': d}
                     for s, d in first.items()]}


def _run_returns(cfg):
    """In-place ``_call`` may return None or out; anything else must be refused (ValueError)."""
    sp = odl.rn(2)
    ret = cfg['ret']
    sig = cfg['sig']

    def body(self, x, out):
        out.lincomb(2.0, x)
        if ret == 'none':
            return None
        if ret == 'out':
            return out
        if ret == 'new':
            return 2.0 * x
        return odl.rn(3).zero()

    if sig == 'x_out':
        def _call(self, x, out):
            return body(self, x, out)
    elif sig == 'x_outopt':
        def _call(self, x, out=None):
            if out is None:
                return 2.0 * x
            return body(self, x, out)
    else:
        def _call(self, x, *, out=None):
            if out is None:
                return 2.0 * x
            return body(self, x, out)
    Op = type('Op', (odl.Operator,), {'_call': _call})
    op = Op(sp, sp)
    x = sp.element([1.0, -2.0])
    first = {}
    o = sp.element([np.nan, np.nan])
    try:
        r = op(x, out=o)
        if ret in ('new', 'wrongspace'):
            first.setdefault('foreign_return_value_accepted', 'ret=%s' % ret)
        elif r is not o or not np.array_equal(o.asarray(), [2.0, -4.0]):
            first.setdefault('wrong_inplace_result', repr(o))
    except ValueError:
        if ret in ('none', 'out'):
            first.setdefault('legal_return_refused', 'ret=%s' % ret)
    except Exception as e:
        first.setdefault('raises:' + type(e).__name__, repr(e)[:200])
    try:
        y = op(x)
        if ret in ('none', 'out') or sig != 'x_out':
            if not np.array_equal(y.asarray(), [2.0, -4.0]):
                first.setdefault('wrong_out_of_place_result', repr(y))
        else:
            first.setdefault('foreign_return_value_accepted', 'default out-of-place bridge')
    except ValueError:
        if ret in ('none', 'out') or sig != 'x_out':
            first.setdefault('legal_return_refused', 'out-of-place, ret=%s' % ret)
    except Exception as e:
        first.setdefault('raises:' + type(e).__name__, repr(e)[:200])
    viol = [{'site': 'returns[%s,%s]' % (sig, ret), 'symptom': s, 'detail': d}
            for s, d in first.items()]
    return {'evals': 2, 'viol': viol, 'sig': 'returns:%s:%s' % (sig, ret)}


# ------------------------------------------------------------------------------------------
# introspection

def introspected_classes():
    out = {}
    for m in pkgutil.walk_packages(odl.__path__, 'odl.'):
        if '.test' in m.name or '.contrib' in m.name or 'diagnostics' in m.name:
            continue
        try:
            mod = importlib.import_module(m.name)
        except Exception:
            continue
        for n, o in vars(mod).items():
            if inspect.isclass(o) and issubclass(o, odl.Operator) and o.__module__ == m.name:
                out[n] = m.name
    return out


def _run_introspect(cfg):
    classes = introspected_classes()
    covered = set(s.cls for s in OR.SPECS)
    for s in OR.SPECS:
        covered.add(s.name.split('.')[-1] + '_op')
    gaps = sorted(n for n in classes if n not in covered and n not in OR.UNBUILDABLE)
    return {'evals': len(classes), 'viol': [], 'sig': ['introspect:%d' % len(classes)],
            'sample': {'introspected': len(classes), 'without_registry_entry': gaps,
                       'explicitly_unbuildable': OR.UNBUILDABLE}}


def summarize(results):
    reached = set()
    gaps = []
    nclasses = 0
    for cfg, r in results:
        if cfg['kind'] == 'inst' and isinstance(r.get('sample'), list):
            reached.update(r['sample'])
        if cfg['kind'] == 'introspect' and isinstance(r.get('sample'), dict):
            gaps = r['sample']['without_registry_entry']
            nclasses = r['sample']['introspected']
    return {'operator_classes_executed': len(reached),
            'introspected_module_level_classes': nclasses,
            'module_level_classes_without_registry_entry': gaps}


def trace_functions():
    from odl.operator import operator as M
    return [M.Operator.__call__, M._default_call_out_of_place, M._default_call_in_place,
            M._dispatch_call_args, M.Operator.__new__]


def meta(tier):
    return {
        'rule': 'state = registry instance (class x option set) with its attribute closure '
                '(adjoint, inverse, derivative, gradient, proximal, convex_conj, T) | rejection '
                'probe | synthetic dispatch lattice (4 signatures^2 x 2 range kinds x 6 '
                'instantiation orders) | return-convention probe | introspection. distinct = set of '
                'operator classes executed per state + executed-line signature of '
                'Operator.__call__ / dispatch. History inside a state: the result of the previous '
                'out-of-place call is held and must survive the next call; a non-finite result is '
                're-executed under a second poison value (uninitialised memory)',
        'bounds': {'points_per_operator': 3 if tier == 'quick' else 5,
                   'closure_depth': 2 if tier == 'quick' else 3,
                   'prior_out': ['fresh (NaN-poisoned)', '1e30', 'result for another input'],
                   'layouts': ['C', 'F (ndim >= 2)']},
        'assumptions': ['inputs are a fixed deterministic point set per domain kind, not all '
                        'inputs: the protocol clauses are value-independent code paths',
                        'tolerance 1e-12 (2e-5 single) between in-place and out-of-place values',
                        'closure operators are judged only where their plain call succeeds'],
    }
